#!/usr/bin/env python3
"""check.py <Cxx> --tier quick|thorough [--replay file]   |   check.py --setup   |   check.py --list"""
import argparse
import importlib
import json
import os
import pkgutil
import subprocess
import sys

HERE = os.path.dirname(os.path.abspath(__file__))
sys.path.insert(0, HERE)

from vlib import core  # noqa: E402


def load_specs():
    specs = {}
    import checks
    for m in pkgutil.iter_modules(checks.__path__):
        mod = importlib.import_module("checks." + m.name)
        for s in getattr(mod, "SPECS", []):
            specs[s.prop] = s
    return specs


def setup():
    for d in ("build", "evidence", "replay"):
        os.makedirs(os.path.join(HERE, d), exist_ok=True)
    ok = True
    # sanitizer smoke test: the toolchain must detect an overflow and a race
    import tempfile
    with tempfile.TemporaryDirectory(dir=os.path.join(HERE, "build")) as td:
        src = os.path.join(td, "t.cpp")
        open(src, "w").write("#include <cstdlib>\nint main(int c,char**){int*a=new int[2];int r=a[c+1];delete[]a;return r;}\n")
        exe = os.path.join(td, "t")
        r = subprocess.run(["g++", "-g", "-fsanitize=address,undefined", src, "-o", exe], capture_output=True)
        if r.returncode != 0:
            print("setup: g++ ASan build failed"); ok = False
        else:
            r = subprocess.run([exe], capture_output=True)
            if b"heap-buffer-overflow" not in r.stderr:
                print("setup: ASan did not report a seeded overflow"); ok = False
    # reference implementations: known-answer tests
    ref = os.path.join(HERE, "refimpl", "selftest.cpp")
    if os.path.exists(ref):
        exe = os.path.join(HERE, "build", "refimpl_selftest")
        r = subprocess.run(["g++", "-std=c++11", "-O1", "-g", "-I" + os.path.join(HERE, "refimpl"), ref, "-o", exe], capture_output=True, text=True)
        if r.returncode != 0:
            print("setup: refimpl selftest build failed\n" + r.stderr[-2000:]); ok = False
        else:
            r = subprocess.run([exe], capture_output=True, text=True)
            print(r.stdout.strip())
            if r.returncode != 0:
                print("setup: refimpl known-answer tests failed"); ok = False
    print("setup: ok" if ok else "setup: FAILED")
    return 0 if ok else 2


def main():
    ap = argparse.ArgumentParser()
    ap.add_argument("prop", nargs="?")
    ap.add_argument("--tier", default=os.environ.get("VERIF_TIER", "quick"), choices=["quick", "thorough"])
    ap.add_argument("--replay")
    ap.add_argument("--setup", action="store_true")
    ap.add_argument("--list", action="store_true")
    a = ap.parse_args()
    if a.setup:
        return setup()
    specs = load_specs()
    if a.list:
        for k in sorted(specs):
            print(k, specs[k].level, specs[k].technique)
        return 0
    if not a.prop or a.prop not in specs:
        print("unknown property; known: " + " ".join(sorted(specs)))
        return 2
    seed = int(os.environ.get("VERIF_SEED", "1") or "1")
    replay = None
    if a.replay:
        with open(a.replay) as f:
            replay = json.load(f)
        seed = replay.get("seed", seed)
        tier = replay.get("tier", a.tier)
    else:
        tier = a.tier
    try:
        return core.execute(specs[a.prop], tier, seed, replay)
    except core.Inconclusive as e:
        print("INCONCLUSIVE: %s" % e)
        return 2


if __name__ == "__main__":
    sys.exit(main())
