// C40: the cycling speed and cadence service inside a real bluetoe::server, driven through l2cap_input /
// l2cap_output with exact-size heap buffers.
//
// Oracle = a model of "accepted procedures awaiting their response indication" (normally zero or one entry) plus the
// trace of response indications (CSCS: value = 0x10, request op code, response value, ...):
//   * a well-formed procedure written while the CCCD is configured for indications and NO accepted procedure awaits
//     its response must be accepted (Write Response); an error response there is a violation (keyed by whether the
//     error is "Procedure Already In Progress" (0x80 CSCS / 0xFE CSS) and by what happened before);
//   * rejected / malformed writes create no awaiting procedure: what follows them is judged by the rule above;
//   * every accepted procedure produces exactly one response indication carrying its request op code: a response
//     whose request op code matches no awaiting procedure, a response while nothing awaits, and a procedure whose
//     response does not appear although it could be sent (handler confirmed, no unconfirmed indication, CCCD on) are
//     violations;
//   * at the end of every history the link is settled and a probe procedure (op 4) must be accepted and answered.
// The decision on malformed / ambiguous writes and the error codes themselves are NOT judged (the property statement
// does not fix them); the model follows the server's decision and judges the consequences.
//
// Histories: exhaustive DFS over the operation alphabet to --depth (server, connection and model are copied per node),
// then --ops random operations in histories of up to 60 operations.  Variants: multiple sensor locations + wheel,
// single location + wheel (op 3/4 answered "op code not supported"), crank only with two locations.
#include <bluetoe/server.hpp>
#include <bluetoe/gatt_options.hpp>
#include <bluetoe/sensor_location.hpp>
#include <bluetoe/services/csc.hpp>
#include "common/verif.hpp"

#include <vector>
#include <string>
#include <set>
#include <algorithm>

using verif::mon;
typedef std::vector<std::uint8_t> bytes;

struct data_handler {
    bool          set_outstanding = false;   // set_cumulative_wheel_revolutions called, confirm not yet given
    bool          sync_confirm = false;      // confirm from inside the callback
    unsigned long set_calls = 0;
    std::uint32_t wheel = 0;

    std::pair<std::uint32_t, std::uint16_t> cumulative_wheel_revolutions_and_time() { return std::pair<std::uint32_t, std::uint16_t>(wheel, 0x1234); }
    std::pair<std::uint16_t, std::uint16_t> cumulative_crank_revolutions_and_time() { return std::pair<std::uint16_t, std::uint16_t>(0x3456, 0x1234); }
    void set_cumulative_wheel_revolutions(std::uint32_t v);
};

typedef bluetoe::server<
    bluetoe::no_gap_service_for_gatt_servers,
    bluetoe::cycling_speed_and_cadence<
        bluetoe::sensor_location::top_of_shoe, bluetoe::sensor_location::in_shoe, bluetoe::sensor_location::hip,
        bluetoe::csc::wheel_revolution_data_supported, bluetoe::csc::crank_revolution_data_supported,
        bluetoe::csc::handler<data_handler> > > server_multi;
typedef bluetoe::server<
    bluetoe::no_gap_service_for_gatt_servers,
    bluetoe::cycling_speed_and_cadence<
        bluetoe::sensor_location::top_of_shoe,
        bluetoe::csc::wheel_revolution_data_supported,
        bluetoe::csc::handler<data_handler> > > server_single;
typedef bluetoe::server<
    bluetoe::no_gap_service_for_gatt_servers,
    bluetoe::cycling_speed_and_cadence<
        bluetoe::sensor_location::top_of_shoe, bluetoe::sensor_location::left_crank,
        bluetoe::csc::crank_revolution_data_supported,
        bluetoe::csc::handler<data_handler> > > server_crank;

static unsigned long long g_step = 0;
static std::set<unsigned long long> g_skip;
static std::set<std::string> g_disabled;
static void (*g_sync_confirm)() = nullptr;   // confirm on the world executing right now
static bool g_read_cp = false;               // --readcp=1: also issue ATT Read Requests on the control point (outside the property's quantifier)

void data_handler::set_cumulative_wheel_revolutions(std::uint32_t v) {
    wheel = v; ++set_calls; set_outstanding = true;
    if (sync_confirm && g_sync_confirm) { set_outstanding = false; g_sync_confirm(); }
}

enum op_t { W1, W3, W3BAD, W4, WUNK, M1, M3, M4, EMPTY, WCMD4, PREP, READCP, POLL, CONF, HCONF, DISC, CCCD_ON, CCCD_OFF, NOPS };
static const char* const op_name[] = { "W1", "W3", "W3bad", "W4", "Wunknown", "M1len", "M3len", "M4len", "Wempty", "Wcmd4", "Prepare", "ReadCP", "Poll", "Confirm", "HandlerConfirm", "Disconnect", "CccdOn", "CccdOff" };

struct awaiting_t { std::uint8_t opcode; bool triggered; bool by_command; bool reported; int hint_at_write; };

struct model {
    bool cccd = false;
    bool in_flight = false;                 // an indication was sent and is not yet confirmed
    std::vector<awaiting_t> awaiting;
    // what happened since a procedure was last accepted (goes into the violation key)
    enum hint_t { none, rejected_write, malformed_write, disconnect_pending } hint = none;
    void note(hint_t h) { if (h > hint) hint = h; }       // the most specific cause wins until a procedure is accepted again
};
static const char* const hint_name[] = { "after_accepted_procedures_only", "after_rejected_write", "after_malformed_write", "after_disconnect_with_procedure_pending" };

struct hist_entry { std::uint8_t op; bytes in, out; };

template <class Server>
struct world {
    typedef typename Server::template channel_data_t<bluetoe::details::link_state> conn_t;
    Server srv;
    conn_t conn;
    model m;
    std::uint16_t h_cp = 0, h_cccd = 0;
    const char* variant = "";

    static world* current;
    static bool cb(const bluetoe::details::notification_data& item, void* that, bluetoe::details::notification_type type) {
        world& w = *static_cast<world*>(that);
        switch (type) {
        case bluetoe::details::notification_type::notification: return w.conn.queue_notification(item.client_characteristic_configuration_index());
        case bluetoe::details::notification_type::indication:   return w.conn.queue_indication(item.client_characteristic_configuration_index());
        case bluetoe::details::notification_type::confirmation: w.conn.indication_confirmed(); return true;
        }
        return true;
    }
    static void sync_confirm_cb() { world& w = *current; w.srv.confirm_cumulative_wheel_revolutions(w.srv); }
    void attach() { srv.notification_callback(&cb, this); current = this; g_sync_confirm = &sync_confirm_cb; }
};
template <class Server> world<Server>* world<Server>::current = nullptr;

// the service learns about a disconnect only if it offers csc_client_disconnected() (proposed fix); the unchanged
// service has no such entry point and is left alone
template <class S> static auto service_disconnected(S& s, int) -> decltype(s.csc_client_disconnected(), void()) { s.csc_client_disconnected(); mon("C40").count("service_told_about_disconnect"); }
template <class S> static void service_disconnected(S&, long) {}

static std::string hist_str(const std::vector<hist_entry>& h) {
    std::string s;
    for (auto& e : h) {
        if (!s.empty()) s += " | ";
        s += op_name[e.op];
        if (!e.in.empty()) s += " in " + verif::hex(e.in);
        if (!e.out.empty()) s += " -> " + verif::hex(e.out);
    }
    return s;
}

template <class Server>
struct runner {
    typedef world<Server> W;
    const char* variant;
    bool sync_confirm;
    std::uint8_t valid_location, unknown_opcode;

    std::string cfg() const { return std::string(variant) + (sync_confirm ? "/sync_confirm" : "/deferred_confirm"); }

    bool enabled(const char* cls) {
        ++g_step; verif::ctx_step(g_step);
        if (g_skip.count(g_step)) { g_disabled.insert(cls); mon("C40").count("steps_skipped_after_crash"); return false; }
        if (g_disabled.count(cls)) { mon("C40").count(std::string("steps_of_disabled_class_") + cls); return false; }
        return true;
    }

    bytes att_in(W& w, const bytes& pdu, const char* cls, bool& executed) {
        verif::ctx_op(cls, pdu.data(), pdu.size());
        executed = enabled(cls);
        bytes r;
        if (!executed) return r;
        w.attach();
        verif::exact_buffer in(pdu.data(), pdu.size());
        verif::exact_buffer out(23);
        std::size_t n = 23;
        w.srv.l2cap_input(in.data(), pdu.size(), out.data(), n, w.conn);
        if (n > 23) n = 23;
        r.assign(out.data(), out.data() + n);
        return r;
    }
    bytes att_out(W& w, bool& executed) {
        verif::ctx_op("l2cap_output");
        executed = enabled("poll");
        bytes r;
        if (!executed) return r;
        w.attach();
        verif::exact_buffer out(23);
        std::size_t n = 23;
        w.srv.l2cap_output(out.data(), n, w.conn);
        if (n > 23) n = 23;
        r.assign(out.data(), out.data() + n);
        return r;
    }

    void viol(const std::string& key, const std::string& what, const std::vector<hist_entry>& h) {
        verif::monitor& M = mon("C40");
        auto it = M.viol_count.find(key);
        if (it != M.viol_count.end() && it->second >= 2) { verif::violation("C40", key, "", g_step); return; }   // only the printed ones carry a witness
        verif::violation("C40", key, what + "; variant=" + cfg() + " history (after setup: CP value handle / CCCD discovered, CCCD state as shown by CccdOn/CccdOff): " + hist_str(h), g_step);
    }

    // discovery + initial world
    W make(bool cccd_on) {
        W w; w.variant = variant; w.srv.sync_confirm = sync_confirm; w.attach();
        bool ex;
        // characteristic declaration with uuid 0x2A55
        std::uint16_t from = 1;
        for (int guard = 0; guard < 12 && !w.h_cp; ++guard) {
            const bytes q{ 0x08, static_cast<std::uint8_t>(from & 0xff), static_cast<std::uint8_t>(from >> 8), 0xff, 0xff, 0x03, 0x28 };
            const bytes r = att_in(w, q, "setup", ex);
            if (!ex || r.size() < 2 || r[0] != 0x09) break;
            const std::size_t len = r[1];
            for (std::size_t pos = 2; len >= 7 && pos + len <= r.size(); pos += len) {
                from = static_cast<std::uint16_t>((r[pos] | (r[pos + 1] << 8)) + 1);
                if (len == 7 && r[pos + 5] == 0x55 && r[pos + 6] == 0x2a) w.h_cp = r[pos + 3] | (r[pos + 4] << 8);
            }
        }
        for (std::uint16_t h = w.h_cp + 1; w.h_cp && h < w.h_cp + 4 && !w.h_cccd; ++h) {
            const bytes q{ 0x04, static_cast<std::uint8_t>(h & 0xff), static_cast<std::uint8_t>(h >> 8), static_cast<std::uint8_t>(h & 0xff), static_cast<std::uint8_t>(h >> 8) };
            const bytes r = att_in(w, q, "setup", ex);
            if (ex && r.size() >= 6 && r[0] == 0x05 && r[1] == 0x01 && r[4] == 0x02 && r[5] == 0x29) w.h_cccd = h;
        }
        if (!w.h_cp || !w.h_cccd) { std::printf("{\"t\":\"note\",\"msg\":\"discovery failed %s cp=%u cccd=%u\"}\n", variant, w.h_cp, w.h_cccd); std::exit(3); }
        if (cccd_on) { std::vector<hist_entry> h; apply(w, CCCD_ON, h, nullptr); }
        return w;
    }

    bytes value_of(int op, verif::prng* r) const {
        switch (op) {
        case W1: { bytes v{ 1, 0x01, 0x20, 0x30, 0x04 }; if (r) for (int i = 1; i < 5; ++i) v[i] = r->byte(); return v; }
        case W3: return bytes{ 3, valid_location };
        case W3BAD: return bytes{ 3, 0x42 };
        case W4: case WCMD4: return bytes{ 4 };
        case WUNK: return bytes{ r ? static_cast<std::uint8_t>(r->pick(std::vector<int>{ 0, 2, 5, 15, 16, 17, 0x42, 0x80, 0xff })) : unknown_opcode };
        case M1: { bytes v{ 1, 1, 2, 3 }; if (r) { const int n = r->pick(std::vector<int>{ 0, 1, 2, 3, 5, 6, 19 }); v.assign(1 + n, 0x11); v[0] = 1; } return v; }
        case M3: { bytes v{ 3 }; if (r && r->chance(1, 2)) { v.push_back(1); v.push_back(2); } return v; }
        case M4: { bytes v{ 4, 0 }; if (r) v.resize(2 + r->below(5), 0x22); return v; }
        default: return bytes();
        }
    }

    // one operation on the server and the model; returns false if the branch is not applicable (pruned)
    bool apply(W& w, int op, std::vector<hist_entry>& hist, verif::prng* rnd) {
        verif::monitor& M = mon("C40");
        model& m = w.m;
        bool ex = true;
        hist_entry he; he.op = static_cast<std::uint8_t>(op);
        const std::size_t awaiting_before = m.awaiting.size();
        int outcome = 0;
        switch (op) {
        case W1: case W3: case W3BAD: case W4: case WUNK: case M1: case M3: case M4: case EMPTY: case WCMD4: {
            const bool command = op == WCMD4;
            if (command && !(m.cccd && m.awaiting.empty())) return false;        // acceptance of a command is only predictable there
            const bytes value = value_of(op, rnd);
            const bool wellformed = op == W1 || op == W3 || op == W3BAD || op == W4 || op == WUNK || op == WCMD4;
            const bool malformed = op == M1 || op == M3 || op == M4 || op == EMPTY;
            he.in = bytes{ static_cast<std::uint8_t>(command ? 0x52 : 0x12), static_cast<std::uint8_t>(w.h_cp & 0xff), static_cast<std::uint8_t>(w.h_cp >> 8) };
            he.in.insert(he.in.end(), value.begin(), value.end());
            he.out = att_in(w, he.in, op_name[op], ex);
            hist.push_back(he);
            if (!ex) return true;
            M.eval();
            bool accepted; std::uint8_t err = 0;
            if (command) { accepted = true; M.cls("write_command"); }
            else if (he.out.size() == 1 && he.out[0] == 0x13) accepted = true;
            else { accepted = false; err = he.out.size() == 5 ? he.out[4] : 0; }
            const bool in_progress_code = err == 0xfe || err == 0x80;
            if (!m.cccd) {
                M.cls(accepted ? "write_cccd_unconfigured_accepted" : "write_cccd_unconfigured_rejected");
            } else if (wellformed) {
                if (m.awaiting.empty() && !accepted) {
                    viol(std::string("C40:rejected_while_no_procedure_awaits:") + (in_progress_code ? "procedure_already_in_progress" : "other_error") + ":" + hint_name[m.hint],
                         std::string("well-formed procedure ") + op_name[op] + " refused with error 0x" + verif::hex(&err, 1) + " although no accepted procedure awaits its response indication", hist);
                    M.cls("wellformed_rejected_while_idle");
                } else if (accepted) {
                    M.cls(m.awaiting.empty() ? "wellformed_accepted_while_idle" : "wellformed_accepted_while_pending");
                    if (m.hint == model::malformed_write || m.hint == model::rejected_write) M.cls("wellformed_accepted_after_rejected_or_malformed");
                } else M.cls(in_progress_code ? "wellformed_rejected_in_progress_while_pending" : "wellformed_rejected_other_while_pending");
            } else if (malformed) {
                M.cls(accepted ? "malformed_accepted" : (op == EMPTY ? "empty_rejected" : "malformed_rejected"));
            }
            if (accepted) {
                awaiting_t a; a.opcode = value.empty() ? 0 : value[0]; a.by_command = command; a.reported = false;
                a.triggered = !(a.opcode == 1 && w.srv.set_outstanding);
                a.hint_at_write = m.hint;
                if (a.opcode == 1) M.cls("accepted_op1"); else if (a.opcode == 3) M.cls("accepted_op3"); else if (a.opcode == 4) M.cls("accepted_op4"); else M.cls("accepted_unknown_opcode");
                m.awaiting.push_back(a);
                m.hint = model::none;
            } else if (m.awaiting.empty()) {
                m.note(malformed ? model::malformed_write : model::rejected_write);
            }
            outcome = accepted ? 1 : 0x100 + err;
            break;
        }
        case PREP: {
            he.in = bytes{ 0x16, static_cast<std::uint8_t>(w.h_cp & 0xff), static_cast<std::uint8_t>(w.h_cp >> 8), 0, 0, 4 };
            he.out = att_in(w, he.in, "Prepare", ex); hist.push_back(he);
            if (!ex) return true;
            M.cls(he.out.size() == 5 && he.out[0] == 0x01 ? "prepare_write_refused" : "prepare_write_other");
            if (m.awaiting.empty()) m.note(model::rejected_write);
            outcome = he.out.size() == 5 ? he.out[4] : 0;
            break;
        }
        case READCP: {
            if (!g_read_cp) return false;
            he.in = bytes{ 0x0a, static_cast<std::uint8_t>(w.h_cp & 0xff), static_cast<std::uint8_t>(w.h_cp >> 8) };
            he.out = att_in(w, he.in, "ReadCP", ex); hist.push_back(he);
            if (!ex) return true;
            M.cls(!he.out.empty() && he.out[0] == 0x0b ? "read_control_point_answered" : "read_control_point_refused");
            outcome = he.out.empty() ? 0 : he.out[0];
            break;
        }
        case POLL: {
            he.out = att_out(w, ex); hist.push_back(he);
            if (!ex) return true;
            M.eval();
            const bytes& p = he.out;
            const bool deliverable = m.cccd && !m.in_flight;
            if (p.size() >= 3 && p[0] == 0x1d && (p[1] | (p[2] << 8)) == w.h_cp) {
                if (m.in_flight) M.cls("indication_while_unconfirmed");      // ATT flow control: not this property
                m.in_flight = true;
                const std::uint8_t req = p.size() >= 5 ? p[4] : 0;
                if (p.size() < 6 || p[3] != 0x10) {
                    viol("C40:response:format", "response indication value is not (0x10, request op code, response value, ...): " + verif::hex(p), hist);
                } else if (m.awaiting.empty()) {
                    viol("C40:response:without_accepted_procedure", "response indication for request op code " + std::to_string(req) + " although no accepted procedure awaits a response", hist);
                } else {
                    std::size_t i = 0;
                    for (; i < m.awaiting.size(); ++i) if (m.awaiting[i].opcode == req) break;
                    if (i == m.awaiting.size()) {
                        viol("C40:response:wrong_request_opcode", "response indication carries request op code " + std::to_string(req) + ", awaiting: " + std::to_string(m.awaiting[0].opcode), hist);
                        m.awaiting.erase(m.awaiting.begin());
                    } else {
                        if (!m.awaiting[i].triggered) M.cls("response_before_handler_confirm");
                        m.awaiting.erase(m.awaiting.begin() + i);
                        M.cls("response_indication_checked");
                    }
                }
                outcome = 2;
            } else if (p.empty()) {
                if (deliverable)
                    for (auto& a : m.awaiting) if (a.triggered && !a.reported) {
                        a.reported = true;
                        if (a.by_command)
                            viol(std::string("C40:rejected_while_no_procedure_awaits:write_command_unanswered:") + hint_name[a.hint_at_write],
                                 "well-formed procedure (op code " + std::to_string(a.opcode) + ") sent by Write Command while no accepted procedure awaited its response: no response indication is produced", hist);
                        else
                            viol("C40:response:missing", "procedure with op code " + std::to_string(a.opcode) + " was accepted but no response indication is produced", hist);
                        break;
                    }
                M.cls("poll_empty");
                outcome = 1;
            } else { M.cls("poll_other_pdu"); outcome = 3; }
            break;
        }
        case CONF: {
            he.in = bytes{ 0x1e };
            he.out = att_in(w, he.in, "Confirm", ex); hist.push_back(he);
            if (!ex) return true;
            M.cls(m.in_flight ? "confirmation" : "spurious_confirmation");
            m.in_flight = false;
            break;
        }
        case HCONF: {
            if (!w.srv.set_outstanding) return false;
            verif::ctx_op("handler_confirm");
            hist.push_back(he);
            if (!enabled("HandlerConfirm")) return true;
            w.attach();
            w.srv.set_outstanding = false;
            w.srv.confirm_cumulative_wheel_revolutions(w.srv);
            for (auto& a : m.awaiting) if (a.opcode == 1 && !a.triggered) { a.triggered = true; break; }
            M.cls("handler_confirm");
            break;
        }
        case DISC: {
            verif::ctx_op("disconnect");
            hist.push_back(he);
            if (!enabled("Disconnect")) return true;
            w.attach();
            w.srv.client_disconnected(w.conn);
            service_disconnected(w.srv, 0);
            w.conn = typename W::conn_t();
            w.srv.set_outstanding = false;                 // the application forgets the request of the lost link
            M.cls(m.awaiting.empty() ? "disconnect" : "disconnect_while_pending");
            if (!m.awaiting.empty()) m.note(model::disconnect_pending);
            m.awaiting.clear(); m.cccd = false; m.in_flight = false;
            break;
        }
        case CCCD_ON: case CCCD_OFF: {
            if (op == CCCD_OFF && (!m.awaiting.empty() || m.in_flight)) return false;   // not unsubscribing in the middle of a procedure (see limits)
            he.in = bytes{ 0x12, static_cast<std::uint8_t>(w.h_cccd & 0xff), static_cast<std::uint8_t>(w.h_cccd >> 8), static_cast<std::uint8_t>(op == CCCD_ON ? 2 : 0), 0 };
            he.out = att_in(w, he.in, "Cccd", ex); hist.push_back(he);
            if (!ex) return true;
            if (he.out.size() == 1 && he.out[0] == 0x13) m.cccd = op == CCCD_ON;
            M.cls(op == CCCD_ON ? "cccd_on" : "cccd_off");
            break;
        }
        }
        std::uint64_t h = verif::hstr(cfg());
        h = verif::mix(h, op); h = verif::mix(h, outcome); h = verif::mix(h, m.cccd * 4 + m.in_flight * 2 + w.srv.set_outstanding);
        h = verif::mix(h, awaiting_before); h = verif::mix(h, m.awaiting.empty() ? 0x99 : m.awaiting[0].opcode * 2 + m.awaiting[0].triggered); h = verif::mix(h, m.hint);
        if (awaiting_before || !m.awaiting.empty() || outcome > 1 || op == DISC) M.nontrivial(h);
        return true;
    }

    // end of a history: settle the link, then a probe procedure must run through (on a copy)
    void leaf(const W& w0, const std::vector<hist_entry>& hist0) {
        verif::monitor& M = mon("C40");
        W w = w0; std::vector<hist_entry> hist = hist0;
        if (!w.m.cccd) apply(w, CCCD_ON, hist, nullptr);
        for (int i = 0; i < 3 && (w.srv.set_outstanding || w.m.in_flight || !w.m.awaiting.empty()); ++i) {
            apply(w, HCONF, hist, nullptr);
            apply(w, CONF, hist, nullptr);
            apply(w, POLL, hist, nullptr);
        }
        if (w.m.in_flight) apply(w, CONF, hist, nullptr);
        M.eval();
        if (!w.m.awaiting.empty()) {
            bool rep = false; for (auto& a : w.m.awaiting) rep = rep || a.reported;
            bool cmd = false; for (auto& a : w.m.awaiting) cmd = cmd || a.by_command;
            if (!rep && cmd) viol(std::string("C40:rejected_while_no_procedure_awaits:write_command_unanswered:") + hint_name[w.m.awaiting[0].hint_at_write], "well-formed procedure sent by Write Command while no accepted procedure awaited its response: no response indication after settling the link", hist);
            else if (!rep) viol("C40:response:missing", "after settling the link (handler confirmed, confirmations sent, output polled) an accepted procedure still has no response", hist);
            return;
        }
        const std::size_t before = hist.size();
        apply(w, W4, hist, nullptr);
        if (hist.size() > before && hist.back().out.size() == 1 && hist.back().out[0] == 0x13) {
            apply(w, POLL, hist, nullptr);
            if (w.m.awaiting.empty()) M.cls("leaf_probe_answered");
        }
    }

    void dfs(const W& w, std::vector<hist_entry>& hist, int depth, unsigned long long& histories, int first_only) {
        if (depth == 0) { ++histories; leaf(w, hist); return; }
        for (int op = 0; op < NOPS; ++op) {
            if (first_only >= 0 && hist.empty() && op != first_only) continue;
            W w2 = w;
            const std::size_t n = hist.size();
            const unsigned long long v0 = mon("C40").violations;
            const bool ok = apply(w2, op, hist, nullptr);
            if (ok) {
                if (mon("C40").violations != v0) { ++histories; }           // a diverged pair is not followed further
                else dfs(w2, hist, depth - 1, histories, first_only);
            }
            hist.resize(n);
        }
    }

    void random_histories(verif::prng& r, unsigned long long ops) {
        static const int weights[NOPS] = { 10, 8, 4, 10, 6, 6, 4, 4, 4, 4, 2, 3, 14, 8, 8, 3, 5, 2 };
        std::vector<int> bag; for (int i = 0; i < NOPS; ++i) for (int k = 0; k < weights[i]; ++k) bag.push_back(i);
        unsigned long long done = 0;
        while (done < ops) {
            W w = make(r.chance(3, 4));
            std::vector<hist_entry> hist;
            const unsigned len = 5 + r.below(56);
            const unsigned long long v0 = mon("C40").violations;
            for (unsigned i = 0; i < len; ++i) {
                if (apply(w, r.pick(bag), hist, &r)) ++done;
                if (mon("C40").violations != v0) break;
            }
            if (mon("C40").violations == v0) leaf(w, hist);
            mon("C40").count("random_histories");
        }
    }

    void run(verif::prng& r, int depth, unsigned long long ops, int first_only, int starts) {
        verif::ctx_config(cfg());
        for (int start = 0; start < starts; ++start) {
            W w = make(start == 0);
            // iterative deepening: the shortest witness of a failure shape is reported first
            for (int d = (first_only >= 0 ? depth : 1); d <= depth; ++d) {
                std::vector<hist_entry> hist; unsigned long long histories = 0;
                dfs(w, hist, d, histories, first_only);
                mon("C40").count("exhaustive_histories_depth_" + std::to_string(d), histories);
            }
        }
        random_histories(r, ops);
    }
};

int main(int argc, char** argv) {
    verif::args a(argc, argv);
    verif::install_crash_handler();
    verif::ctx_prop("C40");
    verif::prng r(a.num("seed", 1));
    const int depth = static_cast<int>(a.num("depth", 4));
    const unsigned long long ops = a.num("ops", 20000);
    const int first = a.has("first") ? static_cast<int>(a.num("first")) : -1;
    const std::string variants = a.str("variants", "multi,single,crank");
    g_read_cp = a.num("readcp", 0) != 0;
    {
        const std::string s = a.str("skip");
        std::size_t pos = 0;
        while (pos < s.size()) { g_skip.insert(std::strtoull(s.c_str() + pos, nullptr, 10)); pos = s.find(',', pos); if (pos == std::string::npos) break; ++pos; }
    }
    verif::run_config() = "csc depth=" + std::to_string(depth) + " first=" + std::to_string(first) + " variants=" + variants;
    const std::string syncs = a.str("sync", "both");
    const int starts = static_cast<int>(a.num("starts", 2));     // 1: histories start with the CCCD configured; 2: also unconfigured
    for (int sync = 0; sync < 2; ++sync) {
        if ((sync == 0 && syncs == "1") || (sync == 1 && syncs == "0")) continue;
        if (variants.find("multi") != std::string::npos) { runner<server_multi> x; x.variant = "multi_location_wheel_crank"; x.sync_confirm = sync; x.valid_location = 3; x.unknown_opcode = 0x42; x.run(r, depth, ops, first, starts); }
        if (variants.find("single") != std::string::npos) { runner<server_single> x; x.variant = "single_location_wheel"; x.sync_confirm = sync; x.valid_location = 1; x.unknown_opcode = 0x02; x.run(r, depth, ops, first, starts); }
        if (variants.find("crank") != std::string::npos) { runner<server_crank> x; x.variant = "crank_only_two_locations"; x.sync_confirm = sync; x.valid_location = 5; x.unknown_opcode = 0x00; x.run(r, depth, ops, first, starts); }
    }
    verif::monitor& M = mon("C40");
    M.exhaustive = false;      // exhaustive to the stated depth only
    M.count("steps", g_step);
    M.sample_json("{\"alphabet\":\"W1 W3 W3bad W4 Wunknown M1len M3len M4len Wempty Wcmd4 Prepare ReadCP Poll Confirm HandlerConfirm Disconnect CccdOn CccdOff\",\"exhaustive_depth\":" + std::to_string(depth) + ",\"random_ops\":" + std::to_string(ops) + "}");
    verif::finish();
    return 0;
}
