// C39: the bootloader service inside a real bluetoe::server, driven through l2cap_input / l2cap_output with
// exact-size heap buffers.  The user handler is a mock flash (sparse memory map) that records every call.
//
// Oracle (three parts, all taken from the property statement and bluetoe/services/bootloader.md):
//  (a) region predicate: every start_flash / read_mem / checksum32(addr,size) / public_read_mem / public_checksum32
//      call with size > 0 has [addr, addr+size) entirely inside ONE white-listed region (regions are page aligned in
//      every configuration, so flashing whole pages is not itself a violation);
//  (b) over-read: every PDU is handed to the server in an exact-size heap block, so reading a control point value
//      beyond its bytes is an ASan heap-buffer-overflow report (turned into a violation by the driver);
//  (c) flash model: in a protocol-conforming flash episode (Start Flash accepted while no page flash is
//      outstanding, data written without over-running the announced page buffers, optionally Flush) every page handed
//      to start_flash equals "previous flash content overlaid with the client's data at start address + stream
//      offset", every completed page (or everything after an accepted Flush) is in the flash afterwards, and the
//      checksums announced in the Start Flash response, the Flush response and the Progress notifications equal an
//      independently computed adler32 chain over (start address bytes, data stream up to the block end) with
//      ascending consecutive numbers.
// Outside conforming episodes (protocol abuse) the behaviour of the data stream is not specified by bootloader.md;
// there only (a) and (b) are demanded.
//
// One configuration (page size, region list, MTU) per translation unit: -DBL_CFG=0..4.
#include <bluetoe/server.hpp>
#include <bluetoe/gatt_options.hpp>
#include <bluetoe/services/bootloader.hpp>
#include "common/verif.hpp"

#include <map>
#include <set>
#include <memory>
#include <vector>
#include <string>
#include <algorithm>

namespace bb = bluetoe::bootloader;
using verif::mon;
typedef std::uint64_t u64;
typedef std::vector<std::uint8_t> bytes;

#ifndef BL_CFG
#define BL_CFG 0
#endif

struct region_t { u64 b, e; };

#if BL_CFG == 0
#define BL_PAGE 16
#define BL_MTU 23
#define BL_REGIONS bb::memory_region<0x1000, 0x1040>
static const region_t g_regions[] = { { 0x1000, 0x1040 } };
static const char* const g_cfg = "page16/regions[1000,1040)/mtu23";
#elif BL_CFG == 1
#define BL_PAGE 64
#define BL_MTU 23
#define BL_REGIONS bb::memory_region<0x2000, 0x2100>, bb::memory_region<0x4000, 0x4080>
static const region_t g_regions[] = { { 0x2000, 0x2100 }, { 0x4000, 0x4080 } };
static const char* const g_cfg = "page64/regions[2000,2100)[4000,4080)/mtu23";
#elif BL_CFG == 2
#define BL_PAGE 1024
#define BL_MTU 128
#define BL_REGIONS bb::memory_region<0x10000, 0x10800>, bb::memory_region<0x10800, 0x10c00>, bb::memory_region<0xFFFFFFFFFFFF0000, 0xFFFFFFFFFFFF0800>
static const region_t g_regions[] = { { 0x10000, 0x10800 }, { 0x10800, 0x10c00 }, { 0xFFFFFFFFFFFF0000ull, 0xFFFFFFFFFFFF0800ull } };
static const char* const g_cfg = "page1024/regions[10000,10800)[10800,10c00)[ffffffffffff0000,ffffffffffff0800)/mtu128";
#elif BL_CFG == 3
#define BL_PAGE 16
#define BL_MTU 65
#define BL_REGIONS bb::memory_region<0x100, 0x120>, bb::memory_region<0x120, 0x130>, bb::memory_region<0x200, 0x210>
static const region_t g_regions[] = { { 0x100, 0x120 }, { 0x120, 0x130 }, { 0x200, 0x210 } };
static const char* const g_cfg = "page16/regions[100,120)[120,130)[200,210)/mtu65";
#else
// region ending one page below the top of the address space: data continuing past its end reaches the wrap
#define BL_PAGE 64
#define BL_MTU 23
#define BL_REGIONS bb::memory_region<0xFFFFFFFFFFFFFE00, 0xFFFFFFFFFFFFFFC0>
static const region_t g_regions[] = { { 0xFFFFFFFFFFFFFE00ull, 0xFFFFFFFFFFFFFFC0ull } };
static const char* const g_cfg = "page64/regions[fffffffffffffe00,ffffffffffffffc0)/mtu23";
#endif

static const std::size_t NREG = sizeof g_regions / sizeof g_regions[0];
static const u64 PAGE = BL_PAGE;
static const std::size_t ASZ = sizeof(std::uint8_t*);   // address width announced by Get Sizes

static std::string hx(u64 v) { char b[24]; std::snprintf(b, sizeof b, "%llx", static_cast<unsigned long long>(v)); return b; }

// ------------------------------------------------------------------------------------------------------------
// adler32, written twice: the mock handler owns the incremental form the bootloader calls; the model recomputes
// the whole chain from scratch over the bytes the CLIENT sent.
static std::uint32_t adler_step(const std::uint8_t* p, std::size_t n, std::uint32_t old) {
    std::uint32_t a = old & 0xffffu, b = old >> 16;
    for (std::size_t i = 0; i < n; ++i) { a = (a + p[i]) % 65521u; b = (b + a) % 65521u; }
    return (b << 16) | a;
}
static bytes addr_bytes(u64 a) { bytes r; for (std::size_t i = 0; i < ASZ; ++i) { r.push_back(static_cast<std::uint8_t>(a & 0xff)); a >>= 8; } return r; }

static std::uint32_t model_adler(const bytes& v) {           // closed form: A = 1 + sum d_i, B = n + sum (n-i) d_i
    unsigned long long A = 1, B = 0; const unsigned long long n = v.size();
    for (unsigned long long i = 0; i < n; ++i) { A += v[i]; B += (n - i) * v[i]; B %= 65521u; }
    B = (B + n) % 65521u; A %= 65521u;
    return static_cast<std::uint32_t>((B << 16) | A);
}

// ------------------------------------------------------------------------------------------------------------
struct memory {
    std::map<u64, std::uint8_t> m;
    static std::uint8_t pattern(u64 a) { return static_cast<std::uint8_t>(a * 131u + (a >> 8) * 7u + 0x5bu); }
    std::uint8_t get(u64 a) const { auto i = m.find(a); return i == m.end() ? pattern(a) : i->second; }
    void set(u64 a, std::uint8_t v) { m[a] = v; }
};

struct env;
static env* E = nullptr;

struct mock_flash {
    bb::error_codes start_flash(std::uintptr_t address, const std::uint8_t* values, std::size_t size);
    bb::error_codes run(std::uintptr_t start_addr);
    bb::error_codes reset();
    std::pair<const std::uint8_t*, std::size_t> get_version();
    void read_mem(std::uintptr_t address, std::size_t size, std::uint8_t* destination);
    std::uint32_t checksum32(std::uintptr_t start_addr, std::size_t size);
    std::uint32_t checksum32(const std::uint8_t* start_addr, std::size_t size, std::uint32_t old_crc);
    std::uint32_t checksum32(std::uintptr_t start_addr);
    bb::error_codes public_read_mem(std::uintptr_t address, std::size_t size, std::uint8_t* destination);
    std::uint32_t public_checksum32(std::uintptr_t start_addr, std::size_t size);
    void control_point_notification_call_back();
    void data_indication_call_back();
};

typedef bluetoe::server<
    bluetoe::bootloader_service< bb::page_size<BL_PAGE>, bb::handler<mock_flash>, bb::white_list<BL_REGIONS> >,
    bluetoe::no_gap_service_for_gatt_servers,
    bluetoe::shared_write_queue<512>,
    bluetoe::max_mtu_size<BL_MTU>
> server_t;
typedef server_t::channel_data_t<bluetoe::details::link_state> conn_t;

// ------------------------------------------------------------------------------------------------------------
static unsigned long long g_step = 0;
static std::set<unsigned long long> g_skip;
static std::set<std::string> g_disabled;         // op classes disabled because a step of that class crashed
static unsigned g_page_buffers = 2;

enum path_t { REQ = 0, CMD = 1, PREP = 2 };
static const char* const path_name[] = { "request", "command", "prepare_execute" };

struct episode {
    enum state_t { idle, sync, grey } st = idle;
    u64 start = 0;
    bytes stream;                   // data the client sent since Start Flash (may hold the bytes of the running write)
    std::size_t committed = 0;      // bytes the server accepted
    unsigned progress_seen = 0;
    bool flushed = false;           // Flush accepted: every byte must be in the flash
    bool open = false;              // still accepting data
    u64 off0() const { return start % PAGE; }
    unsigned blocks_for(std::size_t len) const { return len == 0 ? 1u : static_cast<unsigned>((off0() + len - 1) / PAGE + 1); }
    std::size_t block_end(unsigned k) const { return static_cast<std::size_t>((k + 1) * PAGE - off0()); }
    std::size_t complete(std::size_t len) const { const u64 t = (off0() + len) / PAGE * PAGE; return t > off0() ? static_cast<std::size_t>(t - off0()) : 0; }
};

struct env {
    std::unique_ptr<server_t> srv;
    conn_t conn;
    memory mem;
    std::uint16_t h_cp = 0, h_cp_cccd = 0, h_data = 0, h_data_cccd = 0, h_prog = 0, h_prog_cccd = 0;
    std::uint16_t mtu = 23;
    unsigned page_buffers = 2;                 // bootloader.md / Get Sizes response (read once in main)
    std::vector<std::string> hist;             // witness: every PDU in/out since the environment was created
    const char* during = "setup";              // operation class executing (attribution of handler calls)
    unsigned flash_outstanding = 0;            // start_flash calls not yet followed by end_flash
    unsigned calls_in_op = 0;                  // bit mask of handler functions called in the current operation
    episode ep;
    bool indication_unconfirmed = false;

    std::string running;                       // the operation being executed (not yet in hist)

    std::string witness() const {
        std::string s = std::string("cfg=") + g_cfg + " history:";
        for (auto& h : hist) { s += " | "; s += h; }
        if (!running.empty()) s += " | RUNNING: " + running;
        return s;
    }
};

// the witness string is only built for the violations that get printed (first two per key)
template <class F>
static void report(const std::string& key, F detail) {
    verif::monitor& M = mon("C39");
    auto it = M.viol_count.find(key);
    if (it != M.viol_count.end() && it->second >= 2) verif::violation("C39", key, "", g_step);
    else verif::violation("C39", key, detail(), g_step);
}
#define VIOL(key, detail) report((key), [&]() -> std::string { return (detail); })

static bool l2cap_cb(const bluetoe::details::notification_data& item, void* that, bluetoe::details::notification_type type) {
    env& e = *static_cast<env*>(that);
    switch (type) {
    case bluetoe::details::notification_type::notification: return e.conn.queue_notification(item.client_characteristic_configuration_index());
    case bluetoe::details::notification_type::indication:   return e.conn.queue_indication(item.client_characteristic_configuration_index());
    case bluetoe::details::notification_type::confirmation: e.conn.indication_confirmed(); return true;
    }
    return true;
}

// ------------------------------------------------------------------------------------------------------------
// (a) region predicate
static const char* region_shape(u64 addr, u64 size) {
    const u64 last = addr + size - 1;                      // size > 0
    if (last < addr) return "wraps_address_space";
    for (std::size_t i = 0; i < NREG; ++i)
        if (addr >= g_regions[i].b && last < g_regions[i].e) return nullptr;
    for (std::size_t i = 0; i < NREG; ++i) {
        if (addr >= g_regions[i].b && addr < g_regions[i].e) return "starts_inside_extends_past_region_end";
    }
    for (std::size_t i = 0; i < NREG; ++i)
        if (addr == g_regions[i].e) return "starts_at_region_end";
    for (std::size_t i = 0; i < NREG; ++i)
        if (addr < g_regions[i].b && last >= g_regions[i].b) return "starts_before_region";
    return "entirely_outside";
}

enum { F_START_FLASH = 1, F_READ_MEM = 2, F_CHECKSUM = 4, F_PUB_READ = 8, F_PUB_CRC = 16, F_RUN = 32, F_RESET = 64 };

static void on_call(const char* fn, unsigned bit, u64 addr, u64 size) {
    verif::monitor& M = mon("C39");
    env& e = *E;
    e.calls_in_op |= bit;
    M.eval();
    M.cls(std::string("call_") + fn);
    if (size == 0) { M.cls("call_zero_size"); return; }
    const char* shape = region_shape(addr, size);
    if (shape) {
        VIOL(std::string("C39:region:") + fn + ":" + shape + ":during_" + e.during,
                         std::string(fn) + "(addr=0x" + hx(addr) + ", size=" + std::to_string(size) + ") not inside one white-listed region; " + e.witness());
        M.cls("region_predicate_violated");
    } else M.cls("region_predicate_ok");
}

static const u64 ABSURD = 1u << 20;

bb::error_codes mock_flash::start_flash(std::uintptr_t address, const std::uint8_t* values, std::size_t size) {
    env& e = *E;
    on_call("start_flash", F_START_FLASH, address, size);
    if (size > ABSURD) { VIOL("C39:handler:absurd_size:start_flash", "size=" + std::to_string(size) + " " + e.witness()); return bb::error_codes::success; }
    episode& ep = e.ep;
    verif::monitor& M = mon("C39");
    if (ep.st == episode::sync) {
        // (c) the page must be: previous flash content overlaid with the client's data at start + offset
        bool ok = true; std::size_t bad = 0; std::uint8_t want = 0;
        for (std::size_t i = 0; i < size; ++i) {
            const u64 a = address + i;
            const u64 off = a - ep.start;                   // modulo 2^64
            const std::uint8_t expect = off < ep.stream.size() ? ep.stream[static_cast<std::size_t>(off)] : e.mem.get(a);
            if (values[i] != expect) { ok = false; bad = i; want = expect; break; }
        }
        M.eval();
        if (!ok) {
            VIOL("C39:flash:content_mismatch",
                "start_flash(0x" + hx(address) + ", size " + std::to_string(size) + "): byte +" + std::to_string(bad) + " is " + std::to_string(values[bad]) +
                " expected " + std::to_string(want) + " (client start 0x" + hx(ep.start) + ", stream bytes " + std::to_string(ep.stream.size()) + "); " + e.witness());
            ep.st = episode::grey;
        } else M.cls("page_flashed_checked");
        if (size != PAGE || address % PAGE != 0) M.cls("flash_call_not_page_granular");
    } else M.cls("page_flashed_unchecked");
    for (std::size_t i = 0; i < size; ++i) e.mem.set(address + i, values[i]);
    ++e.flash_outstanding;
    return bb::error_codes::success;
}

bb::error_codes mock_flash::run(std::uintptr_t a) { on_call("run", F_RUN, a, 0); return bb::error_codes::success; }
bb::error_codes mock_flash::reset() { on_call("reset", F_RESET, 0, 0); return bb::error_codes::success; }
std::pair<const std::uint8_t*, std::size_t> mock_flash::get_version() {
    static const std::uint8_t v[] = { 'v', 'e', 'r', 'i', 'f' };
    return std::pair<const std::uint8_t*, std::size_t>(v, sizeof v);
}
void mock_flash::read_mem(std::uintptr_t address, std::size_t size, std::uint8_t* destination) {
    on_call("read_mem", F_READ_MEM, address, size);
    if (size > ABSURD) { VIOL("C39:handler:absurd_size:read_mem", "size=" + std::to_string(size) + " " + E->witness()); return; }
    for (std::size_t i = 0; i < size; ++i) destination[i] = E->mem.get(address + i);
}
std::uint32_t mock_flash::checksum32(std::uintptr_t a, std::size_t size) {
    on_call("checksum32", F_CHECKSUM, a, size);
    if (size > ABSURD) return 0;
    std::uint32_t c = 1;
    for (std::size_t i = 0; i < size; ++i) { const std::uint8_t b = E->mem.get(a + i); c = adler_step(&b, 1, c); }
    return c;
}
std::uint32_t mock_flash::checksum32(const std::uint8_t* p, std::size_t size, std::uint32_t old_crc) { return adler_step(p, size, old_crc); }
std::uint32_t mock_flash::checksum32(std::uintptr_t a) { const bytes b = addr_bytes(a); return adler_step(b.data(), b.size(), 1); }
bb::error_codes mock_flash::public_read_mem(std::uintptr_t address, std::size_t size, std::uint8_t* destination) {
    on_call("public_read_mem", F_PUB_READ, address, size);
    if (size > ABSURD) { VIOL("C39:handler:absurd_size:public_read_mem", "size=" + std::to_string(size) + " " + E->witness()); return bb::error_codes::not_authorized; }
    for (std::size_t i = 0; i < size; ++i) destination[i] = E->mem.get(address + i);
    return bb::error_codes::success;
}
std::uint32_t mock_flash::public_checksum32(std::uintptr_t a, std::size_t size) {
    on_call("public_checksum32", F_PUB_CRC, a, size);
    if (size > ABSURD) return 0;
    std::uint32_t c = 1;
    for (std::size_t i = 0; i < size; ++i) { const std::uint8_t b = E->mem.get(a + i); c = adler_step(&b, 1, c); }
    return c;
}
void mock_flash::control_point_notification_call_back() { E->srv->bootloader_control_point_notification(*E->srv); }
void mock_flash::data_indication_call_back() { E->srv->bootloader_data_indication(*E->srv); }

// ------------------------------------------------------------------------------------------------------------
// transport: every buffer handed to the server is an exact-size heap block
static bool step_enabled(const std::string& crash_class) {
    ++g_step;
    verif::ctx_step(g_step);
    if (g_skip.count(g_step)) { g_disabled.insert(crash_class); mon("C39").count("steps_skipped_after_crash"); return false; }
    if (g_disabled.count(crash_class)) { mon("C39").count("steps_of_disabled_class_" + crash_class); return false; }
    return true;
}

struct io_result { bool executed; bytes rsp; };

static io_result att_in(env& e, const bytes& pdu, const std::string& crash_class, const char* prop = "C39") {
    io_result r; r.executed = false;
    verif::ctx_prop(prop);
    verif::ctx_op(crash_class.c_str(), pdu.data(), pdu.size());
    const bool run = step_enabled(crash_class);
    if (!run) { verif::ctx_prop("C39"); e.hist.push_back("(skipped) in " + verif::hex(pdu)); return r; }
    verif::exact_buffer in(pdu.data(), pdu.size());
    verif::exact_buffer out(e.mtu);
    std::size_t out_size = e.mtu;
    e.running = "in " + verif::hex(pdu);
    e.srv->l2cap_input(in.data(), pdu.size(), out.data(), out_size, e.conn);
    e.running.clear();
    verif::ctx_prop("C39");
    r.executed = true;
    if (out_size > e.mtu) { VIOL("C39:transport:response_larger_than_buffer", e.witness()); out_size = e.mtu; }
    r.rsp.assign(out.data(), out.data() + out_size);
    e.hist.push_back("in " + verif::hex(pdu) + " -> " + (r.rsp.empty() ? std::string("(none)") : verif::hex(r.rsp)));
    return r;
}

static bytes att_out(env& e) {
    verif::ctx_op("l2cap_output");
    const char* const before = e.during;
    e.during = "output_poll";
    bytes r;
    if (step_enabled("poll")) {
        verif::exact_buffer out(e.mtu);
        std::size_t out_size = e.mtu;
        e.running = "output poll";
        e.srv->l2cap_output(out.data(), out_size, e.conn);
        e.running.clear();
        if (out_size > e.mtu) { VIOL("C39:transport:output_larger_than_buffer", e.witness()); out_size = e.mtu; }
        r.assign(out.data(), out.data() + out_size);
        if (!r.empty()) e.hist.push_back("out " + verif::hex(r));
    }
    e.during = before;
    return r;
}

static bytes le16(std::uint16_t v) { return bytes{ static_cast<std::uint8_t>(v & 0xff), static_cast<std::uint8_t>(v >> 8) }; }
static void put_addr(bytes& v, u64 a) { const bytes b = addr_bytes(a); v.insert(v.end(), b.begin(), b.end()); }
static std::uint32_t rd32(const std::uint8_t* p) { return p[0] | (p[1] << 8) | (p[2] << 16) | (static_cast<std::uint32_t>(p[3]) << 24); }

// ------------------------------------------------------------------------------------------------------------
// events parsed from the output direction
struct out_events {
    std::vector<bytes> cp;        // control point notifications (value)
    std::vector<bytes> data;      // data indications (value)
    std::vector<bytes> progress;  // progress notifications (value)
};

static void check_progress(env& e, const bytes& v) {
    verif::monitor& M = mon("C39");
    episode& ep = e.ep;
    if (e.flash_outstanding) --e.flash_outstanding;
    if (ep.st != episode::sync) { M.cls("progress_unchecked"); ++ep.progress_seen; return; }
    M.eval();
    const unsigned j = ep.progress_seen++;
    if (v.size() != 7) { VIOL("C39:progress:format", "progress value " + verif::hex(v) + "; " + e.witness()); return; }
    const std::uint32_t crc = rd32(&v[0]);
    const unsigned cons = v[4] | (v[5] << 8);
    bytes chain = addr_bytes(ep.start);
    const std::size_t upto = std::min(ep.committed, ep.block_end(j));
    chain.insert(chain.end(), ep.stream.begin(), ep.stream.begin() + upto);
    const std::uint32_t want = model_adler(chain);
    if (cons != (j & 0xffffu))
        VIOL("C39:progress:consecutive_number", "progress #" + std::to_string(j) + " since Start Flash carries consecutive " + std::to_string(cons) + "; " + e.witness());
    else if (crc != want)
        VIOL("C39:progress:checksum_chain", "progress for block " + std::to_string(j) + " carries crc 0x" + hx(crc) + ", adler32(start address, " + std::to_string(upto) + " stream bytes) = 0x" + hx(want) + "; " + e.witness());
    else M.cls("progress_checked");
}

// poll once; classify
static bool poll_once(env& e, out_events& ev, bool confirm) {
    const bytes pdu = att_out(e);
    if (pdu.size() < 3) return false;
    const std::uint16_t h = pdu[1] | (pdu[2] << 8);
    const bytes v(pdu.begin() + 3, pdu.end());
    if (pdu[0] == 0x1b && h == e.h_cp) ev.cp.push_back(v);
    else if (pdu[0] == 0x1b && h == e.h_prog) { ev.progress.push_back(v); check_progress(e, v); }
    else if (pdu[0] == 0x1d && h == e.h_data) {
        ev.data.push_back(v);
        e.indication_unconfirmed = true;
        if (confirm) { e.during = "confirmation"; att_in(e, bytes{ 0x1e }, "confirm"); e.indication_unconfirmed = false; }
    }
    else mon("C39").cls("output_other");
    return true;
}

static void drain(env& e, out_events& ev, unsigned max = 200) {
    for (unsigned i = 0; i < max; ++i)
        if (!poll_once(e, ev, true)) return;
    mon("C39").cls("drain_limit_reached");
}

// signal the end of one page flash and collect the progress notification
static void end_one_flash(env& e, out_events& ev) {
    if (e.flash_outstanding == 0) return;
    drain(e, ev);
    verif::ctx_op("end_flash");
    e.during = "end_flash";
    if (step_enabled("end_flash")) {
        const unsigned before = e.flash_outstanding;
        bb::end_flash(*e.srv);
        e.hist.push_back("end_flash");
        drain(e, ev);
        if (e.flash_outstanding == before) {            // no progress notification appeared
            --e.flash_outstanding;
            if (e.ep.st == episode::sync) {
                VIOL("C39:progress:missing", "end_flash produced no progress notification; " + e.witness());
                e.ep.st = episode::grey;
            }
        }
    }
}

// ------------------------------------------------------------------------------------------------------------
static std::unique_ptr<env> make_env() {
    std::unique_ptr<env> p(new env);
    env& e = *p;
    E = &e;
    e.page_buffers = g_page_buffers;
    e.srv.reset(new server_t);
    e.srv->notification_callback(&l2cap_cb, &e);
    e.mtu = 23;
    e.during = "setup";
    if (BL_MTU > 23) {
        const io_result r = att_in(e, bytes{ 0x02, static_cast<std::uint8_t>(BL_MTU & 0xff), static_cast<std::uint8_t>(BL_MTU >> 8) }, "setup");
        if (r.executed && r.rsp.size() == 3 && r.rsp[0] == 0x03) e.mtu = std::min<std::uint16_t>(BL_MTU, r.rsp[1] | (r.rsp[2] << 8));
    }
    // discover characteristic declarations (Read By Type 0x2803) and descriptors (Find Information); once per process
    static std::uint16_t cached[6] = { 0, 0, 0, 0, 0, 0 };
    if (cached[0]) { e.h_cp = cached[0]; e.h_cp_cccd = cached[1]; e.h_data = cached[2]; e.h_data_cccd = cached[3]; e.h_prog = cached[4]; e.h_prog_cccd = cached[5]; }
    std::uint16_t from = cached[0] ? 0 : 1;
    std::vector<std::pair<std::uint16_t, std::uint8_t>> chars;   // value handle, last uuid byte discriminator
    for (int guard = 0; guard < 16 && from != 0; ++guard) {
        bytes q{ 0x08 }; const bytes f = le16(from); q.insert(q.end(), f.begin(), f.end()); q.push_back(0xff); q.push_back(0xff); q.push_back(0x03); q.push_back(0x28);
        const io_result r = att_in(e, q, "setup");
        if (!r.executed || r.rsp.size() < 2 || r.rsp[0] != 0x09) break;
        const std::size_t len = r.rsp[1];
        std::uint16_t last = from;
        for (std::size_t pos = 2; pos + len <= r.rsp.size() && len >= 7; pos += len) {
            const std::uint16_t decl = r.rsp[pos] | (r.rsp[pos + 1] << 8);
            const std::uint16_t vh = r.rsp[pos + 3] | (r.rsp[pos + 4] << 8);
            chars.push_back(std::make_pair(vh, r.rsp[pos + 5]));      // uuid little endian: first byte = ...A9/AA/AB
            last = decl;
        }
        from = static_cast<std::uint16_t>(last + 1);
    }
    for (auto& c : chars) {
        if (c.second == 0xA9) e.h_cp = c.first; else if (c.second == 0xAA) e.h_data = c.first; else if (c.second == 0xAB) e.h_prog = c.first;
    }
    // CCCDs: the first 0x2902 descriptor after each value handle
    for (std::uint16_t h = 1; h < 40 && !cached[0]; ++h) {
        bytes q{ 0x04 }; const bytes f = le16(h); q.insert(q.end(), f.begin(), f.end()); q.insert(q.end(), f.begin(), f.end());
        const io_result r = att_in(e, q, "setup");
        if (!r.executed || r.rsp.size() < 6 || r.rsp[0] != 0x05 || r.rsp[1] != 0x01) continue;
        const std::uint16_t uuid = r.rsp[4] | (r.rsp[5] << 8);
        if (uuid != 0x2902) continue;
        if (h > e.h_prog && e.h_prog && !e.h_prog_cccd) e.h_prog_cccd = h;
        else if (h > e.h_data && e.h_data && h < e.h_prog && !e.h_data_cccd) e.h_data_cccd = h;
        else if (h > e.h_cp && e.h_cp && h < e.h_data && !e.h_cp_cccd) e.h_cp_cccd = h;
    }
    if (!e.h_cp || !e.h_data || !e.h_prog || !e.h_cp_cccd || !e.h_data_cccd || !e.h_prog_cccd) {
        std::printf("{\"t\":\"note\",\"msg\":\"discovery failed cp=%u data=%u prog=%u cccd=%u/%u/%u\"}\n", e.h_cp, e.h_data, e.h_prog, e.h_cp_cccd, e.h_data_cccd, e.h_prog_cccd);
        std::exit(3);
    }
    cached[0] = e.h_cp; cached[1] = e.h_cp_cccd; cached[2] = e.h_data; cached[3] = e.h_data_cccd; cached[4] = e.h_prog; cached[5] = e.h_prog_cccd;
    // subscribe: control point notify, data indicate, progress notify
    auto sub = [&](std::uint16_t h, std::uint8_t v) { bytes q{ 0x12 }; const bytes f = le16(h); q.insert(q.end(), f.begin(), f.end()); q.push_back(v); q.push_back(0); att_in(e, q, "setup"); };
    sub(e.h_cp_cccd, 1); sub(e.h_data_cccd, 2); sub(e.h_prog_cccd, 1);
    e.hist.clear();                                           // the witness starts after the (constant) setup
    e.hist.push_back("[handles cp=" + std::to_string(e.h_cp) + " data=" + std::to_string(e.h_data) + " progress=" + std::to_string(e.h_prog) + ", all CCCDs subscribed, mtu " + std::to_string(e.mtu) + "]");
    return p;
}

// ------------------------------------------------------------------------------------------------------------
// writes
struct write_outcome {
    bool executed = false;
    bool responded = false;        // a response PDU was produced
    bool accepted = false;         // Write Response / Execute Write Response
    std::uint8_t error = 0;        // ATT error code if refused
};

static write_outcome do_write(env& e, std::uint16_t handle, const bytes& value, path_t path, const std::string& crash_class, bool cp) {
    write_outcome o;
    verif::monitor& M = mon("C39");
    if (path == PREP && value.size() + 5 > e.mtu) path = REQ;      // a Prepare Write PDU must fit the MTU
    M.cls(std::string("path_") + path_name[path]);
    const bytes hb = le16(handle);
    if (path == REQ || path == CMD) {
        bytes pdu{ static_cast<std::uint8_t>(path == REQ ? 0x12 : 0x52) };
        pdu.insert(pdu.end(), hb.begin(), hb.end()); pdu.insert(pdu.end(), value.begin(), value.end());
        const io_result r = att_in(e, pdu, crash_class);
        o.executed = r.executed;
        if (!r.executed) return o;
        if (path == CMD) { if (!r.rsp.empty()) VIOL("C39:transport:response_to_write_command", e.witness()); return o; }
        o.responded = !r.rsp.empty();
        if (r.rsp.size() == 1 && r.rsp[0] == 0x13) o.accepted = true;
        else if (r.rsp.size() == 5 && r.rsp[0] == 0x01) o.error = r.rsp[4];
        return o;
    }
    // Prepare Write (offset 0) + Execute Write.  The permission probe of Prepare Write on the unchanged tree
    // dereferences a null client configuration for control points (a defect of the ATT layer, property C01/C07):
    // the step runs under that property's context and its class is disabled once it crashed.
    bytes pdu{ 0x16 };
    pdu.insert(pdu.end(), hb.begin(), hb.end()); pdu.push_back(0); pdu.push_back(0); pdu.insert(pdu.end(), value.begin(), value.end());
    const std::string cls = cp ? std::string("prepare_control_point") : std::string("prepare_data");
    const io_result r = att_in(e, pdu, cls, cp ? "C01" : "C39");
    // the execute step is always numbered so that step numbers do not depend on the outcome
    const bool prepared = r.executed && !r.rsp.empty() && r.rsp[0] == 0x17;
    if (r.executed && !prepared) {
        o.executed = true; o.responded = !r.rsp.empty();
        if (r.rsp.size() == 5 && r.rsp[0] == 0x01) o.error = r.rsp[4];
        M.cls("prepare_refused");
        ++g_step;                                                 // keep numbering stable
        return o;
    }
    if (!r.executed) { ++g_step; return o; }
    const io_result x = att_in(e, bytes{ 0x18, 0x01 }, crash_class);
    o.executed = x.executed;
    if (!x.executed) return o;
    o.responded = !x.rsp.empty();
    if (x.rsp.size() == 1 && x.rsp[0] == 0x19) o.accepted = true;
    else if (x.rsp.size() == 5 && x.rsp[0] == 0x01) o.error = x.rsp[4];
    return o;
}

// required value length of a control point procedure (bootloader.md); 0 = unknown opcode
static std::size_t cp_required_len(unsigned opcode) {
    switch (opcode) {
    case 0: case 2: case 4: case 5: case 7: return 1;
    case 3: case 6: return 1 + ASZ;
    case 1: case 8: return 1 + 2 * ASZ;
    default: return 0;
    }
}
static std::string cp_class(const bytes& v) {
    if (v.empty()) return "cp_empty";
    const std::size_t req = cp_required_len(v[0]);
    if (req == 0) return "cp_unknown_opcode";
    return "cp_op" + std::to_string(v[0]) + (v.size() < req ? "_short" : v.size() == req ? "_exact" : "_long");
}

static const char* addr_class(u64 a) {
    for (std::size_t i = 0; i < NREG; ++i) {
        if (a == g_regions[i].b) return "addr_region_start";
        if (a == g_regions[i].e) return "addr_region_end";
        if (a + 1 == g_regions[i].b) return "addr_before_region_start";
        if (a + 1 == g_regions[i].e) return "addr_last_byte_of_region";
        if (a == g_regions[i].e + 1) return "addr_behind_region_end";
    }
    if (a == ~u64(0) || a == ~u64(0) - 1 || a == 0) return "addr_extreme";
    for (std::size_t i = 0; i < NREG; ++i) if (a > g_regions[i].b && a < g_regions[i].e) return (a % PAGE == 0) ? "addr_page_boundary_inside" : "addr_inside";
    return "addr_gap_or_outside";
}

// control point write + the model's reaction.  `do_drain`: collect all notifications afterwards.
static write_outcome cp_write(env& e, const bytes& value, path_t path, out_events& ev, bool do_drain) {
    verif::monitor& M = mon("C39");
    const std::string cls = cp_class(value);
    M.cls(cls);
    M.cls(value.size() <= 20 ? "cp_len_" + std::to_string(value.size()) : std::string("cp_len_over_20"));
    if (!value.empty()) M.cls(value[0] <= 8 ? "cp_op" + std::to_string(value[0]) : std::string("cp_op_undefined"));
    const unsigned op = value.empty() ? 0x100 : value[0];
    static const char* const during_name[] = { "cp_get_version", "cp_get_crc", "cp_get_sizes", "cp_start_flash", "cp_stop_flash", "cp_flush", "cp_start", "cp_reset", "cp_read" };
    e.during = op <= 8 ? during_name[op] : "cp_other";
    e.calls_in_op = 0;
    episode& ep = e.ep;
    const episode::state_t st_before = ep.st;
    const bool flush_in_episode = op == 5 && value.size() == 1 && ep.st == episode::sync && ep.open;

    // bootloader.md: flash mode lasts "until a new control point procedure is received".  Any control point write
    // except the episode's Flush therefore ends a conforming episode; what the server does with data, page buffers
    // and progress notifications afterwards is not specified: the model stops demanding content (grey).
    if (!flush_in_episode && ep.st == episode::sync) ep.st = episode::grey;

    write_outcome o = do_write(e, e.h_cp, value, path, cls, true);
    if (!o.executed) { if (ep.st == episode::sync) ep.st = episode::grey; return o; }

    out_events local;
    if (do_drain) drain(e, local);
    // acceptance: Write Response / Execute Write Response, or (Write Command) the procedure's notification
    bool accepted = o.accepted;
    if (path == CMD && do_drain) for (auto& n : local.cp) if (!n.empty() && n[0] == op) accepted = true;

    if (flush_in_episode) {
        M.eval();
        if (accepted) {
            ep.flushed = true; ep.open = false;
            for (std::size_t i = 0; i < ep.committed; ++i)          // every byte of the stream must now be in the flash
                if (e.mem.get(ep.start + i) != ep.stream[i]) {
                    VIOL("C39:flash:data_not_flashed:after_flush", "stream byte " + std::to_string(i) + " (address 0x" + hx(ep.start + i) + ") is not in the flash after an accepted Flush; " + e.witness());
                    ep.st = episode::grey; break;
                }
            if (do_drain && ep.st == episode::sync) {
                bool found = false;
                for (auto& n : local.cp) if (n.size() == 7 && n[0] == 5) {
                    found = true;
                    bytes chain = addr_bytes(ep.start); chain.insert(chain.end(), ep.stream.begin(), ep.stream.begin() + ep.committed);
                    const std::uint32_t want = model_adler(chain), got = rd32(&n[1]);
                    const unsigned cons = n[5] | (n[6] << 8), wcons = (ep.blocks_for(ep.committed) - 1) & 0xffffu;
                    if (got != want) VIOL("C39:flush:checksum_chain", "Flush response crc 0x" + hx(got) + " != adler32(start address, " + std::to_string(ep.committed) + " stream bytes) 0x" + hx(want) + "; " + e.witness());
                    else if (cons != wcons) verif::violation("C39", "C39:flush:consecutive_number", "Flush response consecutive " + std::to_string(cons) + " expected " + std::to_string(wcons) + "; " + e.witness(), g_step);
                    else M.cls("flush_checked");
                }
                if (!found) M.cls("flush_response_not_seen");
            }
        } else {
            // refused: legitimate when the last page holds no unflashed data
            const bool partial = ep.committed > ep.complete(ep.committed) || (ep.committed == 0 && ep.off0() != 0);
            if (partial && path == REQ)
                VIOL("C39:flush:refused_with_unflashed_data", "Flush refused (error " + std::to_string(o.error) + ") although " + std::to_string(ep.committed - ep.complete(ep.committed)) + " received bytes wait in the page buffer; " + e.witness());
            else M.cls("flush_refused_nothing_to_flush");
            ep.open = false; ep.st = episode::grey;
        }
    } else if (op == 3 && value.size() == 1 + ASZ) {
        if (accepted) {
            // a new episode: conforming only when no page flash is outstanding
            u64 a = 0; for (std::size_t i = 0; i < ASZ; ++i) a |= static_cast<u64>(value[1 + i]) << (8 * i);
            ep = episode();
            ep.start = a; ep.open = true;
            ep.st = e.flash_outstanding == 0 ? episode::sync : episode::grey;
            M.cls(ep.st == episode::sync ? "episode_sync_started" : "episode_grey_started");
            if (do_drain) {
                M.eval();
                bool found = false;
                for (auto& n : local.cp) if (n.size() == 6 && n[0] == 3) {
                    found = true;
                    const std::uint32_t want = model_adler(addr_bytes(a)), got = rd32(&n[2]);
                    if (got != want) VIOL("C39:start_flash:checksum_of_address", "Start Flash response crc 0x" + hx(got) + " != adler32(address bytes of 0x" + hx(a) + ") 0x" + hx(want) + "; " + e.witness());
                    else M.cls("start_flash_crc_checked");
                }
                if (!found) M.cls("start_flash_response_not_seen");
            }
        } else if (path == CMD && !do_drain && ep.st == episode::idle) ep.st = episode::grey;   // acceptance unknown
    } else {
        if (op == 8 && accepted) M.cls("read_procedure_started");
        if (op == 1 && accepted) M.cls("get_crc_accepted");
    }
    if (do_drain) { for (auto& x : local.cp) ev.cp.push_back(x); for (auto& x : local.data) ev.data.push_back(x); for (auto& x : local.progress) ev.progress.push_back(x); }

    std::uint64_t h = verif::hstr(g_cfg);
    h = verif::mix(h, verif::hstr(cls)); h = verif::mix(h, path); h = verif::mix(h, st_before);
    h = verif::mix(h, accepted ? 1 : (o.error ? 0x100 + o.error : 0)); h = verif::mix(h, e.calls_in_op);
    if (value.size() >= 1 + ASZ) { u64 a = 0; for (std::size_t i = 0; i < ASZ; ++i) a |= static_cast<u64>(value[1 + i]) << (8 * i); h = verif::mix(h, verif::hstr(addr_class(a))); M.cls(addr_class(a)); }
    M.nontrivial(h);
    o.accepted = accepted;
    return o;
}

// data write + model
static write_outcome data_write(env& e, const bytes& value, path_t path) {
    verif::monitor& M = mon("C39");
    episode& ep = e.ep;
    e.during = "data_write";
    e.calls_in_op = 0;
    M.cls(value.empty() ? "data_empty" : "data_write");
    const episode::state_t st_before = ep.st;
    bool tracked = ep.st == episode::sync && ep.open;
    if (tracked && !value.empty()) {
        const u64 first = ep.start + ep.committed, last = first + value.size() - 1;
        if ((ep.off0() + ep.committed) / PAGE != (ep.off0() + ep.committed + value.size() - 1) / PAGE) M.cls("data_cross_page");
        for (std::size_t i = 0; i < NREG; ++i) if (first < g_regions[i].e && last >= g_regions[i].e && first >= g_regions[i].b) M.cls("data_cross_region_end");
    }
    if (tracked) {
        // over-running the announced page buffers is a client error: unspecified afterwards
        const unsigned need = ep.blocks_for(ep.committed + value.size());
        if (need - ep.progress_seen > e.page_buffers) { M.cls("data_overrun_attempt"); ep.st = episode::grey; tracked = false; }
        // data whose page is not white-listed cannot be flashed: whether (and how much of) such a write is taken is not
        // specified, the region predicate alone judges what the server does with it
        for (std::size_t i = 0; tracked && i < value.size(); ++i) {
            const u64 page = (ep.start + ep.committed + i) / PAGE * PAGE;
            if (i != 0 && (ep.start + ep.committed + i) % PAGE != 0) continue;
            if (region_shape(page, PAGE)) { M.cls("data_runs_out_of_white_list"); ep.st = episode::grey; tracked = false; }
        }
    } else if (ep.st == episode::sync && !ep.open) { ep.st = episode::grey; M.cls("data_after_episode_end"); }
    const std::size_t before = ep.committed;
    if (tracked) {
        ep.stream.resize(before);
        ep.stream.insert(ep.stream.end(), value.begin(), value.end());
    }
    const write_outcome o = do_write(e, e.h_data, value, path, "data_write", false);
    if (tracked) {
        const bool accepted = o.executed && (path == CMD ? true : o.accepted);
        if (!o.executed) { ep.stream.resize(before); ep.st = episode::grey; }
        else if (!accepted) {
            // the server refused data the protocol says it would take: nothing can be demanded about the rest
            ep.stream.resize(before); ep.st = episode::grey;
            M.cls("data_refused_in_conforming_episode");
        } else {
            ep.committed = ep.stream.size();
            M.eval();
            // every page completed by this write must be in the flash now
            const std::size_t must = ep.complete(ep.committed);
            bool ok = true;
            for (std::size_t i = ep.complete(before); i < must; ++i)
                if (e.mem.get(ep.start + i) != ep.stream[i]) {
                    VIOL("C39:flash:data_not_flashed:page_complete", "stream byte " + std::to_string(i) + " (address 0x" + hx(ep.start + i) + ") of a completed page is not in the flash; " + e.witness());
                    ep.st = episode::grey; ok = false; break;
                }
            if (ok && must > ep.complete(before)) M.cls("page_complete_checked");
        }
    }
    std::uint64_t h = verif::hstr(g_cfg);
    h = verif::mix(h, 0xda7a); h = verif::mix(h, path); h = verif::mix(h, st_before); h = verif::mix(h, value.size() == 0 ? 0 : value.size() < PAGE ? 1 : 2);
    h = verif::mix(h, o.accepted ? 1 : 0x100 + o.error); h = verif::mix(h, e.calls_in_op);
    h = verif::mix(h, tracked ? (ep.off0() + before) % PAGE == 0 : 7); h = verif::mix(h, e.flash_outstanding);
    M.nontrivial(h);
    return o;
}

// ------------------------------------------------------------------------------------------------------------
// generators
static std::vector<u64> g_addr_pool;
static void build_addr_pool() {
    std::vector<u64>& p = g_addr_pool;
    for (std::size_t i = 0; i < NREG; ++i) {
        const u64 b = g_regions[i].b, e = g_regions[i].e;
        const u64 v[] = { b, b - 1, b + 1, e, e - 1, e + 1, e - PAGE, e - PAGE - 1, e - PAGE + 1, b + PAGE, b + PAGE - 1, b + PAGE + 1, e - 3, b + 5, (b + e) / 2, e + PAGE, e + PAGE / 2, b - PAGE };
        p.insert(p.end(), v, v + sizeof v / sizeof v[0]);
    }
    if (NREG > 1) p.push_back((g_regions[0].e + g_regions[1].b) / 2);
    const u64 x[] = { 0, 1, ~u64(0), ~u64(0) - 1, ~u64(0) - PAGE + 1, u64(1) << 63, u64(1) << 32, 0xffffffffu };
    p.insert(p.end(), x, x + sizeof x / sizeof x[0]);
}
static u64 pick_addr(verif::prng& r) {
    const unsigned k = r.below(10);
    if (k < 6) return g_addr_pool[r.below(static_cast<std::uint32_t>(g_addr_pool.size()))];
    if (k < 9) { const region_t& g = g_regions[r.below(NREG)]; return g.b + r.below(static_cast<std::uint32_t>(g.e - g.b)); }
    return r.next();
}
static u64 pick_inside(verif::prng& r, bool near_end) {
    const region_t& g = g_regions[r.below(NREG)];
    const u64 span = g.e - g.b;
    if (near_end) return g.e - 1 - r.below(static_cast<std::uint32_t>(std::min<u64>(span, 2 * PAGE)));
    switch (r.below(4)) {
    case 0: return g.b;
    case 1: return g.b + PAGE * r.below(static_cast<std::uint32_t>(span / PAGE));
    default: return g.b + r.below(static_cast<std::uint32_t>(span));
    }
}

// a control point value of `len` bytes: opcode, two addresses, then random bytes; truncated to len
static bytes cp_value(unsigned opcode, std::size_t len, u64 a1, u64 a2, verif::prng& r) {
    bytes v; v.push_back(static_cast<std::uint8_t>(opcode)); put_addr(v, a1); put_addr(v, a2);
    while (v.size() < len) v.push_back(r.byte());
    v.resize(len);
    return v;
}
static bytes rnd_bytes(verif::prng& r, std::size_t n) { bytes v(n); for (auto& b : v) b = r.byte(); return v; }

static path_t pick_path(verif::prng& r) { const unsigned k = r.below(10); return k < 5 ? REQ : k < 8 ? CMD : PREP; }

static void finish_flashes(env& e, out_events& ev) { for (int i = 0; i < 8 && e.flash_outstanding; ++i) end_one_flash(e, ev); }

// a protocol-conforming client: Start Flash at `a`, `total` bytes in chunks, Flush, wait for the progress
// notifications, then Get CRC and (sometimes) Read back.  `hostile` (0..100): probability in % per chunk of an
// interleaved abuse (the model then stops demanding content, the region predicate stays).
static void client_episode(env& e, verif::prng& r, u64 a, std::size_t total, unsigned hostile, bool readback) {
    verif::monitor& M = mon("C39");
    out_events ev;
    finish_flashes(e, ev);
    drain(e, ev);
    bytes v{ 3 }; put_addr(v, a);
    const write_outcome s = cp_write(e, v, r.chance(1, 4) ? CMD : REQ, ev, true);
    if (!s.accepted) { M.cls("episode_start_refused"); return; }
    std::size_t sent = 0;
    const std::size_t maxchunk = e.mtu - 3;
    while (sent < total) {
        std::size_t n = 1 + r.below(static_cast<std::uint32_t>(maxchunk));
        if (r.chance(1, 3)) n = maxchunk;
        n = std::min(n, total - sent);
        path_t p = pick_path(r);
        if (p == PREP && n + 5 > e.mtu) n = e.mtu - 5;
        // keep within the announced buffers: signal finished flashes when the next chunk needs a page buffer
        episode& ep = e.ep;
        if (ep.st == episode::sync && ep.open) {
            while (e.flash_outstanding && ep.blocks_for(ep.committed + n) - ep.progress_seen > e.page_buffers) end_one_flash(e, ev);
            if (ep.blocks_for(ep.committed + n) - ep.progress_seen > e.page_buffers) {
                // a single chunk spanning more pages than there are buffers: shrink it
                while (n > 1 && ep.blocks_for(ep.committed + n) - ep.progress_seen > e.page_buffers) --n;
            }
        }
        if (r.chance(1, 4) && e.flash_outstanding) end_one_flash(e, ev);
        if (hostile && r.below(100) < hostile) {
            switch (r.below(5)) {
            case 0: cp_write(e, cp_value(r.below(11), r.below(21), pick_addr(r), pick_addr(r), r), pick_path(r), ev, r.chance(1, 2)); break;
            case 1: data_write(e, rnd_bytes(r, r.below(static_cast<std::uint32_t>(maxchunk + 1))), pick_path(r)); break;
            case 2: { out_events x; poll_once(e, x, r.chance(1, 2)); } break;
            case 3: { const region_t& g = g_regions[r.below(NREG)]; bytes q{ 8 }; put_addr(q, g.b + r.below(8)); put_addr(q, g.b + 8 + r.below(40)); cp_write(e, q, REQ, ev, false); } break;
            default: { const region_t& g = g_regions[r.below(NREG)]; bytes q{ 1 }; put_addr(q, g.e - 1 - r.below(4)); put_addr(q, g.e); cp_write(e, q, REQ, ev, r.chance(1, 2)); } break;
            }
        }
        const write_outcome o = data_write(e, rnd_bytes(r, n), p);
        sent += n;
        if (o.executed && !o.accepted && p != CMD && e.ep.st != episode::sync) break;    // refused: a client would stop here
    }
    // Flush (needed when the last page is partial; harmless protocol-wise otherwise)
    { bytes f{ 5 }; cp_write(e, f, r.chance(1, 5) ? CMD : REQ, ev, true); }
    finish_flashes(e, ev);
    if (e.ep.st == episode::sync) M.cls("episode_conforming_completed");
    if (readback) {
        // Get CRC and Read over a white-listed range around the start address
        for (std::size_t i = 0; i < NREG; ++i) if (a >= g_regions[i].b && a < g_regions[i].e) {
            const u64 end = std::min<u64>(g_regions[i].e, a + total);
            bytes q{ 1 }; put_addr(q, a); put_addr(q, end); cp_write(e, q, REQ, ev, true);
            bytes rd{ 8 }; put_addr(rd, a); put_addr(rd, std::min<u64>(end, a + 3 * (e.mtu - 3) + 1));
            out_events x; const write_outcome ro = cp_write(e, rd, REQ, x, true);
            if (ro.accepted) { M.cls("read_procedure_completed"); M.count("read_data_indications", x.data.size()); }
            break;
        }
    }
}

// ------------------------------------------------------------------------------------------------------------
// phase 1: systematic sweep: every opcode x every length x path, in two server states
static void sweep(verif::prng& r, unsigned rounds) {
    static const unsigned opcodes[] = { 0, 1, 2, 3, 4, 5, 6, 7, 8, 9, 10, 0xff };
    for (unsigned round = 0; round < rounds; ++round)
    for (unsigned prefix = 0; prefix < 3; ++prefix)
    for (unsigned oi = 0; oi < sizeof opcodes / sizeof opcodes[0]; ++oi)
    for (std::size_t len = 0; len <= 20; ++len)
    for (unsigned p = 0; p < 3; ++p) {
        if (p == PREP && (len + 5 > 23)) continue;
        std::unique_ptr<env> ep = make_env(); env& e = *ep;
        out_events ev;
        const u64 inside = pick_inside(r, r.chance(1, 2));
        if (prefix >= 1) {                      // in flash mode, page buffer partly filled
            bytes v{ 3 }; put_addr(v, inside); cp_write(e, v, REQ, ev, true);
            data_write(e, rnd_bytes(r, 1 + r.below(7)), REQ);
        }
        if (prefix == 2) {                      // a read procedure is running
            const region_t& g = g_regions[r.below(NREG)];
            bytes q{ 8 }; put_addr(q, g.b + r.below(4)); put_addr(q, g.b + 4 + r.below(static_cast<std::uint32_t>(g.e - g.b - 4)));
            cp_write(e, q, REQ, ev, false);
        }
        const u64 a1 = pick_addr(r), a2 = r.chance(1, 2) ? a1 + r.below(3 * BL_PAGE) : pick_addr(r);
        cp_write(e, cp_value(opcodes[oi], len, a1, a2, r), static_cast<path_t>(p), ev, r.chance(3, 4));
        // what the server does with data afterwards: continue across page and region ends
        const std::size_t n = 1 + r.below(3);
        for (std::size_t i = 0; i < n; ++i) {
            data_write(e, rnd_bytes(r, 1 + r.below(e.mtu - 3)), pick_path(r));
            if (r.chance(1, 2)) { out_events x; drain(e, x, 6); }
            if (r.chance(1, 3)) end_one_flash(e, ev);
        }
        { bytes f{ 5 }; cp_write(e, f, REQ, ev, true); }
        { out_events x; drain(e, x, 6); }
        finish_flashes(e, ev);
        mon("C39").count("sweep_cases");
    }
}

// phase 2: address sweep for the procedures that take addresses (exact lengths), then data across the ends
static void address_sweep(verif::prng& r) {
    for (unsigned op : { 1u, 3u, 6u, 8u })
    for (std::size_t i = 0; i < g_addr_pool.size(); ++i)
    for (unsigned variant = 0; variant < 3; ++variant) {
        std::unique_ptr<env> ep = make_env(); env& e = *ep;
        out_events ev;
        const u64 a1 = g_addr_pool[i];
        const u64 a2 = variant == 0 ? a1 + 1 + r.below(2 * BL_PAGE) : variant == 1 ? g_addr_pool[r.below(static_cast<std::uint32_t>(g_addr_pool.size()))] : a1;
        const write_outcome o = cp_write(e, cp_value(op, cp_required_len(op), a1, a2, r), variant == 2 ? CMD : REQ, ev, true);
        if (op == 3 && o.accepted) {
            // data up to and across the next page / region end, then Flush
            std::size_t total = PAGE + 1 + r.below(static_cast<std::uint32_t>(PAGE));
            while (total) {
                const std::size_t n = std::min<std::size_t>(total, 1 + r.below(e.mtu - 3));
                data_write(e, rnd_bytes(r, n), variant == 1 ? CMD : REQ);
                total -= n;
                if (e.flash_outstanding > 1) end_one_flash(e, ev);
            }
            bytes f{ 5 }; cp_write(e, f, REQ, ev, true);
            finish_flashes(e, ev);
        }
        mon("C39").count("address_sweep_cases");
    }
}

// phase 3: conforming episodes at chosen places + random long histories
static void episodes(verif::prng& r, unsigned long long ops) {
    unsigned long long done = 0;
    while (done < ops) {
        std::unique_ptr<env> ep = make_env(); env& e = *ep;
        const unsigned n = 1 + r.below(4);
        for (unsigned k = 0; k < n; ++k) {
            const bool near_end = r.chance(1, 3);
            const u64 a = r.chance(1, 8) ? pick_addr(r) : pick_inside(r, near_end);
            std::size_t total;
            switch (r.below(5)) {
            case 0: total = 1 + r.below(static_cast<std::uint32_t>(PAGE)); break;
            case 1: total = PAGE - a % PAGE; break;                            // exactly to the page end
            case 2: total = PAGE - a % PAGE + 1 + r.below(static_cast<std::uint32_t>(PAGE)); break;
            case 3: total = 2 * PAGE + r.below(static_cast<std::uint32_t>(2 * PAGE)); break;
            default: total = 1 + r.below(5); break;
            }
            const unsigned hostile = r.chance(1, 3) ? 5 + r.below(30) : 0;
            const unsigned long long s0 = g_step;
            client_episode(e, r, a, total, hostile, r.chance(1, 3));
            done += g_step - s0;
            if (e.hist.size() > 400) break;
        }
        mon("C39").count("environments");
    }
}

int main(int argc, char** argv) {
    verif::args a(argc, argv);
    verif::install_crash_handler();
    verif::ctx_prop("C39");
    verif::ctx_config(g_cfg);
    verif::run_config() = g_cfg;
    verif::prng r(a.num("seed", 1) * 977 + BL_CFG);
    {
        const std::string s = a.str("skip");
        std::size_t pos = 0;
        while (pos < s.size()) { g_skip.insert(std::strtoull(s.c_str() + pos, nullptr, 10)); pos = s.find(',', pos); if (pos == std::string::npos) break; ++pos; }
    }
    build_addr_pool();
    static unsigned announced_buffers = 0;
    {   // the number of page buffers a client may fill is what the server announces with Get Sizes
        std::unique_ptr<env> ep = make_env(); out_events ev;
        cp_write(*ep, bytes{ 2 }, REQ, ev, true);
        for (auto& n : ev.cp) if (n.size() == 10 && n[0] == 2) announced_buffers = rd32(&n[6]);
        if (announced_buffers == 0 || announced_buffers > 16) announced_buffers = 2;
        mon("C39").count("announced_page_buffers", announced_buffers);
    }
    g_page_buffers = announced_buffers;
    const std::string phases = a.str("phases", "sweep,addr,episodes");
    if (phases.find("sweep") != std::string::npos) sweep(r, static_cast<unsigned>(a.num("rounds", 1)));
    if (phases.find("addr") != std::string::npos) address_sweep(r);
    if (phases.find("episodes") != std::string::npos) episodes(r, a.num("ops", 20000));
    verif::monitor& M = mon("C39");
    M.exhaustive = false;
    M.count("steps", g_step);
    for (auto& d : g_disabled) M.count("disabled_class_" + d);
    M.sample_json(std::string("{\"config\":\"") + g_cfg + "\",\"address_pool\":" + std::to_string(g_addr_pool.size()) + ",\"phases\":\"" + phases + "\"}");
    E = nullptr;
    verif::finish();
    return 0;
}
