// Shared by the C12 (sequential) and C13 (interleaving) harnesses: the priority partition layout and the
// abstract "set of pending (characteristic, kind) requests" that the notification queue is specified to be.
// Written from the property statement and the Bluetoe documentation (notification_queue.hpp class comment,
// outgoing_priority.hpp: "starting with the number of characteristics with prio 0 (highest)"), not from the
// bit array implementation.
#ifndef VERIF_CONC_QUEUE_MODEL_HPP
#define VERIF_CONC_QUEUE_MODEL_HPP

#include <cstdint>
#include <string>
#include <tuple>
#include <type_traits>
#include <vector>
#include <utility>

#include <bluetoe/notification_queue.hpp>

namespace conc {

static const int MAXC = 20;                 // max characteristics in one queue
enum { NOTIF = 0, IND = 1 };

struct layout {
    int nlevels;
    int size[8];
    int first[8];
    int total;
    int level_of[MAXC];
    std::string name;

    layout() : nlevels(0), total(0) {}
    void add(int n) {
        size[nlevels] = n; first[nlevels] = total;
        for (int i = 0; i < n; ++i) level_of[total + i] = nlevels;
        total += n; ++nlevels;
    }
    void finish() {
        name = "<";
        for (int l = 0; l < nlevels; ++l) { if (l) name += ","; name += std::to_string(size[l]); }
        name += ">";
    }
    bool single(int idx) const { return size[level_of[idx]] == 1; }
};

// entry id = idx * 2 + kind
inline int eid(int idx, int kind) { return idx * 2 + kind; }
inline int eidx(int id) { return id >> 1; }
inline int ekind(int id) { return id & 1; }
inline std::string ename(int id) { return std::string(ekind(id) == IND ? "ind" : "ntf") + std::to_string(eidx(id)); }

struct empty_mixin {};

template <int... Ns>
struct partition {
    typedef bluetoe::notification_queue<std::tuple<std::integral_constant<int, Ns>...>, empty_mixin> queue;
    static layout make() {
        layout l; const int s[] = { Ns... };
        for (unsigned i = 0; i < sizeof...(Ns); ++i) l.add(s[i]);
        l.finish();
        return l;
    }
};

// result of a dequeue in abstract terms: -1 = empty, otherwise entry id
template <class Q>
inline int do_dequeue(Q& q) {
    const std::pair<bluetoe::details::notification_queue_entry_type, std::size_t> r = q.dequeue_indication_or_confirmation();
    if (r.first == bluetoe::details::notification_queue_entry_type::empty) return -1;
    if (r.first == bluetoe::details::notification_queue_entry_type::notification) return eid(static_cast<int>(r.second), NOTIF);
    if (r.first == bluetoe::details::notification_queue_entry_type::indication) return eid(static_cast<int>(r.second), IND);
    return -2 - static_cast<int>(r.first);   // not one of the three documented values
}

template <class Q>
inline bool do_queue(Q& q, int id) {
    return ekind(id) == IND ? q.queue_indication(static_cast<std::size_t>(eidx(id))) : q.queue_notification(static_cast<std::size_t>(eidx(id)));
}

// the pending set
struct pending_set {
    std::uint64_t pend;
    bool outstanding;          // an indication was dequeued and not yet confirmed
    pending_set() : pend(0), outstanding(false) {}
    bool has(int id) const { return (pend >> id) & 1; }
    void add(int id) { pend |= std::uint64_t(1) << id; }
    void del(int id) { pend &= ~(std::uint64_t(1) << id); }
    bool eligible(int id) const { return ekind(id) == NOTIF || !outstanding; }
    // highest priority (= lowest level number) that has an eligible pending entry, -1 if none
    int best_level(const layout& L) const {
        int best = -1;
        for (int id = 0; id < 2 * L.total; ++id)
            if (has(id) && eligible(id)) { const int l = L.level_of[eidx(id)]; if (best < 0 || l < best) best = l; }
        return best;
    }
    int count() const { return __builtin_popcountll(pend); }
    std::string str() const {
        std::string s = "{";
        for (int id = 0; id < 64; ++id) if (has(id)) { if (s.size() > 1) s += " "; s += ename(id); }
        s += outstanding ? "}+unconfirmed" : "}";
        return s;
    }
};

} // namespace conc

#endif
