// Free-running stress with real parallelism under ThreadSanitizer on the UNHOOKED types (build without
// BLUETOE_VERIF_HOOKS):
//   --what=queue  C13: a producer thread calls queue_notification/queue_indication while a consumer thread dequeues;
//                 every request that returned true must be dequeued exactly once (counted per entry, the queue is
//                 drained at the end); TSan data race reports whose address lies inside the queue object are
//                 counted as supporting evidence (they are the non-atomic read-modify-write).
//   --what=ring   C30: a producer pushes 1..N, a consumer pops; order, completeness and integrity of 3-word elements
//                 are checked; a TSan report on the ring object (missing happens-before between the data_ copy and
//                 the pointer publication) is a violation.
// TSan reports are intercepted through __tsan_on_report and classified by address, so the harness itself prints
// them as JSON lines (the driver does not parse stderr of a run that ends normally).
#include <bluetoe/notification_queue.hpp>
#include <bluetoe/ring.hpp>
#include "common/verif.hpp"
#include "conc/queue_model.hpp"

#include <atomic>
#include <thread>

using namespace conc;
using verif::mon;

extern "C" {
int __tsan_get_report_data(void* report, const char** description, int* count, int* stack_count, int* mop_count, int* loc_count,
                           int* mutex_count, int* thread_count, int* unique_tid_count, void** sleep_trace, unsigned long trace_size);
int __tsan_get_report_mop(void* report, unsigned long idx, int* tid, void** addr, int* size, int* write, int* atomic, void** trace, unsigned long trace_size);
}

struct region { const char* name; const char* begin; const char* end; };
static region g_regions[4];
static int g_nregions = 0;
static std::atomic<int> g_reports[5];
static char g_first_report[5][160];

extern "C" void __tsan_on_report(void* rep) {
    const char* desc = ""; int count = 0, sc = 0, mc = 0, lc = 0, muc = 0, tc = 0, utc = 0; void* sleep[2];
    __tsan_get_report_data(rep, &desc, &count, &sc, &mc, &lc, &muc, &tc, &utc, sleep, 2);
    int cls = 4, size = 0, write = 0;
    if (mc > 0) {
        int tid = 0, atomic = 0; void* addr = nullptr; void* tr[2];
        __tsan_get_report_mop(rep, 0, &tid, &addr, &size, &write, &atomic, tr, 2);
        for (int i = 0; i < g_nregions; ++i) if (static_cast<const char*>(addr) >= g_regions[i].begin && static_cast<const char*>(addr) < g_regions[i].end) { cls = i; break; }
    }
    if (g_reports[cls].fetch_add(1) == 0)
        std::snprintf(g_first_report[cls], sizeof g_first_report[cls], "%s on %s, first access %s of %d byte(s), %d memory operations in the report", desc,
                      cls < g_nregions ? g_regions[cls].name : "memory outside the object under test", write ? "write" : "read", size, mc);
}

static void add_region(const char* name, const void* b, std::size_t n) {
    g_regions[g_nregions].name = name; g_regions[g_nregions].begin = static_cast<const char*>(b); g_regions[g_nregions].end = static_cast<const char*>(b) + n; ++g_nregions;
}

// ---------------------------------------------------------------------------------------------- queue (C13)
template <class P>
static void queue_stress(unsigned long long ops, std::uint64_t seed) {
    typedef typename P::queue Q;
    const layout L = P::make();
    const int E = 2 * L.total;
    verif::monitor& M = mon("C13");
    verif::ctx_config("C13 tsan stress " + L.name);
    static Q q;
    q = Q();
    g_nregions = 0; add_region("the notification_queue object", &q, sizeof q);
    for (int i = 0; i < 5; ++i) g_reports[i] = 0;
    std::vector<unsigned long long> trues(E, 0), takes(E, 0);
    std::atomic<int> ready(0); std::atomic<bool> done(false);
    std::thread prod([&] {
        verif::prng r(seed);
        ready.fetch_add(1); while (ready.load() < 2) {}
        for (unsigned long long i = 0; i < ops; ++i) {
            const int e = static_cast<int>(r.below(static_cast<std::uint32_t>(E))); if (do_queue(q, e)) ++trues[e];
            if ((i & 15) == 15) std::this_thread::yield();     // the machine is shared: give the consumer a chance to overlap
        }
        done.store(true);
    });
    std::thread cons([&] {
        ready.fetch_add(1); while (ready.load() < 2) {}
        while (!done.load()) {
            const int d = do_dequeue(q);
            if (d >= 0 && d < E) { ++takes[d]; if (ekind(d) == IND) q.indication_confirmed(); }
        }
    });
    prod.join(); cons.join();
    for (int i = 0; i < 2 * E + 8; ++i) { q.indication_confirmed(); const int d = do_dequeue(q); if (d < 0) break; if (d < E) ++takes[d]; }
    unsigned long long lost = 0, dup = 0, total = 0;
    std::string per;
    for (int e = 0; e < E; ++e) {
        total += trues[e];
        if (takes[e] < trues[e]) lost += trues[e] - takes[e];
        if (takes[e] > trues[e]) dup += takes[e] - trues[e];
        per += ename(e) + ":" + std::to_string(trues[e]) + "/" + std::to_string(takes[e]) + " ";
    }
    M.eval(E);
    const std::string detail = "partition " + L.name + ", free running producer (" + std::to_string(ops) + " queue operations on random entries) against a consumer dequeuing and confirming, then drained; " +
                               "per entry accepted(true)/dequeued: " + per;
    if (lost) verif::violation("C13", "C13:lost:parallel_stress", detail + "| " + std::to_string(lost) + " accepted requests never dequeued", 0);
    if (dup) verif::violation("C13", "C13:dup:parallel_stress", detail + "| " + std::to_string(dup) + " dequeues without request", 0);
    M.count("stress_queue_operations", ops);
    M.count("stress_requests_accepted", total);
    M.count("stress_requests_lost", lost);
    M.count("stress_dequeues_without_request", dup);
    M.count("tsan_reports_on_queue_object", g_reports[0]);
    M.count("tsan_reports_elsewhere", g_reports[4]);
    M.cls("parallel_stress");
    if (g_reports[0]) { M.cls("tsan_data_race_on_queue_bytes"); M.sample(std::string("TSan (") + L.name + "): " + g_first_report[0], 8); }
    if (g_reports[4]) M.sample(std::string("TSan outside the object: ") + g_first_report[4], 8);
    M.nontrivial(verif::mix(verif::hstr(L.name), (lost ? 1 : 0) + (dup ? 2 : 0) + (g_reports[0] ? 4 : 0)));
    M.nontrivial(verif::mix(verif::hstr(L.name + "#"), total / 1000));
}

// ---------------------------------------------------------------------------------------------- ring (C30)
struct elem { std::uint32_t a, b, c; };

template <std::size_t S>
static void ring_stress(unsigned long long n) {
    typedef bluetoe::details::ring<S, elem> ring_t;
    verif::monitor& M = mon("C30");
    verif::ctx_config("C30 tsan stress ring<" + std::to_string(S) + ">");
    static ring_t r;
    g_nregions = 0;
    add_region("ring read/write pointers", &r, 8);
    add_region("ring data_", reinterpret_cast<const char*>(&r) + 8, sizeof r - 8);
    for (int i = 0; i < 5; ++i) g_reports[i] = 0;
    // drain what a previous call left (static object)
    { elem e; while (r.try_pop(e)) {} }
    std::atomic<int> ready(0);
    // progress witnesses (logical, no clock).  The consumer publishes "the ring was empty after P pushes had completed",
    // the producer publishes "the ring was full after C pops had completed".  A push that fails although the ring was
    // seen empty and nothing was pushed since (or a pop that fails although the ring was seen full and nothing was
    // popped since) violates the property and would spin forever.
    const unsigned long long none = ~0ull;
    std::atomic<unsigned long long> pushes_done(0), pops_done(0), empty_after_pushes(none), full_after_pops(none);
    std::atomic<bool> producer_done(false);
    std::atomic<int> stuck(0);      // 1 = push fails below capacity, 2 = pop fails although an element is pending
    unsigned long long full = 0, empty = 0, torn = 0, order = 0; std::uint32_t first_bad = 0, first_expected = 0, next_expected = 1;
    std::thread prod([&] {
        ready.fetch_add(1); while (ready.load() < 2) {}
        for (std::uint32_t v = 1; v <= n && !stuck.load(); ++v) {
            elem e = { v, ~v, v * 2654435761u };
            for (;;) {
                const bool known_empty = empty_after_pushes.load() == pushes_done.load();
                const unsigned long long pops_before = pops_done.load();
                if (r.try_push(e)) break;
                ++full;
                if (known_empty) { stuck.store(1); return; }
                if (stuck.load()) return;
                full_after_pops.store(pops_before);
                std::this_thread::yield();
            }
            pushes_done.fetch_add(1);
        }
        producer_done.store(true);
    });
    std::thread cons([&] {
        ready.fetch_add(1); while (ready.load() < 2) {}
        std::uint32_t& expect = next_expected;
        while (expect <= n && !stuck.load()) {
            elem e;
            bool got = false;
            for (;;) {
                // all pushes have returned and fewer pops succeeded: an element is pending for sure
                const bool known_full = full_after_pops.load() == pops_done.load() || (producer_done.load() && pops_done.load() < pushes_done.load());
                const unsigned long long pushes_before = pushes_done.load();
                const bool all_pushed = producer_done.load();
                if ((got = r.try_pop(e))) break;
                ++empty;
                if (known_full) { stuck.store(2); break; }
                if (all_pushed) break;          // nothing will ever be pushed again: whatever is missing now is lost
                if (stuck.load()) break;
                empty_after_pushes.store(pushes_before);
                std::this_thread::yield();
            }
            if (!got) break;
            if (pops_done.fetch_add(1) + 1 > n) { stuck.store(3); break; }      // more successful pops than elements exist
            if (e.b != ~e.a || e.c != e.a * 2654435761u) ++torn;
            if (e.a != expect) { if (!order) { first_bad = e.a; first_expected = expect; } ++order; }
            expect = e.a + 1;
        }
    });
    prod.join(); cons.join();
    M.eval(n);
    const std::string cfg = "ring<" + std::to_string(S) + ", 3-word struct>, " + std::to_string(n) + " elements pushed by one thread and popped by another (free running)";
    if (stuck.load() == 1) verif::violation("C30", "C30:push_failed_below_capacity:parallel_stress", cfg + ": a push failed although the consumer had found the ring empty and nothing was pushed since", 0);
    if (stuck.load() == 2) verif::violation("C30", "C30:pop_failed_although_element_pending:parallel_stress", cfg + ": a pop failed although the producer had found the ring full and nothing was popped since", 0);
    if (!stuck.load() && next_expected <= n) verif::violation("C30", "C30:lost_element:parallel_stress", cfg + ": the consumer found the ring empty after all pushes had returned, next expected element " + std::to_string(next_expected), 0);
    if (stuck.load() == 3) verif::violation("C30", "C30:popped_more_than_pushed:parallel_stress", cfg + ": more pops succeeded than elements were pushed", 0);
    if (torn) verif::violation("C30", "C30:torn_element:parallel_stress", cfg + ": " + std::to_string(torn) + " elements inconsistent", 0);
    if (order) verif::violation("C30", "C30:lost_or_reordered:parallel_stress", cfg + ": " + std::to_string(order) + " order breaks, first: got " + std::to_string(first_bad) + " expected " + std::to_string(first_expected), 0);
    if (g_reports[0]) verif::violation("C30", "C30:tsan:data_race:ring_pointers", cfg + ": " + g_first_report[0], 0);
    if (g_reports[1]) verif::violation("C30", "C30:tsan:data_race:ring_data", cfg + ": " + g_first_report[1], 0);
    M.count("stress_elements", n);
    M.count("stress_push_found_full", full);
    M.count("stress_pop_found_empty", empty);
    M.count("tsan_reports_on_ring", g_reports[0] + g_reports[1]);
    M.count("tsan_reports_elsewhere", g_reports[4]);
    if (g_reports[4]) M.sample(std::string("TSan outside the object: ") + g_first_report[4], 12);
    M.cls("parallel_stress");
    if (full) M.cls("parallel_stress_ring_was_full");
    if (empty) M.cls("parallel_stress_ring_was_empty");
    M.nontrivial(verif::mix(verif::hstr(cfg), (full ? 1 : 0) + (empty ? 2 : 0)));
}

int main(int argc, char** argv) {
    verif::args a(argc, argv);
    const std::string what = a.str("what", "queue");
    const unsigned long long ops = a.num("ops", 200000);
    const unsigned long long seed = a.num("seed", 1);
    verif::run_config() = "tsan_stress what=" + what + " ops=" + std::to_string(ops) + " seed=" + std::to_string(seed);
    if (what == "queue") {
        verif::ctx_prop("C13");
        queue_stress<partition<5> >(ops, seed);
        queue_stress<partition<1, 3> >(ops, seed + 1);
        queue_stress<partition<2, 2> >(ops, seed + 2);
    } else {
        verif::ctx_prop("C30");
        ring_stress<1>(ops);
        ring_stress<4>(ops);
    }
    verif::finish();
    return 0;
}
