// Deterministic schedulers for the concurrency harnesses (C13, C30).
//
// Every load/store of the hooked shared variables calls bluetoe::verif_hooks::yield(kind, addr) *before* the
// access.  Two ways of using these yield points:
//
//  * isr_scheduler - no threads.  The "main" operation runs in the normal flow; at the chosen yield index the hook
//    synchronously runs the whole "interrupt" operation (it runs to completion, as an ISR does) and returns.
//    Enumerating the index enumerates every place in which an interrupt can hit the main operation.
//
//  * baton - two real threads, only the holder of the baton runs.  At every yield point the holder asks a chooser
//    which thread performs the next shared access; if it is the other one the baton is handed over (mutex +
//    condition variable).  Both sides are preemptible at single access granularity; the interleaving is a pure
//    function of the chooser's answers (the schedule), so schedules can be enumerated exhaustively (dfs_chooser),
//    sampled (random_chooser) and replayed from the schedule string.
//
// Both keep a logical clock (one tick per granted access and per operation call/return) used for the call/return
// stamps of the linearizability oracles, and an access trace (thread, load/store, address, value seen before the
// access) from which violation keys and "state at preemption" classes are derived.
#ifndef VERIF_CONC_BATON_HPP
#define VERIF_CONC_BATON_HPP

#include <bluetoe/verif_hooks.hpp>

#include <condition_variable>
#include <cstdint>
#include <functional>
#include <mutex>
#include <string>
#include <thread>
#include <vector>

namespace conc {

struct access_t {
    int tid;                 // 0 = main / consumer side, 1 = isr / producer side (harness defined)
    int kind;                // 0 load, 1 store
    const void* addr;
    unsigned long long value;   // value stored at addr immediately before the access is performed
};

typedef unsigned long long (*peek_function)(const void* addr);

// logical step budget: an operation under test that performs more shared accesses than this inside one schedule is
// looping (hang inside the code under test); the harness installs a handler that reports it as a violation
inline unsigned long& access_budget() { static unsigned long b = 200000; return b; }
inline void (*&on_budget_exceeded())() { static void (*f)() = nullptr; return f; }
inline void check_budget(std::size_t accesses) { if (accesses > access_budget() && on_budget_exceeded()) on_budget_exceeded()(); }

// ------------------------------------------------------------------------------------------------ ISR mode
struct isr_scheduler {
    long target;                         // inject before the access with this index of the main operation
    long index;                          // accesses of the main operation seen so far
    bool in_isr;
    bool injected;
    long isr_accesses;
    unsigned long long clock;
    unsigned long long isr_call, isr_ret;
    std::function<void()> isr;
    peek_function peek;
    std::vector<access_t> trace;         // all accesses in execution order
    int inj_kind; const void* inj_addr; unsigned long long inj_value;   // the main access that was delayed, value at that moment

    static isr_scheduler*& current() { static isr_scheduler* c = nullptr; return c; }

    isr_scheduler() : target(-1), index(0), in_isr(false), injected(false), isr_accesses(0), clock(0), isr_call(0), isr_ret(0), peek(nullptr), inj_kind(0), inj_addr(nullptr), inj_value(0) {}

    static void hook(int kind, const void* addr) {
        isr_scheduler* s = current();
        if (!s) return;
        if (s->in_isr) {
            ++s->isr_accesses; ++s->clock;
            s->trace.push_back(access_t{ 1, kind, addr, s->peek ? s->peek(addr) : 0 });
            return;
        }
        if (s->index == s->target && !s->injected) {
            s->in_isr = true; s->injected = true;
            s->inj_kind = kind; s->inj_addr = addr; s->inj_value = s->peek ? s->peek(addr) : 0;
            s->isr_call = ++s->clock;
            s->isr();
            s->isr_ret = ++s->clock;
            s->in_isr = false;
        }
        ++s->index; ++s->clock;
        s->trace.push_back(access_t{ 0, kind, addr, s->peek ? s->peek(addr) : 0 });
        check_budget(s->trace.size());
    }

    // runs main_op with isr_op injected before main_op's access number `at`; returns whether the injection happened
    bool run(const std::function<void()>& main_op, const std::function<void()>& isr_op, long at) {
        target = at; index = 0; in_isr = false; injected = false; isr_accesses = 0; trace.clear();
        isr = isr_op;
        current() = this;
        bluetoe::verif_hooks::yield_hook() = &isr_scheduler::hook;
        main_op();
        bluetoe::verif_hooks::yield_hook() = nullptr;
        current() = nullptr;
        return injected;
    }
};

// ------------------------------------------------------------------------------------------------ thread mode
struct chooser {
    virtual ~chooser() {}
    // both threads are at a yield point; return the thread (0/1) that performs its access next
    virtual int choose(int current_holder) = 0;
};

// enumerates all schedules: depth first over the choice points actually reached
struct dfs_chooser : chooser {
    std::vector<unsigned char> prefix, taken;
    std::size_t pos;
    dfs_chooser() : pos(0) {}
    void begin() { pos = 0; taken.clear(); }
    int choose(int) { const int c = pos < prefix.size() ? prefix[pos] : 0; ++pos; taken.push_back(static_cast<unsigned char>(c)); return c; }
    // prepare the next schedule; false when all were enumerated
    bool next() {
        while (!taken.empty() && taken.back() == 1) taken.pop_back();
        if (taken.empty()) return false;
        taken.back() = 1;
        prefix = taken;
        return true;
    }
};

struct replay_chooser : chooser {
    std::vector<unsigned char> bits; std::size_t pos;
    replay_chooser() : pos(0) {}
    int choose(int) { return pos < bits.size() ? bits[pos++] : 0; }
};

struct random_chooser : chooser {
    std::uint64_t s; unsigned switch_per_256;     // probability of a context switch at a choice point
    std::vector<unsigned char> taken;
    random_chooser() : s(1), switch_per_256(64) {}
    std::uint64_t next64() { s ^= s << 13; s ^= s >> 7; s ^= s << 17; return s; }
    void begin(std::uint64_t seed, unsigned sw) { s = seed * 0x9e3779b97f4a7c15ull + 0x1234567ull; if (!s) s = 1; switch_per_256 = sw; taken.clear(); }
    int choose(int holder) {
        const bool sw = ((next64() >> 20) & 255) < switch_per_256;
        const int c = sw ? 1 - holder : holder;
        taken.push_back(static_cast<unsigned char>(c));
        return c;
    }
};

class baton {
public:
    baton() : turn_(2), quit_(false), chooser_(nullptr), peek(nullptr), clock(0), switches(0)
    {
        st_[0] = st_[1] = finished;
        instance() = this;
        for (int i = 0; i < 2; ++i) worker_[i] = std::thread(&baton::worker, this, i);
    }

    ~baton()
    {
        {
            std::unique_lock<std::mutex> l(m_);
            quit_ = true;
            turn_ = 3;
        }
        cv_[0].notify_all(); cv_[1].notify_all();
        for (int i = 0; i < 2; ++i) worker_[i].join();
        instance() = nullptr;
    }

    // executes job0 in thread 0 and job1 in thread 1 under the schedule given by the chooser
    void run(const std::function<void()>& job0, const std::function<void()>& job1, chooser& c)
    {
        job_[0] = &job0; job_[1] = &job1; chooser_ = &c;
        trace.clear(); schedule.clear(); switches = 0;
        st_[0] = st_[1] = not_started;
        bluetoe::verif_hooks::yield_hook() = &baton::hook;
        {
            std::unique_lock<std::mutex> l(m_);
            turn_ = 0;
            cv_[0].notify_one();
            while (turn_ != 2) cv_main_.wait(l);
        }
        bluetoe::verif_hooks::yield_hook() = nullptr;
    }

    // to be called by the jobs (they hold the baton while running)
    unsigned long long tick() { return ++clock; }

    std::vector<access_t> trace;          // accesses in the order in which they were performed
    std::string schedule;                 // one letter per performed access: thread 0 = 'C', thread 1 = 'P'
    peek_function peek;
    unsigned long long clock;
    unsigned long switches;

private:
    enum state { not_started, running, at_yield, finished };

    static baton*& instance() { static baton* b = nullptr; return b; }
    static int& my_tid() { static thread_local int t = -1; return t; }

    static void hook(int kind, const void* addr)
    {
        baton* b = instance();
        const int tid = my_tid();
        if (!b || tid < 0) return;          // main thread: set up / drain phases run unscheduled
        b->yield_point(tid, kind, addr);
    }

    void yield_point(int tid, int kind, const void* addr)
    {
        std::unique_lock<std::mutex> l(m_);
        st_[tid] = at_yield;
        pending_[tid] = access_t{ tid, kind, addr, 0 };
        const int other = 1 - tid;
        int next;
        if (st_[other] == not_started) next = other;            // let it run up to its first shared access
        else if (st_[other] == finished) next = tid;
        else next = chooser_->choose(tid);
        if (next != tid) {
            ++switches;
            turn_ = next;
            cv_[next].notify_one();
            while (turn_ != tid) cv_[tid].wait(l);
        }
        // we hold the baton and perform our access now
        st_[tid] = running;
        ++clock;
        pending_[tid].value = peek ? peek(addr) : 0;
        trace.push_back(pending_[tid]);
        schedule.push_back(tid == 0 ? 'C' : 'P');
        check_budget(trace.size());
    }

    void worker(int tid)
    {
        my_tid() = tid;
        std::unique_lock<std::mutex> l(m_);
        for (;;) {
            while (turn_ != tid && !quit_) cv_[tid].wait(l);
            if (quit_) return;
            st_[tid] = running;
            l.unlock();
            (*job_[tid])();
            l.lock();
            st_[tid] = finished;
            const int other = 1 - tid;
            if (st_[other] == not_started || st_[other] == at_yield) { turn_ = other; cv_[other].notify_one(); }
            else { turn_ = 2; cv_main_.notify_one(); }
        }
    }

    std::mutex m_;
    std::condition_variable cv_[2], cv_main_;
    int turn_;                            // 0/1 worker, 2 main, 3 quit
    bool quit_;
    state st_[2];
    access_t pending_[2];
    const std::function<void()>* job_[2];
    chooser* chooser_;
    std::thread worker_[2];
};

// ------------------------------------------------------------------------------------------------ trace analysis
// Looks for windows "load of A by thread t ... next access of t to A" that contain a store to A by the other
// thread (optionally only for address `only`).  Result bits:
//   1 = thread 0 load..store (read-modify-write) cut by a store of thread 1     2 = thread 1's RMW cut by thread 0
//   4 = thread 1 load..load  (value tested, then re-read) with a store of thread 0 in between
//   8 = thread 0 load..load with a store of thread 1 in between
inline int rmw_overlaps(const std::vector<access_t>& tr, const void* only = nullptr)
{
    int result = 0;
    for (std::size_t i = 0; i < tr.size(); ++i) {
        if (tr[i].kind != 0 || (only && tr[i].addr != only)) continue;
        const int t = tr[i].tid;
        bool foreign_store = false;
        for (std::size_t j = i + 1; j < tr.size(); ++j) {
            if (tr[j].addr != tr[i].addr) continue;
            if (tr[j].tid != t) { if (tr[j].kind == 1) foreign_store = true; continue; }
            if (foreign_store) result |= tr[j].kind == 1 ? (t == 0 ? 1 : 2) : (t == 0 ? 8 : 4);
            break;
        }
    }
    return result;
}

inline bool truly_interleaved(const std::vector<access_t>& tr)
{
    // thread changes at least twice: one side ran between two accesses of the other
    int changes = 0;
    for (std::size_t i = 1; i < tr.size(); ++i) if (tr[i].tid != tr[i - 1].tid) ++changes;
    return changes >= 2;
}

} // namespace conc

#endif
