// C12: bluetoe::notification_queue<Sizes, Mixin> against the abstract set of pending (characteristic, kind)
// requests.  Exhaustive histories (DFS on copies of the real object) over a 3-characteristic alphabet, long random
// histories, and a model-free differential run "single-entry level vs. the same level widened by unused entries".
//
// What is demanded (property statement C12, nothing more):
//   * queue_notification / queue_indication return true exactly when that (characteristic, kind) was not pending
//   * a dequeued entry was pending (exactly-once), "empty" only if nothing is eligible; indications are not
//     eligible while a confirmation is outstanding
//   * no entry of a lower priority level is dequeued while a higher level has an eligible pending entry
//     (first tuple element = highest priority, outgoing_priority.hpp "numbers")
//   * one round: between becoming pending (and eligible) and being dequeued, no other entry of the same level is
//     dequeued twice
//   * clear_indications_and_confirmations empties the set and forgets the outstanding confirmation
//   * a level of one characteristic behaves like a level of many of which only one is used
#include "common/verif.hpp"
#include "conc/queue_model.hpp"

#include <algorithm>

using namespace conc;
using verif::mon;

enum optype { QN = 0, QI = 1, DEQ = 2, CONF = 3, CLR = 4 };
struct op_t { int type; int idx; };
struct rec_t { op_t op; int result; };   // result: queue ops 0/1, deq: entry id or -1

static std::string op_str(const rec_t& r) {
    switch (r.op.type) {
    case QN: return "qn(" + std::to_string(r.op.idx) + ")=" + std::to_string(r.result);
    case QI: return "qi(" + std::to_string(r.op.idx) + ")=" + std::to_string(r.result);
    case DEQ: return "deq=" + (r.result == -1 ? std::string("empty") : r.result < -1 ? "invalid" : ename(r.result));
    case CONF: return "confirm";
    default: return "clear";
    }
}
static std::string hist_str(const std::vector<rec_t>& h) {
    std::string s; const std::size_t from = h.size() > 80 ? h.size() - 80 : 0;
    if (from) s = "... ";
    for (std::size_t i = from; i < h.size(); ++i) { if (i != from) s += " "; s += op_str(h[i]); }
    return s;
}

enum cls_id { c_qn_new, c_qn_pending, c_qi_new, c_qi_pending, c_qi_new_while_unconfirmed, c_queue_both_kinds_same_char,
              c_queue_on_single_entry_level, c_deq_notification, c_deq_indication, c_deq_empty_nothing_pending,
              c_deq_empty_indications_blocked, c_deq_priority_choice, c_deq_round_robin_choice, c_deq_skips_blocked_indication,
              c_confirm_outstanding, c_confirm_idle, c_clear_nonempty, c_clear_empty, c_drain, c_differential_op, c_N };
static const char* cls_name[c_N] = { "qn_new", "qn_pending", "qi_new", "qi_pending", "qi_new_while_unconfirmed", "queue_both_kinds_same_char",
              "queue_on_single_entry_level", "deq_notification", "deq_indication", "deq_empty_nothing_pending",
              "deq_empty_indications_blocked", "deq_priority_choice", "deq_round_robin_choice", "deq_skips_blocked_indication",
              "confirm_outstanding", "confirm_idle", "clear_nonempty", "clear_empty", "drain", "differential_op" };
static unsigned long long cls_count[c_N];
static unsigned long long g_step = 0;
static unsigned long long g_evals = 0;

struct seq_model : pending_set {
    std::uint64_t overtaken[2 * MAXC];     // per entry x: same-level entries dequeued while x was pending and eligible
    std::uint64_t other_kind_served;       // bit x: during x's window the other kind of x's characteristic was dequeued
    seq_model() : other_kind_served(0) { std::fill(overtaken, overtaken + 2 * MAXC, 0); }
    void reset_window(int x) { overtaken[x] = 0; other_kind_served &= ~(std::uint64_t(1) << x); }
};

template <class Q>
struct checker {
    layout L;
    std::uint64_t cfg_hash;

    explicit checker(const layout& l) : L(l), cfg_hash(verif::hstr(l.name)) {}

    // the detail text is only built for the occurrences that are printed (first two per key)
    static bool printed_out(const std::string& key) {
        const std::map<std::string, unsigned long long>& vc = mon("C12").viol_count;
        const std::map<std::string, unsigned long long>::const_iterator i = vc.find(key);
        return i != vc.end() && i->second >= 2;
    }
    void viol(const std::string& key, const std::vector<rec_t>& h, const std::string& extra) {
        if (printed_out(key)) { verif::violation("C12", key, "", g_step); return; }
        verif::violation("C12", key, "partition " + L.name + " " + extra + " history: " + hist_str(h), g_step);
    }
    const char* lk(int idx) const { return L.single(idx) ? "single_entry_level" : "multi_entry_level"; }

    // applies op to the real queue and the model; false = the two diverged, do not follow this history further
    bool apply(Q& q, seq_model& m, op_t op, std::vector<rec_t>& h) {
        verif::ctx_step(g_step);
        ++g_step;
        bool ok = true;
        int outcome = 0;
        const std::uint64_t before = m.pend;
        const bool out_before = m.outstanding;
        switch (op.type) {
        case QN: case QI: {
            const int id = eid(op.idx, op.type == QI ? IND : NOTIF);
            const bool expect = !m.has(id);
            const bool other_pending = m.has(id ^ 1);
            const bool got = do_queue(q, id);
            h.push_back(rec_t{ op, got });
            outcome = got;
            ++g_evals;
            if (op.type == QN) ++cls_count[expect ? c_qn_new : c_qn_pending];
            else { ++cls_count[expect ? c_qi_new : c_qi_pending]; if (expect && m.outstanding) ++cls_count[c_qi_new_while_unconfirmed]; }
            if (other_pending) ++cls_count[c_queue_both_kinds_same_char];
            if (L.single(op.idx)) ++cls_count[c_queue_on_single_entry_level];
            if (expect) { m.add(id); m.reset_window(id); }
            if (got != expect) {
                const std::string key = std::string("C12:queue_return:") + (expect ? "false_but_not_pending:" : "true_but_pending:") + (op.type == QI ? "indication:" : "notification:") +
                                        lk(op.idx) + (other_pending ? ":other_kind_pending" : "");
                viol(key, h, printed_out(key) ? std::string() : std::string("expected ") + (expect ? "true" : "false") + " pending after: " + pending_set(m).str());
                ok = false;
            }
            break;
        }
        case DEQ: {
            const int got = do_dequeue(q);
            h.push_back(rec_t{ op, got });
            outcome = got + 2;
            ++g_evals;
            const int best = m.best_level(L);
            if (got < -1) { viol("C12:dequeue:invalid_entry_type", h, ""); ok = false; break; }
            if (got == -1) {
                if (best >= 0) {
                    int idx = 0; for (int id = 0; id < 2 * L.total; ++id) if (m.has(id) && m.eligible(id) && L.level_of[eidx(id)] == best) { idx = eidx(id); break; }
                    viol(std::string("C12:dequeue:empty_but_eligible_pending:") + lk(idx), h, "pending: " + m.str());
                    ok = false;
                }
                ++cls_count[m.pend ? c_deq_empty_indications_blocked : c_deq_empty_nothing_pending];
                break;
            }
            if (eidx(got) >= L.total) { viol("C12:dequeue:index_out_of_range", h, ""); ok = false; break; }
            if (!m.has(got)) { viol(std::string("C12:dequeue:not_pending:") + lk(eidx(got)), h, "pending: " + m.str()); ok = false; break; }
            if (ekind(got) == IND && m.outstanding) { viol("C12:dequeue:indication_while_unconfirmed", h, "pending: " + m.str()); ok = false; }
            const int lv = L.level_of[eidx(got)];
            if (best >= 0 && lv > best) { viol("C12:priority:lower_level_dequeued_first", h, "pending: " + m.str()); ok = false; }
            // coverage classes: was there a real choice?
            {
                int levels_eligible = 0, same_level_eligible = 0, blocked = 0; int seen = -1;
                for (int l = 0; l < L.nlevels; ++l) {
                    bool any = false;
                    for (int i = L.first[l]; i < L.first[l] + L.size[l]; ++i) for (int k = 0; k < 2; ++k) {
                        const int id = eid(i, k);
                        if (!m.has(id)) continue;
                        if (m.eligible(id)) { any = true; if (l == lv) ++same_level_eligible; } else if (l <= lv) ++blocked;
                    }
                    if (any) ++levels_eligible;
                }
                (void)seen;
                if (levels_eligible > 1) ++cls_count[c_deq_priority_choice];
                if (same_level_eligible > 1) ++cls_count[c_deq_round_robin_choice];
                if (blocked) ++cls_count[c_deq_skips_blocked_indication];
            }
            ++cls_count[ekind(got) == IND ? c_deq_indication : c_deq_notification];
            // one round: no same-level entry is dequeued twice while x is pending and eligible
            for (int x = 0; x < 2 * L.total; ++x) {
                if (x == got || !m.has(x) || !m.eligible(x) || L.level_of[eidx(x)] != lv) continue;
                ++g_evals;
                if ((m.overtaken[x] >> got) & 1) {
                    const char* shape = eidx(x) == eidx(got) ? "same_characteristic_other_kind_served_twice"
                                      : ((m.other_kind_served >> x) & 1) ? "round_consumed_by_other_kind_of_same_characteristic"
                                      : "overtaken_twice";
                    const std::string key = std::string("C12:fairness:") + shape;
                    viol(key, h, printed_out(key) ? std::string() : ename(x) + " is pending and eligible since before the previous dequeue of " + ename(got) + "; pending: " + m.str());
                }
                m.overtaken[x] |= std::uint64_t(1) << got;
                if (eidx(x) == eidx(got)) m.other_kind_served |= std::uint64_t(1) << x;
            }
            m.del(got); m.reset_window(got);
            if (ekind(got) == IND) {
                m.outstanding = true;
                for (int x = 0; x < 2 * L.total; ++x) if (ekind(x) == IND) m.reset_window(x);   // window restarts when eligible again
            }
            break;
        }
        case CONF:
            q.indication_confirmed();
            h.push_back(rec_t{ op, 0 });
            ++cls_count[m.outstanding ? c_confirm_outstanding : c_confirm_idle];
            m.outstanding = false;
            break;
        default:
            q.clear_indications_and_confirmations();
            h.push_back(rec_t{ op, 0 });
            ++cls_count[(m.pend || m.outstanding) ? c_clear_nonempty : c_clear_empty];
            m = seq_model();
            break;
        }
        if (before || op.type == QN || op.type == QI) {
            std::uint64_t hh = verif::mix(cfg_hash, before); hh = verif::mix(hh, out_before); hh = verif::mix(hh, op.type * 64 + op.idx); hh = verif::mix(hh, outcome);
            mon("C12").nontrivial(hh);
        }
        return ok;
    }

    // every pending entry must come out exactly once when dequeuing continues (confirming each indication)
    bool drain(Q q, seq_model m, std::vector<rec_t>& h) {
        ++cls_count[c_drain];
        const std::size_t len = h.size();
        const int bound = m.count() + 1;
        bool result = false, finished = false;
        for (int i = 0; i <= bound && !finished; ++i) {
            if (!apply(q, m, op_t{ CONF, 0 }, h) || !apply(q, m, op_t{ DEQ, 0 }, h)) finished = true;
            else if (h.back().result == -1) { result = true; finished = true; }        // apply() has checked that nothing was left
        }
        if (!finished) viol("C12:dequeue:never_empties", h, "");
        h.resize(len, rec_t{ op_t{ DEQ, 0 }, 0 });
        return result;
    }

    void dfs(const Q& q, const seq_model& m, std::vector<rec_t>& h, const std::vector<op_t>& alphabet, int depth, unsigned long long& histories) {
        if (depth == 0) { ++histories; drain(q, m, h); return; }
        for (std::size_t o = 0; o < alphabet.size(); ++o) {
            Q q2 = q; seq_model m2 = m;
            const bool ok = apply(q2, m2, alphabet[o], h);
            if (ok) dfs(q2, m2, h, alphabet, depth - 1, histories);
            else ++histories;
            h.pop_back();
        }
    }

    unsigned long long exhaustive(const int chars[3], int depth) {
        std::vector<op_t> alphabet;
        for (int k = 0; k < 3; ++k) { bool dup = false; for (int j = 0; j < k; ++j) dup = dup || chars[j] == chars[k]; if (!dup) { alphabet.push_back(op_t{ QN, chars[k] }); alphabet.push_back(op_t{ QI, chars[k] }); } }
        alphabet.push_back(op_t{ DEQ, 0 }); alphabet.push_back(op_t{ CONF, 0 }); alphabet.push_back(op_t{ CLR, 0 });
        Q q; seq_model m; std::vector<rec_t> h; unsigned long long histories = 0;
        dfs(q, m, h, alphabet, depth, histories);
        return histories;
    }

    void random_histories(verif::prng& r, unsigned long long ops) {
        Q q; seq_model m; std::vector<rec_t> h;
        unsigned long long done = 0;
        std::size_t limit = 40;
        while (done < ops) {
            if (h.size() >= limit) {
                drain(q, m, h);
                q = Q(); m = seq_model(); h.clear();
                limit = static_cast<std::size_t>(r.range(8, 240));
            }
            op_t op;
            const unsigned w = r.below(100);
            if (w < 50) { op.type = r.chance(1, 2) ? QN : QI; op.idx = r.chance(1, 3) ? r.range(0, std::min(L.total - 1, 2)) : r.range(0, L.total - 1); }
            else if (w < 82) { op.type = DEQ; op.idx = 0; }
            else if (w < 98) { op.type = CONF; op.idx = 0; }
            else { op.type = CLR; op.idx = 0; }
            ++done;
            if (!apply(q, m, op, h)) { q = Q(); m = seq_model(); h.clear(); }
        }
        mon("C12").sample("random history tail " + L.name + ": " + hist_str(h), 10);
    }
};

template <class P>
static void run_partition(verif::prng& r, int depth, unsigned long long ops, int task, int shard, int nshards, int& task_counter) {
    typedef typename P::queue Q;
    const layout L = P::make();
    checker<Q> c(L);
    verif::ctx_config("C12 " + L.name);
    // alphabets of 3 characteristics: the first ones of the levels, the last ones, one chosen by the seed
    int alph[3][3];
    for (int k = 0; k < 3; ++k) {
        alph[0][k] = L.nlevels >= 3 ? L.first[k] : L.nlevels == 2 ? (k < 2 ? L.first[k] : std::min(L.total - 1, L.first[1] + 1)) : std::min(k, L.total - 1);
        alph[1][k] = std::max(0, L.total - 1 - k);
    }
    { int a = r.range(0, L.total - 1), b = r.range(0, L.total - 1), cc = r.range(0, L.total - 1); alph[2][0] = a; alph[2][1] = b; alph[2][2] = cc; }
    const int nalph = L.total <= 3 ? 1 : 3;
    for (int a = 0; a < nalph; ++a) {
        if (task_counter++ % nshards != shard) continue;
        const unsigned long long n = c.exhaustive(alph[a], depth);
        mon("C12").count("exhaustive_histories", n);
        mon("C12").count("exhaustive_tasks", 1);
        mon("C12").sample_json("{\"partition\":\"" + L.name + "\",\"exhaustive_depth\":" + std::to_string(depth) + ",\"alphabet_characteristics\":[" +
                               std::to_string(alph[a][0]) + "," + std::to_string(alph[a][1]) + "," + std::to_string(alph[a][2]) +
                               "],\"alphabet\":\"qn,qi per characteristic + deq, confirm, clear; drain at every leaf\",\"histories\":" + std::to_string(n) + "}", 10);
    }
    if (task_counter++ % nshards == shard) {
        c.random_histories(r, ops);
        mon("C12").count("random_ops", ops);
    }
    (void)task;
}

// ---- differential: same abstract history on a partition with single-entry levels and on the partition in which
// those levels are widened by entries that are never used.  No model involved.
template <class PA, class PB>
static void differential(verif::prng& r, unsigned long long ops, int depth) {
    typedef typename PA::queue QA; typedef typename PB::queue QB;
    const layout LA = PA::make(), LB = PB::make();
    int map[MAXC];
    for (int i = 0; i < LA.total; ++i) { const int l = LA.level_of[i]; map[i] = LB.first[l] + (i - LA.first[l]); }
    verif::ctx_config("C12 differential " + LA.name + " vs " + LB.name);
    const std::string cfg = "differential " + LA.name + " vs " + LB.name + " (entries of " + LB.name + " beyond those of " + LA.name + " never used)";
    // one op on both; false on mismatch
    struct stepper {
        const layout& LA; const int* map; const std::string& cfg;
        bool operator()(QA& a, QB& b, std::vector<rec_t>& h, op_t op) const {
            verif::ctx_step(g_step); ++g_step; ++g_evals; ++cls_count[c_differential_op];
            if (op.type == QN || op.type == QI) {
                const int k = op.type == QI ? IND : NOTIF;
                const bool ra = do_queue(a, eid(op.idx, k)), rb = do_queue(b, eid(map[op.idx], k));
                h.push_back(rec_t{ op, ra });
                if (ra != rb) {
                    const std::string key = std::string("C12:differential:") + (op.type == QI ? "queue_indication" : "queue_notification") + "_return:" + (LA.single(op.idx) ? "single_entry_level" : "multi_entry_level");
                    if (checker<QA>::printed_out(key)) verif::violation("C12", key, "", g_step);
                    else verif::violation("C12", key,
                                     cfg + ": single-entry partition returned " + std::to_string(ra) + ", widened returned " + std::to_string(rb) + " history (results of the first): " + hist_str(h), g_step);
                    return false;
                }
            } else if (op.type == DEQ) {
                const int ra = do_dequeue(a); int rb = do_dequeue(b);
                h.push_back(rec_t{ op, ra });
                int rb_mapped = rb;
                if (rb >= 0) { rb_mapped = -3; for (int i = 0; i < LA.total; ++i) if (map[i] == eidx(rb)) rb_mapped = eid(i, ekind(rb)); }
                if (ra != rb_mapped) {
                    verif::violation("C12", "C12:differential:dequeue_result",
                                     cfg + ": single-entry partition dequeued " + (ra < 0 ? std::string("empty") : ename(ra)) + ", widened dequeued " + (rb < 0 ? std::string("empty") : ename(rb)) + " (its own index) history: " + hist_str(h), g_step);
                    return false;
                }
            } else if (op.type == CONF) { a.indication_confirmed(); b.indication_confirmed(); h.push_back(rec_t{ op, 0 }); }
            else { a.clear_indications_and_confirmations(); b.clear_indications_and_confirmations(); h.push_back(rec_t{ op, 0 }); }
            return true;
        }
    } step = { LA, map, cfg };

    // exhaustive over the first three characteristics of LA
    std::vector<op_t> alphabet;
    for (int i = 0; i < std::min(3, LA.total); ++i) { alphabet.push_back(op_t{ QN, i }); alphabet.push_back(op_t{ QI, i }); }
    alphabet.push_back(op_t{ DEQ, 0 }); alphabet.push_back(op_t{ CONF, 0 }); alphabet.push_back(op_t{ CLR, 0 });
    unsigned long long histories = 0;
    struct rec {
        static void go(const stepper& step, const std::vector<op_t>& alphabet, const QA& a, const QB& b, std::vector<rec_t>& h, int depth, unsigned long long& histories) {
            if (depth == 0) { ++histories; return; }
            for (std::size_t o = 0; o < alphabet.size(); ++o) {
                QA a2 = a; QB b2 = b;
                if (step(a2, b2, h, alphabet[o])) go(step, alphabet, a2, b2, h, depth - 1, histories); else ++histories;
                h.pop_back();
            }
        }
    };
    { QA a; QB b; std::vector<rec_t> h; rec::go(step, alphabet, a, b, h, depth, histories); }
    mon("C12").count("differential_exhaustive_histories", histories);

    QA a; QB b; std::vector<rec_t> h;
    for (unsigned long long i = 0; i < ops; ++i) {
        if (h.size() >= 120) { a = QA(); b = QB(); h.clear(); }
        op_t op; const unsigned w = r.below(100);
        if (w < 50) { op.type = r.chance(1, 2) ? QN : QI; op.idx = r.range(0, LA.total - 1); }
        else if (w < 82) { op.type = DEQ; op.idx = 0; }
        else if (w < 98) { op.type = CONF; op.idx = 0; }
        else { op.type = CLR; op.idx = 0; }
        if (!step(a, b, h, op)) { a = QA(); b = QB(); h.clear(); }
    }
    mon("C12").count("differential_random_ops", ops);
    mon("C12").count("differential_pairs", 1);
}

int main(int argc, char** argv) {
    verif::args a(argc, argv);
    verif::install_crash_handler();
    verif::ctx_prop("C12");
    const unsigned long long seed = a.num("seed", 1);
    verif::prng r(seed);
    const int depth = static_cast<int>(a.num("depth", 6));
    const int ddepth = static_cast<int>(a.num("ddepth", 5));
    const unsigned long long ops = a.num("ops", 100000);
    const int shard = static_cast<int>(a.num("shard", 0)), nshards = static_cast<int>(a.num("nshards", 1));
    verif::run_config() = "queue_seq depth=" + std::to_string(depth) + " ops=" + std::to_string(ops) + " shard=" + std::to_string(shard) + "/" + std::to_string(nshards) + " seed=" + std::to_string(seed);

    // SEQ_GROUP (0..3) selects a quarter of the instantiations so that the driver can compile four binaries in
    // parallel; without it everything is in one binary
#ifndef SEQ_GROUP
#define SEQ_GROUP -1
#endif
#define IN_GROUP(g) (SEQ_GROUP < 0 || SEQ_GROUP == (g))
    int t = 0;
    const unsigned long long dops = ops / 2;
#if IN_GROUP(0)
    run_partition<partition<1> >(r, depth, ops, 0, shard, nshards, t);
    run_partition<partition<5> >(r, depth, ops, 0, shard, nshards, t);
    run_partition<partition<1, 3> >(r, depth, ops, 0, shard, nshards, t);
    run_partition<partition<1, 1, 1> >(r, depth, ops, 0, shard, nshards, t);
    if (t++ % nshards == shard) differential<partition<1>, partition<2> >(r, dops, ddepth);
    if (t++ % nshards == shard) differential<partition<1, 3>, partition<2, 3> >(r, dops, ddepth);
#endif
#if IN_GROUP(1)
    run_partition<partition<2> >(r, depth, ops, 0, shard, nshards, t);
    run_partition<partition<9> >(r, depth, ops, 0, shard, nshards, t);
    run_partition<partition<3, 1> >(r, depth, ops, 0, shard, nshards, t);
    if (t++ % nshards == shard) differential<partition<1>, partition<5> >(r, dops, ddepth);
    if (t++ % nshards == shard) differential<partition<3, 1>, partition<3, 2> >(r, dops, ddepth);
    if (t++ % nshards == shard) differential<partition<1, 1, 1>, partition<2, 3, 2> >(r, dops, ddepth);
#endif
#if IN_GROUP(2)
    run_partition<partition<4> >(r, depth, ops, 0, shard, nshards, t);
    run_partition<partition<17> >(r, depth, ops, 0, shard, nshards, t);
    run_partition<partition<2, 1, 3> >(r, depth, ops, 0, shard, nshards, t);
    if (t++ % nshards == shard) differential<partition<1, 1>, partition<2, 2> >(r, dops, ddepth);
    if (t++ % nshards == shard) differential<partition<2, 1, 3>, partition<2, 2, 3> >(r, dops, ddepth);
#endif
#if IN_GROUP(3)
    run_partition<partition<1, 1> >(r, depth, ops, 0, shard, nshards, t);
    run_partition<partition<5, 1> >(r, depth, ops, 0, shard, nshards, t);
    run_partition<partition<1, 8> >(r, depth, ops, 0, shard, nshards, t);
    if (t++ % nshards == shard) differential<partition<5, 1>, partition<5, 2> >(r, dops, ddepth);
    if (t++ % nshards == shard) differential<partition<1, 8>, partition<3, 8> >(r, dops, ddepth);
#endif

    verif::monitor& M = mon("C12");
    M.eval(g_evals);
    for (int i = 0; i < c_N; ++i) if (cls_count[i]) M.cls(cls_name[i], cls_count[i]);
    M.exhaustive = false;   // exhaustive up to the stated depth and alphabet only; see counters
    verif::finish();
    return 0;
}
