// C30: bluetoe::details::ring<S, T> with one producer (try_push) and one consumer (try_pop) in different contexts.
// Hook H2 makes every load/store of read_ptr_/write_ptr_ a yield point; the element type used here is a 3-word
// struct whose copy assignment yields before every word (so a copy can be observed half done - no repo hook).
//
//  mode isr    : one side runs 1..2 operations in the main flow, the other side's 1..2 operations run to completion
//                at yield point k (both directions: producer interrupts consumer and consumer interrupts producer),
//                every k, every pre-state (pointer offset x fill level)
//  mode thread : two real threads + baton, ALL interleavings of <= 2 pushes || <= 2 pops
//  mode random : longer histories incl. wrap around, random schedules
//
// Oracle (FIFO model, unique values, call/return stamps of the scheduler's logical clock):
//   the k-th successful pop returns the k-th successfully pushed value, complete (not torn), not before that push
//   was called; a pop fails only if the next element's push had not returned when the pop was called; a push fails
//   only if `capacity` elements can have been in the ring during the call; a push succeeds only if fewer than
//   `capacity` can have been; after the schedule a sequential drain pops everything that was pushed.
#include <bluetoe/ring.hpp>
#include "common/verif.hpp"
#include "conc/baton.hpp"

#include <algorithm>
#include <set>

#ifndef RING_CAP
#define RING_CAP 2
#endif

using namespace conc;
using verif::mon;

static unsigned long long peek_int(const void* a) { return static_cast<unsigned long long>(*static_cast<const int*>(a)); }

struct elem3 {
    std::uint32_t a, b, c;
    elem3() : a(0), b(~0u), c(0) {}
    elem3(const elem3& o) : a(o.a), b(o.b), c(o.c) {}
    explicit elem3(std::uint32_t v) : a(v), b(~v), c(v * 2654435761u) {}
    elem3& operator=(const elem3& o) {
        bluetoe::verif_hooks::yield(1, &a); a = o.a;
        bluetoe::verif_hooks::yield(1, &b); b = o.b;
        bluetoe::verif_hooks::yield(1, &c); c = o.c;
        return *this;
    }
    std::uint32_t value() const { return a; }
    bool torn() const { return b != ~a || c != a * 2654435761u; }
    static const char* name() { return "elem3"; }
};

struct elem1 {
    std::uint32_t a;
    elem1() : a(0) {}
    elem1(const elem1& o) : a(o.a) {}
    explicit elem1(std::uint32_t v) : a(v) {}
    elem1& operator=(const elem1& o) { bluetoe::verif_hooks::yield(1, &a); a = o.a; return *this; }
    std::uint32_t value() const { return a; }
    bool torn() const { return false; }
    static const char* name() { return "elem1"; }
};

struct rop { bool push; bool ok; std::uint32_t v; bool torn; unsigned long long call, ret; };

static unsigned long long g_step = 0;
static std::set<std::uint64_t> g_random_seen;

static std::string ops_str(const std::vector<rop>& v) {
    std::string s;
    for (std::size_t i = 0; i < v.size(); ++i) {
        if (i) s += " ";
        s += v[i].push ? "push(" + std::to_string(v[i].v) + ")=" + (v[i].ok ? "1" : "0")
                       : std::string("pop=") + (v[i].ok ? std::to_string(v[i].v) + (v[i].torn ? "(TORN)" : "") : "fail");
        s += "@" + std::to_string(v[i].call) + "-" + std::to_string(v[i].ret);
    }
    return s;
}

// returns "" or the violation key suffix
static std::string fifo_check(std::size_t cap, const std::vector<std::uint32_t>& prefill, const std::vector<rop>& pushes, const std::vector<rop>& pops, unsigned long long& evals) {
    std::vector<rop> SP, PP;
    for (std::size_t i = 0; i < prefill.size(); ++i) { rop r; r.push = true; r.ok = true; r.v = prefill[i]; r.torn = false; r.call = 0; r.ret = 0; SP.push_back(r); }
    for (std::size_t i = 0; i < pushes.size(); ++i) if (pushes[i].ok) SP.push_back(pushes[i]);
    for (std::size_t i = 0; i < pops.size(); ++i) if (pops[i].ok) PP.push_back(pops[i]);
    evals += SP.size() + pops.size() + pushes.size();
    for (std::size_t k = 0; k < PP.size(); ++k) {
        if (PP[k].torn) return "torn_element";
        if (k >= SP.size()) return "popped_more_than_pushed";
        if (PP[k].v != SP[k].v) {
            for (std::size_t j = 0; j < SP.size(); ++j) if (SP[j].v == PP[k].v) return j < k ? "duplicate_or_reordered" : "lost_or_reordered";
            return "value_never_pushed";
        }
        if (PP[k].ret < SP[k].call) return "popped_before_pushed";
    }
    if (PP.size() < SP.size()) return "lost_element";
    // failed pops
    { std::size_t k = 0;
      for (std::size_t i = 0; i < pops.size(); ++i) { if (pops[i].ok) { ++k; continue; } if (k < SP.size() && SP[k].ret < pops[i].call) return "pop_failed_although_element_pending"; } }
    // pushes
    { std::size_t j = prefill.size();
      for (std::size_t i = 0; i < pushes.size(); ++i) {
          if (pushes[i].ok) {
              if (j >= cap) { const std::size_t idx = j - cap; if (idx >= PP.size() || pushes[i].ret < PP[idx].call) return "push_succeeded_although_full"; }
              ++j;
          } else {
              if (j < cap) return "push_failed_below_capacity";
              const std::size_t idx = j - cap;
              if (idx < PP.size() && PP[idx].ret < pushes[i].call) return "push_failed_below_capacity";
          }
      } }
    return "";
}

template <std::size_t S, class T>
struct runner {
    typedef bluetoe::details::ring<S, T> ring_t;
    std::string cfg;
    std::uint64_t cfg_hash;
    std::uint32_t next_value;

    runner() : cfg("ring<" + std::to_string(S) + "," + T::name() + ">"), cfg_hash(verif::hstr(cfg)), next_value(1) {}

    // the ring is not copyable (atomics): a pre-state is rebuilt with sequential operations for every schedule
    struct prestate { std::vector<std::uint32_t> content; int offset, fill; bool ok; };

    prestate make_prestate(ring_t& r, int offset, int fill) {
        prestate p; p.offset = offset; p.fill = fill; p.ok = true;
        for (int i = 0; i < offset; ++i) { T o; if (!r.try_push(T(next_value++)) || !r.try_pop(o)) p.ok = false; }
        for (int i = 0; i < fill; ++i) { const std::uint32_t v = next_value++; if (!r.try_push(T(v))) p.ok = false; p.content.push_back(v); }
        return p;
    }

    static rop do_push(ring_t& r, std::uint32_t v, unsigned long long& clock) {
        rop o; o.push = true; o.v = v; o.torn = false; o.call = ++clock; o.ok = r.try_push(T(v)); o.ret = ++clock; return o;
    }
    static rop do_pop(ring_t& r, unsigned long long& clock) {
        rop o; o.push = false; T out; o.call = ++clock; o.ok = r.try_pop(out); o.ret = ++clock; o.v = o.ok ? out.value() : 0; o.torn = o.ok && out.torn(); return o;
    }

    void drain(ring_t& r, std::vector<rop>& pops, unsigned long long clock) {
        unsigned long long t = clock + 100;
        for (std::size_t i = 0; i < 2 * S + 8; ++i) { rop o = do_pop(r, t); if (!o.ok) break; pops.push_back(o); }
    }

    static std::string where(long off) {
        return (off < 0 || off >= static_cast<long>(sizeof(ring_t))) ? std::string("consumer_local_copy") : off == 0 ? std::string("read_ptr") : off == 4 ? std::string("write_ptr")
             : "data_slot" + std::to_string((off - 8) / static_cast<long>(sizeof(T)));
    }

    void report(const std::string& key, const char* mode, const prestate& pre, const std::vector<rop>& pushes, const std::vector<rop>& pops, const std::function<std::string()>& sched_text) {
        {   // detail text only for the occurrences that get printed
            const std::map<std::string, unsigned long long>& vc = mon("C30").viol_count;
            const std::map<std::string, unsigned long long>::const_iterator i = vc.find("C30:" + key);
            if (i != vc.end() && i->second >= 2) { verif::violation("C30", "C30:" + key, "", g_step); return; }
        }
        const std::string sched = sched_text();
        std::string c = "[";
        for (std::size_t i = 0; i < pre.content.size(); ++i) { if (i) c += " "; c += std::to_string(pre.content[i]); }
        verif::violation("C30", "C30:" + key, std::string("mode=") + mode + " " + cfg + " capacity " + std::to_string(S) + " pre-state: pointer offset " + std::to_string(pre.offset) + " content " + c + "] | producer: " +
                         ops_str(pushes) + " | consumer (pops after the schedule's last stamp are the sequential drain): " + ops_str(pops) + " | schedule " + sched, g_step);
    }

    std::string trace_str(const std::vector<access_t>& tr, const ring_t& r, bool thread0_is_producer = false) {
        std::string s;
        for (std::size_t i = 0; i < tr.size(); ++i) {
            const long off = static_cast<const char*>(tr[i].addr) - reinterpret_cast<const char*>(&r);
            if (i) s += " ";
            s += (tr[i].tid == 0) != thread0_is_producer ? "C:" : "P:"; s += tr[i].kind ? "st" : "ld";
            s += (off < 0 || off >= static_cast<long>(sizeof(ring_t))) ? std::string("[out]") : off == 0 ? std::string("[rp]") : off == 4 ? std::string("[wp]") : "[d+" + std::to_string(off - 8) + "]";
        }
        return s;
    }

    void classes(const prestate& pre, const std::vector<rop>& pushes, const std::vector<rop>& pops) {
        verif::monitor& M = mon("C30");
        for (std::size_t i = 0; i < pushes.size(); ++i) M.cls(pushes[i].ok ? "push_ok" : "push_full");
        for (std::size_t i = 0; i < pops.size(); ++i) M.cls(pops[i].ok ? "pop_ok" : "pop_empty");
        if (pre.fill == 0) M.cls("start_empty"); else if (pre.fill == static_cast<int>(S)) M.cls("start_full"); else M.cls("start_partial");
        if (pre.offset + pre.fill + static_cast<int>(pushes.size()) > static_cast<int>(S)) M.cls("wrap_around");
    }

    // ------------------------------------------------------------------------------------------ ISR mode
    // dir 0: consumer in the main flow, producer is the interrupt; dir 1: producer in the main flow, consumer interrupts
    void isr_mode() {
        verif::monitor& M = mon("C30");
        verif::ctx_config("C30 isr " + cfg);
        isr_scheduler Sch; Sch.peek = peek_int;
        unsigned long long schedules = 0, overlapping = 0, evals = 0;
        for (int offset = 0; offset <= static_cast<int>(S); ++offset) for (int fill = 0; fill <= static_cast<int>(S); ++fill)
        for (int dir = 0; dir < 2; ++dir) for (int nmain = 1; nmain <= 2; ++nmain) for (int nisr = 1; nisr <= 2; ++nisr) {
            M.count("prestates");
            for (long at = 0;; ++at) {
                ring_t r;
                prestate pre = make_prestate(r, offset, fill);
                if (!pre.ok) { verif::violation("C30", "C30:sequential:setup_failed", cfg + " offset " + std::to_string(offset) + " fill " + std::to_string(fill), g_step); break; }
                std::vector<rop> pushes, pops;
                const std::uint32_t base = next_value; next_value += 4;
                verif::ctx_step(g_step);
                const bool injected = Sch.run(
                    [&] { for (int i = 0; i < nmain; ++i) { if (dir == 0) pops.push_back(do_pop(r, Sch.clock)); else pushes.push_back(do_push(r, base + i, Sch.clock)); } },
                    [&] { for (int i = 0; i < nisr; ++i) { if (dir == 0) pushes.push_back(do_push(r, base + i, Sch.clock)); else pops.push_back(do_pop(r, Sch.clock)); } }, at);
                if (!injected) break;
                ++g_step; ++schedules;
                if (at > 0) ++overlapping;
                // class of the interrupted access
                M.cls(std::string("preempt:isr:S") + std::to_string(S) + ":" + (dir == 0 ? "consumer_" : "producer_") + (Sch.inj_kind ? "st_" : "ld_") +
                      where(static_cast<const char*>(Sch.inj_addr) - reinterpret_cast<const char*>(&r)) + ":rp=" + std::to_string(reinterpret_cast<const int*>(&r)[0]) + ",wp=" + std::to_string(reinterpret_cast<const int*>(&r)[1]));
                drain(r, pops, Sch.clock);
                const std::string key = fifo_check(S, pre.content, pushes, pops, evals);
                const std::function<std::string()> sched = [&]() { return std::string(dir == 0 ? "producer interrupts consumer" : "consumer interrupts producer") + " before main access #" + std::to_string(at) + " accesses: " + trace_str(Sch.trace, r, dir == 1); };
                if (!key.empty()) report(key + (dir == 0 ? ":isr_producer" : ":isr_consumer"), "isr", pre, pushes, pops, sched);
                classes(pre, pushes, pops);
                M.cls(dir == 0 ? "producer_interrupts_consumer" : "consumer_interrupts_producer");
                if (at > 0) {
                    std::uint64_t h = verif::mix(cfg_hash, offset * 16 + fill); h = verif::mix(h, dir * 16 + nmain * 4 + nisr); h = verif::mix(h, at);
                    for (std::size_t i = 0; i < pushes.size(); ++i) h = verif::mix(h, pushes[i].ok);
                    for (std::size_t i = 0; i < pops.size(); ++i) h = verif::mix(h, pops[i].ok);
                    M.nontrivial(h);
                }
                if (schedules % 211 == 7) M.sample("isr " + cfg + " offset " + std::to_string(offset) + " fill " + std::to_string(fill) + ": " + sched() + " | " + ops_str(pushes) + " | " + ops_str(pops), 3);
            }
        }
        M.eval(evals);
        M.count("schedules_isr", schedules);
        M.count("schedules_isr_overlapping", overlapping);
    }

    // ------------------------------------------------------------------------------------------ thread mode
    void one_schedule(baton& B, chooser& ch, const char* mode, int offset, int fill, int np, int nc, unsigned long long& evals, bool& interleaved, bool& ok, std::uint64_t& outcome) {
        verif::monitor& M = mon("C30");
        ring_t r;
        const prestate pre = make_prestate(r, offset, fill);
        std::vector<rop> pushes, pops;
        const std::uint32_t base = next_value; next_value += static_cast<std::uint32_t>(np);
        verif::ctx_step(g_step);
        B.run([&] { for (int i = 0; i < nc; ++i) pops.push_back(do_pop(r, B.clock)); },
              [&] { for (int i = 0; i < np; ++i) pushes.push_back(do_push(r, base + i, B.clock)); }, ch);
        ++g_step;
        const unsigned long long end = B.clock;
        // preemption classes: pointer values are read from the ring after the fact only for the last switch; use trace values
        for (std::size_t i = 1; i < B.trace.size(); ++i) if (B.trace[i].tid != B.trace[i - 1].tid) {
            const long off = static_cast<const char*>(B.trace[i].addr) - reinterpret_cast<const char*>(&r);
            M.cls(std::string("preempt:thread:S") + std::to_string(S) + ":" + (B.trace[i].tid == 0 ? "consumer_resumes_" : "producer_resumes_") + (B.trace[i].kind ? "st_" : "ld_") + where(off) +
                  ((off == 0 || off == 4) ? ":value=" + std::to_string(B.trace[i].value) : std::string("")) + ":fill=" + std::to_string(pre.fill));
        }
        drain(r, pops, end);
        const std::string key = fifo_check(S, pre.content, pushes, pops, evals);
        interleaved = truly_interleaved(B.trace);
        ok = key.empty();
        if (!ok) report(key + ":thread", mode, pre, pushes, pops, [&]() { return B.schedule + " accesses: " + trace_str(B.trace, r); });
        classes(pre, pushes, pops);
        outcome = 0;
        for (std::size_t i = 0; i < pushes.size(); ++i) outcome = outcome * 2 + pushes[i].ok;
        for (std::size_t i = 0; i < pops.size(); ++i) outcome = outcome * 2 + pops[i].ok;
    }

    void thread_mode(baton& B, int np, int nc, int sub, int nsub) {
        verif::monitor& M = mon("C30");
        verif::ctx_config("C30 thread " + cfg);
        unsigned long long schedules = 0, inter = 0, evals = 0; int pi = 0;
        for (int offset = 0; offset <= static_cast<int>(S); ++offset) for (int fill = 0; fill <= static_cast<int>(S); ++fill) {
            if (pi++ % nsub != sub) continue;
            M.count("prestates");
            dfs_chooser ch;
            do {
                ch.begin();
                bool il, ok; std::uint64_t oc;
                one_schedule(B, ch, "thread", offset, fill, np, nc, evals, il, ok, oc);
                ++schedules; if (il) ++inter;
                if (il) { std::uint64_t h = verif::mix(cfg_hash, offset * 16 + fill); h = verif::mix(h, np * 4 + nc); h = verif::mix(h, verif::hstr(B.schedule)); h = verif::mix(h, oc); M.nontrivial(h); }
                if (schedules % 3001 == 17) M.sample("thread " + cfg + " offset " + std::to_string(offset) + " fill " + std::to_string(fill) + " " + std::to_string(np) + " push || " + std::to_string(nc) + " pop: schedule " + B.schedule, 6);
            } while (ch.next());
        }
        M.eval(evals);
        M.count("schedules_thread_exhaustive", schedules);
        M.count("schedules_thread_exhaustive_interleaved", inter);
        M.cls("thread_exhaustive_" + std::to_string(np) + "push_" + std::to_string(nc) + "pop_" + T::name());
    }

    void random_mode(baton& B, verif::prng& rnd, unsigned long long n) {
        verif::monitor& M = mon("C30");
        verif::ctx_config("C30 random " + cfg);
        random_chooser ch; unsigned long long inter = 0, evals = 0;
        for (unsigned long long i = 0; i < n; ++i) {
            struct { int offset, fill; } pre = { rnd.range(0, static_cast<int>(S)), rnd.range(0, static_cast<int>(S)) };
            const int np = rnd.range(2, 3 + 2 * static_cast<int>(S)), nc = rnd.range(2, 3 + 2 * static_cast<int>(S));
            ch.begin(i * 0x10001ull + rnd.next(), 24 + rnd.below(200));
            bool il, ok; std::uint64_t oc;
            one_schedule(B, ch, "random", pre.offset, pre.fill, np, nc, evals, il, ok, oc);
            if (il) ++inter;
            std::uint64_t h = verif::mix(cfg_hash, pre.offset * 16 + pre.fill); h = verif::mix(h, np * 16 + nc); h = verif::mix(h, verif::hstr(B.schedule)); h = verif::mix(h, oc);
            if (il) M.nontrivial(h);
            g_random_seen.insert(h);
            M.cls("random_history");
            if (i % 1009 == 5) M.sample("random " + cfg + " offset " + std::to_string(pre.offset) + " fill " + std::to_string(pre.fill) + " " + std::to_string(np) + " push || " + std::to_string(nc) + " pop: schedule " + B.schedule, 9);
        }
        M.eval(evals);
        M.count("schedules_thread_random", n);
        M.count("schedules_thread_random_interleaved", inter);
    }
};

static void hang_handler() {
    verif::violation("C30", "C30:hang:access_budget_exceeded", std::string("more than ") + std::to_string(access_budget()) + " shared accesses inside one schedule: " + verif::ctx().config + " step " + std::to_string(verif::ctx().step), verif::ctx().step);
    verif::finish();
    std::fflush(stdout);
    _exit(0);
}

int main(int argc, char** argv) {
    verif::args a(argc, argv);
    verif::install_crash_handler();
    on_budget_exceeded() = &hang_handler;
    verif::ctx_prop("C30");
    const std::string mode = a.str("mode", "isr");
    const unsigned long long seed = a.num("seed", 1);
    const int np = static_cast<int>(a.num("np", 1)), nc = static_cast<int>(a.num("nc", 1));
    const int sub = static_cast<int>(a.num("sub", 0)), nsub = static_cast<int>(a.num("nsub", 1));
    const bool one_word = a.has("elem1");
    verif::prng r(seed * 104729 + sub);
    verif::run_config() = "ring_conc cap=" + std::to_string(RING_CAP) + " mode=" + mode + " np=" + std::to_string(np) + " nc=" + std::to_string(nc) + (one_word ? " elem1" : " elem3") +
                          " sub=" + std::to_string(sub) + "/" + std::to_string(nsub) + " schedules=" + std::to_string(a.num("schedules", 0)) + " seed=" + std::to_string(seed);
    if (mode == "isr") {
        runner<RING_CAP, elem3> R; R.isr_mode();
    } else {
        baton B; B.peek = peek_int;
        if (mode == "thread") {
            if (one_word) { runner<RING_CAP, elem1> R; R.thread_mode(B, np, nc, sub, nsub); }
            else { runner<RING_CAP, elem3> R; R.thread_mode(B, np, nc, sub, nsub); }
        } else {
            runner<RING_CAP, elem3> R; R.random_mode(B, r, a.num("schedules", 2000));
        }
    }
    verif::monitor& M = mon("C30");
    M.count("distinct_random_schedules", g_random_seen.size());
    M.count("yield_points_hit", bluetoe::verif_hooks::yield_count());
    M.exhaustive = mode != "random";
    verif::finish();
    return 0;
}
