// C13: one producer (queue_notification / queue_indication) interleaved with the consumer
// (dequeue_indication_or_confirmation) on the real bluetoe::notification_queue at single memory access granularity
// (hook H1: every load/store of the queue bytes / of the single-entry state is a yield point).
//
//  mode isr    : the producer runs to completion at yield point k of the consumer (interrupt), every k, every
//                producer operation, every pre-state (pending set of <= maxpend entries x confirmation outstanding
//                x round robin cursor rotation)                                              -- no threads
//  mode thread : both sides preemptible, two real threads + baton; ALL interleavings of one dequeue with one
//                queue operation for every pre-state (<= tmaxpend entries)
//  mode random : longer histories (several dequeues/confirms against several queue operations), random schedules
//
// Oracle: linearizability against the set of pending requests, per entry (the set is a product of per-entry
// flags, values are unique per (entry, request)): a request that returned true is dequeued exactly once more, a
// request may return false only if the entry can have been pending at some point of the call, nothing is dequeued
// that was not requested.  After every schedule the queue is drained sequentially so that a lost bit shows.
#include "common/verif.hpp"
#include "conc/queue_model.hpp"
#include "conc/baton.hpp"

#include <algorithm>
#include <set>

using namespace conc;
using verif::mon;

static unsigned long long peek_byte(const void* a) { return *static_cast<const unsigned char*>(a); }

static unsigned long long g_step = 0;
static std::set<std::uint64_t> g_schedules_seen;

// detail texts are only built for the occurrences that get printed (first two per key)
static bool printed_out(const std::string& key) {
    const std::map<std::string, unsigned long long>& vc = mon("C13").viol_count;
    const std::map<std::string, unsigned long long>::const_iterator i = vc.find(key);
    return i != vc.end() && i->second >= 2;
}

static std::string trace_str(const std::vector<access_t>& tr, const void* base) {
    std::string s;
    for (std::size_t i = 0; i < tr.size(); ++i) {
        if (i) s += " ";
        s += tr[i].tid == 0 ? "C:" : "P:";
        s += tr[i].kind ? "st" : "ld";
        s += "[" + std::to_string(static_cast<const char*>(tr[i].addr) - static_cast<const char*>(base)) + "]";
        char b[8]; std::snprintf(b, sizeof b, "=%02x", static_cast<unsigned>(tr[i].value)); s += b;
    }
    return s;
}

template <class P>
struct runner {
    typedef typename P::queue Q;
    layout L;
    std::uint64_t cfg_hash;
    int E;

    runner() : L(P::make()), cfg_hash(verif::hstr(L.name)), E(2 * L.total), sub(0), nsub(1) {}

    struct prestate {
        Q q; pending_set s; int rot; bool reachable; std::string setup;
    };

    // builds the real queue for an abstract pre-state with sequential operations only
    prestate make_prestate(std::uint64_t pend, bool outstanding, int rot) {
        prestate p; p.rot = rot; p.reachable = true;
        if (outstanding) {
            const bool r = do_queue(p.q, eid(0, IND)); const int d = do_dequeue(p.q);
            p.setup += "qi(0) deq ";
            if (!r || d != eid(0, IND)) p.reachable = false;
            p.s.outstanding = true;
        }
        for (int l = 0; l < L.nlevels; ++l) {
            if (L.size[l] < 2 || rot % L.size[l] == 0) continue;
            const int idx = L.first[l] + (rot % L.size[l]) - 1;
            const bool r = do_queue(p.q, eid(idx, NOTIF)); const int d = do_dequeue(p.q);
            p.setup += "qn(" + std::to_string(idx) + ") deq ";
            if (!r || d != eid(idx, NOTIF)) p.reachable = false;
        }
        for (int id = 0; id < E; ++id) if ((pend >> id) & 1) {
            const bool r = do_queue(p.q, id);
            p.setup += (ekind(id) == IND ? "qi(" : "qn(") + std::to_string(eidx(id)) + ") ";
            if (!r) p.reachable = false;
            p.s.add(id);
        }
        return p;
    }

    int sub, nsub;
    template <class F>
    void for_each_prestate(int maxpend, F f) {
        int pi = 0;
        int maxrot = 1; for (int l = 0; l < L.nlevels; ++l) maxrot = std::max(maxrot, L.size[l]);
        for (std::uint64_t pend = 0; pend < (std::uint64_t(1) << E); ++pend) {
            if (__builtin_popcountll(pend) > maxpend) continue;
            for (int o = 0; o < 2; ++o) for (int rot = 0; rot < maxrot; ++rot) {
                if (pi++ % nsub != sub) continue;
                prestate p = make_prestate(pend, o != 0, rot);
                if (!p.reachable) { mon("C13").count("prestates_not_reachable_sequentially"); continue; }
                mon("C13").count("prestates");
                f(p);
            }
        }
    }

    std::string describe(const char* mode, const prestate& pre, int e, int d, bool retP, const std::vector<int>& drained, const std::string& sched) {
        std::string s = std::string("mode=") + mode + " partition " + L.name + " pre-state: setup [" + pre.setup + "] pending " + pre.s.str() +
                        " | producer " + (ekind(e) == IND ? "queue_indication(" : "queue_notification(") + std::to_string(eidx(e)) + ") returned " + (retP ? "true" : "false") +
                        " | concurrent dequeue returned " + (d < 0 ? std::string("empty") : ename(d)) + " | sequential drain afterwards (confirming each indication): [";
        for (std::size_t i = 0; i < drained.size(); ++i) { if (i) s += " "; s += ename(drained[i]); }
        s += "] | schedule " + sched;
        return s;
    }

    // names the failure shape from the access trace (thread 0 = consumer, 1 = producer)
    const char* site(const char* mode, int ov, int entry, bool lost) {
        const bool isr = mode[0] == 'i';
        // a cut read-modify-write explains a lost (consumer's RMW) or resurrected (producer's RMW) bit best
        if (lost && (ov & 1)) return isr ? "isr_in_remove_rmw" : "thread_in_remove_rmw";
        if (!lost && (ov & 2)) return "thread_in_add_rmw";
        if (!lost && (ov & 4)) return "thread_between_add_test_and_set";
        if (ov & 1) return isr ? "isr_in_remove_rmw" : "thread_in_remove_rmw";
        if (ov & 2) return "thread_in_add_rmw";
        if (ov & 4) return "thread_between_add_test_and_set";
        if (L.single(eidx(entry))) return "single_entry_state";
        // the consumer used a value it had read before the producer's store (harmless in the shipped code, which re-reads)
        if (lost && (ov & 8)) return isr ? "isr_between_scan_and_remove" : "thread_between_scan_and_remove";
        return "no_rmw_overlap";
    }

    // verdict for "one dequeue || one queue operation"
    bool check_pair(const char* mode, const prestate& pre, int e, int d, bool retP, const std::vector<int>& drained, bool drain_terminated,
                    const std::vector<access_t>& trace, const std::function<std::string()>& sched) {
        verif::monitor& M = mon("C13");
        const int ov = rmw_overlaps(trace);
        bool ok = true;
        int expected[2 * MAXC], count[2 * MAXC];
        for (int id = 0; id < E; ++id) { expected[id] = pre.s.has(id); count[id] = 0; }
        if (d >= 0 && d < E) ++count[d];
        for (std::size_t i = 0; i < drained.size(); ++i) if (drained[i] >= 0 && drained[i] < E) ++count[drained[i]];
        const bool e_pending = pre.s.has(e);
        M.eval(3 + E);
        std::string key;
#define VIOL(k) do { const std::string key_ = (k); verif::violation("C13", key_, printed_out(key_) ? std::string() : describe(mode, pre, e, d, retP, drained, sched()), g_step); ok = false; } while (0)
        if (!drain_terminated) VIOL(std::string("C13:dup:never_empties:") + site(mode, ov, e, false));
        // the dequeue itself
        if (d < -1 || d >= E) VIOL("C13:dequeue:invalid_result");
        else if (d == -1) { if (pre.s.best_level(L) >= 0) VIOL(std::string("C13:dequeue:empty_although_pending:") + site(mode, ov, e, true)); }
        else {
            if (!pre.s.has(d) && d != e) VIOL(std::string("C13:dup:never_requested:") + site(mode, ov, d, false));
            else if (ekind(d) == IND && pre.s.outstanding) VIOL("C13:dequeue:indication_while_unconfirmed");
            else { const int best = pre.s.best_level(L); if (best >= 0 && L.level_of[eidx(d)] > best) VIOL("C13:dequeue:priority"); }
        }
        // the producer's return value
        if (!e_pending && !retP) {
            if (count[e] == 0) VIOL(std::string("C13:lost:") + site(mode, ov, e, true) + ":ignored_although_not_pending");
            else VIOL(std::string("C13:return:false_but_newly_queued:") + site(mode, ov, e, true));
        } else if (e_pending && d != e && retP) VIOL(std::string("C13:return:true_but_pending:") + site(mode, ov, e, false));
        else {
            if (retP) ++expected[e];
            for (int id = 0; id < E; ++id) {
                if (count[id] < expected[id]) VIOL(std::string("C13:lost:") + site(mode, ov, id, true) + (id == e ? "" : ":bystander"));
                else if (count[id] > expected[id]) VIOL(std::string("C13:dup:") + site(mode, ov, id, false));
            }
        }
#undef VIOL
        return ok;
    }

    std::vector<int> drain(Q& q, bool& terminated) {
        std::vector<int> got; terminated = false;
        for (int i = 0; i < 2 * E + 6; ++i) {
            q.indication_confirmed();
            const int r = do_dequeue(q);
            if (r == -1) { terminated = true; break; }
            got.push_back(r);
        }
        return got;
    }

    void classes(const prestate& pre, int e, int d, bool retP) {
        verif::monitor& M = mon("C13");
        M.cls(ekind(e) == IND ? "producer_queue_indication" : "producer_queue_notification");
        M.cls(pre.s.has(e) ? "producer_entry_already_pending" : "producer_entry_not_pending");
        if (d == -1) M.cls("dequeue_returns_empty");
        else if (d == e && !pre.s.has(e)) M.cls("dequeue_returns_the_concurrent_request");
        else M.cls("dequeue_returns_pre_state_entry");
        if (d >= 0 && L.level_of[eidx(d)] == L.level_of[eidx(e)] && !L.single(eidx(e)) && (eidx(d) - L.first[L.level_of[eidx(d)]]) / 4 == (eidx(e) - L.first[L.level_of[eidx(e)]]) / 4) M.cls("same_byte");
        else M.cls("different_byte_or_level");
        if (pre.s.outstanding) M.cls("confirmation_outstanding");
        if (L.single(eidx(e))) M.cls("single_entry_level");
        (void)retP;
    }

    // ------------------------------------------------------------------------------------------ ISR mode
    void isr_mode(int maxpend) {
        verif::monitor& M = mon("C13");
        verif::ctx_config("C13 isr " + L.name);
        isr_scheduler S; S.peek = peek_byte;
        unsigned long long schedules = 0, interleaved = 0;
        for_each_prestate(maxpend, [&](prestate& pre) {
            for (int e = 0; e < E; ++e) {
                for (long at = 0;; ++at) {
                    Q q = pre.q;
                    int d = -9; bool retP = false;
                    verif::ctx_step(g_step);
                    const bool injected = S.run([&] { d = do_dequeue(q); }, [&] { retP = do_queue(q, e); }, at);
                    if (!injected) break;
                    ++g_step; ++schedules;
                    bool term; std::vector<int> rest = drain(q, term);
                    // where was the consumer interrupted?  (S.inj_*: the delayed access and the byte value at that moment)
                    const int kind = S.inj_kind; const unsigned long long val = S.inj_value;
                    const long off = static_cast<const char*>(S.inj_addr) - reinterpret_cast<const char*>(&q);
                    bool in_rmw = false;
                    {
                        long seen = 0;
                        for (std::size_t j = 0; j < S.trace.size() && seen < at; ++j) if (S.trace[j].tid == 0) { ++seen; if (S.trace[j].addr == S.inj_addr) in_rmw = kind == 1 && S.trace[j].kind == 0; }
                    }
                    const bool overlap = at > 0;     // at least one consumer access before and one after the interrupt
                    if (overlap) ++interleaved;
                    { char b[96]; std::snprintf(b, sizeof b, "preempt:isr:consumer_%s%s:byte=%02x", kind ? "st" : "ld", in_rmw ? "_after_own_ld" : "", static_cast<unsigned>(val)); M.cls(b); (void)off; }
                    const std::function<std::string()> sched = [&]() { return "interrupt before consumer access #" + std::to_string(at) + " (" + (kind ? "store" : "load") + (in_rmw ? ", between load and store of the same byte" : "") + "); accesses: " + trace_str(S.trace, &q); };
                    const bool ok = check_pair("isr", pre, e, d, retP, rest, term, S.trace, sched);
                    classes(pre, e, d, retP);
                    if (in_rmw) M.cls("interrupt_between_load_and_store");
                    M.cls(kind ? "interrupt_before_store" : "interrupt_before_load");
                    if (overlap) {
                        std::uint64_t h = verif::mix(cfg_hash, pre.s.pend); h = verif::mix(h, pre.s.outstanding * 64 + pre.rot); h = verif::mix(h, e * 64 + at); h = verif::mix(h, (d + 2) * 4 + retP * 2 + ok);
                        M.nontrivial(h);
                    }
                    if (schedules % 997 == 1) M.sample("isr " + L.name + " pending " + pre.s.str() + " producer " + ename(e) + "+ -> " + (retP ? "true" : "false") + ", dequeue -> " + (d < 0 ? "empty" : ename(d)) + "; " + sched(), 4);
                }
            }
        });
        M.count("schedules_isr", schedules);
        M.count("schedules_isr_overlapping", interleaved);
    }

    // ------------------------------------------------------------------------------------------ thread mode, exhaustive
    void thread_mode(baton& B, int maxpend) {
        verif::monitor& M = mon("C13");
        verif::ctx_config("C13 thread " + L.name);
        unsigned long long schedules = 0, interleaved = 0;
        for_each_prestate(maxpend, [&](prestate& pre) {
            for (int e = 0; e < E; ++e) {
                dfs_chooser ch;
                do {
                    ch.begin();
                    Q q = pre.q;
                    int d = -9; bool retP = false;
                    verif::ctx_step(g_step);
                    B.run([&] { d = do_dequeue(q); }, [&] { retP = do_queue(q, e); }, ch);
                    ++g_step; ++schedules;
                    bool term; std::vector<int> rest = drain(q, term);
                    const bool inter = truly_interleaved(B.trace);
                    if (inter) ++interleaved;
                    const bool ok = check_pair("thread", pre, e, d, retP, rest, term, B.trace, [&]() { return B.schedule + " accesses: " + trace_str(B.trace, &q); });
                    classes(pre, e, d, retP);
                    const int ov = rmw_overlaps(B.trace);
                    if (ov & 1) M.cls("producer_store_inside_consumer_rmw");
                    if (ov & 2) M.cls("consumer_store_inside_producer_rmw");
                    for (std::size_t i = 1; i < B.trace.size(); ++i) if (B.trace[i].tid != B.trace[i - 1].tid) {
                        char b[96]; std::snprintf(b, sizeof b, "preempt:thread:%s_resumes_%s:byte=%02x", B.trace[i].tid ? "producer" : "consumer", B.trace[i].kind ? "st" : "ld", static_cast<unsigned>(B.trace[i].value));
                        M.cls(b);
                    }
                    if (inter) {
                        std::uint64_t h = verif::mix(cfg_hash, pre.s.pend); h = verif::mix(h, pre.s.outstanding * 64 + pre.rot); h = verif::mix(h, e); h = verif::mix(h, verif::hstr(B.schedule)); h = verif::mix(h, (d + 2) * 4 + retP * 2 + ok);
                        M.nontrivial(h);
                    }
                    if (schedules % 4999 == 1) M.sample("thread " + L.name + " pending " + pre.s.str() + " producer " + ename(e) + "+ -> " + (retP ? "true" : "false") + ", dequeue -> " + (d < 0 ? "empty" : ename(d)) + "; schedule " + B.schedule, 8);
                } while (ch.next());
            }
        });
        M.count("schedules_thread_exhaustive", schedules);
        M.count("schedules_thread_exhaustive_interleaved", interleaved);
    }

    // ------------------------------------------------------------------------------------------ thread mode, longer random histories
    struct oprec { int thread; int entry; int result; unsigned long long call, ret; std::size_t tb, te; };   // [tb,te): the op's window in the access trace   // consumer: entry = dequeued (or -1), producer: result = returned

    void random_mode(baton& B, verif::prng& r, unsigned long long nschedules, int maxpend) {
        verif::monitor& M = mon("C13");
        verif::ctx_config("C13 random " + L.name);
        random_chooser ch;
        unsigned long long interleaved = 0;
        for (unsigned long long n = 0; n < nschedules; ++n) {
            std::uint64_t pend = 0; const int np = r.range(0, maxpend);
            for (int i = 0; i < np; ++i) pend |= std::uint64_t(1) << r.range(0, E - 1);
            prestate pre = make_prestate(pend, r.chance(1, 4), r.range(0, 7));
            if (!pre.reachable) { M.count("prestates_not_reachable_sequentially"); continue; }
            Q q = pre.q;
            // plans
            const int nprod = r.range(2, 6), ncons = r.range(2, 6);
            std::vector<int> prod_entries; const int focus = r.range(0, E - 1);
            for (int i = 0; i < nprod; ++i) prod_entries.push_back(r.chance(1, 2) ? focus : r.chance(1, 2) ? (focus ^ 1) : r.range(0, E - 1));
            std::vector<int> confirm_after; for (int i = 0; i < ncons; ++i) confirm_after.push_back(r.chance(1, 2));
            std::vector<oprec> ops_c, ops_p;
            ch.begin(n * 0x10001ull + r.next(), 32 + r.below(160));
            verif::ctx_step(g_step);
            B.run([&] {
                      for (int i = 0; i < ncons; ++i) {
                          oprec o; o.thread = 0; o.call = B.tick(); o.entry = do_dequeue(q); o.ret = B.tick(); o.result = 0; ops_c.push_back(o);
                          if (confirm_after[i]) q.indication_confirmed();
                      }
                  },
                  [&] {
                      for (int i = 0; i < nprod; ++i) {
                          oprec o; o.thread = 1; o.entry = prod_entries[i]; o.tb = B.trace.size(); o.call = B.tick(); o.result = do_queue(q, prod_entries[i]); o.ret = B.tick(); o.te = B.trace.size(); ops_p.push_back(o);
                      }
                  }, ch);
            ++g_step;
            bool term; std::vector<int> rest = drain(q, term);
            unsigned long long t = B.clock + 10;
            for (std::size_t i = 0; i < rest.size(); ++i) { oprec o; o.thread = 0; o.entry = rest[i]; o.result = 0; o.call = ++t; o.ret = ++t; ops_c.push_back(o); }
            if (truly_interleaved(B.trace)) ++interleaved;
            const int ov_all = rmw_overlaps(B.trace);
            bool ok = true;
            // per entry linearizability (counting argument)
            for (int x = 0; x < E && ok; ++x) {
                // failure shape: overlaps on the byte that holds entry x (known from the producer's accesses for x)
                int ov = ov_all;
                for (std::size_t i = 0; i < ops_p.size(); ++i) if (ops_p[i].entry == x) {
                    for (std::size_t j = ops_p[i].tb; j < ops_p[i].te && j < B.trace.size(); ++j) if (B.trace[j].tid == 1) { ov = rmw_overlaps(B.trace, B.trace[j].addr); break; }
                    break;
                }
                std::vector<oprec> sets, takes; std::vector<std::pair<oprec, int> > falses;
                if (pre.s.has(x)) { oprec o; o.thread = 1; o.entry = x; o.result = 1; o.call = 0; o.ret = 0; sets.push_back(o); }
                for (std::size_t i = 0; i < ops_p.size(); ++i) if (ops_p[i].entry == x) { if (ops_p[i].result) sets.push_back(ops_p[i]); else falses.push_back(std::make_pair(ops_p[i], static_cast<int>(sets.size()))); }
                for (std::size_t i = 0; i < ops_c.size(); ++i) if (ops_c[i].entry == x) takes.push_back(ops_c[i]);
                M.eval(1 + sets.size() + takes.size() + falses.size());
                // counts first (a lost or resurrected bit shifts every later pairing), then return values, then order
                std::string key;
                if (takes.size() < sets.size()) key = std::string("C13:lost:") + site("thread", ov, x, true);
                else if (takes.size() > sets.size()) key = std::string("C13:dup:") + site("thread", ov, x, false);
                for (std::size_t i = 0; i < falses.size() && key.empty(); ++i) {
                    const int k = falses[i].second;       // must be linearized after set #k and before take #k
                    if (k == 0 || takes[k - 1].ret < falses[i].first.call) {
                        // with equal counts and a cut read-modify-write on this byte a lost and a resurrected bit have compensated
                        const std::string st = site("thread", ov, x, true);
                        key = st == "single_entry_state" || st == "no_rmw_overlap" ? "C13:lost:" + st + ":ignored_although_not_pending" : "C13:not_linearizable:" + st;
                    }
                }
                for (std::size_t k = 0; k + 1 < sets.size() && key.empty(); ++k)       // "newly queued" although the previous request cannot have been dequeued yet
                    if (sets[k + 1].ret < takes[k].call) key = std::string("C13:not_linearizable:") + site("thread", ov, x, false);
                for (std::size_t k = 0; k < takes.size() && key.empty(); ++k)          // dequeued before it was requested
                    if (takes[k].ret < sets[k].call) key = std::string("C13:not_linearizable:") + site("thread", ov, x, false);
                if (!term && key.empty()) key = "C13:dup:never_empties";
                if (!key.empty() && printed_out(key)) { ok = false; verif::violation("C13", key, "", g_step); }
                else if (!key.empty()) {
                    ok = false;
                    std::string d = "mode=random partition " + L.name + " pre-state: setup [" + pre.setup + "] pending " + pre.s.str() + " | entry " + ename(x) + " | producer ops (call,ret stamps): ";
                    for (std::size_t i = 0; i < ops_p.size(); ++i) d += ename(ops_p[i].entry) + "+=" + std::to_string(ops_p[i].result) + "@" + std::to_string(ops_p[i].call) + "-" + std::to_string(ops_p[i].ret) + " ";
                    d += "| consumer ops: ";
                    for (std::size_t i = 0; i < ops_c.size(); ++i) d += "deq=" + (ops_c[i].entry < 0 ? std::string("empty") : ename(ops_c[i].entry)) + "@" + std::to_string(ops_c[i].call) + "-" + std::to_string(ops_c[i].ret) + (i < confirm_after.size() && confirm_after[i] ? ",confirm " : " ");
                    d += "(entries after the last stamp of the schedule are the sequential drain) | schedule " + B.schedule + " accesses: " + trace_str(B.trace, &q);
                    verif::violation("C13", key, d, g_step);
                }
            }
            M.cls("random_history");
            if (ov_all & 1) M.cls("producer_store_inside_consumer_rmw");
            if (ov_all & 2) M.cls("consumer_store_inside_producer_rmw");
            std::uint64_t h = verif::mix(cfg_hash, pend); h = verif::mix(h, verif::hstr(B.schedule)); h = verif::mix(h, ok);
            for (std::size_t i = 0; i < ops_p.size(); ++i) h = verif::mix(h, ops_p[i].entry * 2 + ops_p[i].result);
            if (truly_interleaved(B.trace)) M.nontrivial(h);
            g_schedules_seen.insert(h);
            if (n % 2503 == 1) M.sample("random " + L.name + " pending " + pre.s.str() + " schedule " + B.schedule, 10);
        }
        M.count("schedules_thread_random", nschedules);
        M.count("schedules_thread_random_interleaved", interleaved);
    }
};

struct options { std::string mode; int maxpend, tmaxpend; unsigned long long schedules; int shard, nshards, sub, nsub; };

template <class P>
static void run(const options& o, verif::prng& r, baton*& B, int& task) {
    const char* modes[3] = { "isr", "thread", "random" };
    for (int m = 0; m < 3; ++m) {
        if (o.mode != "all" && o.mode != modes[m]) continue;
        if (task++ % o.nshards != o.shard) continue;
        runner<P> R; R.sub = o.sub; R.nsub = o.nsub;
        if (m == 0) R.isr_mode(o.maxpend);
        else {
            if (!B) { B = new baton(); B->peek = peek_byte; }
            if (m == 1) R.thread_mode(*B, o.tmaxpend); else R.random_mode(*B, r, o.schedules, 3);
        }
        mon("C13").count("tasks", 1);
    }
}

static void hang_handler() {
    verif::violation("C13", "C13:hang:access_budget_exceeded", std::string("more than ") + std::to_string(access_budget()) + " shared accesses inside one schedule: " + verif::ctx().config + " step " + std::to_string(verif::ctx().step), verif::ctx().step);
    verif::finish();
    std::fflush(stdout);
    _exit(0);
}

int main(int argc, char** argv) {
    verif::args a(argc, argv);
    verif::install_crash_handler();
    on_budget_exceeded() = &hang_handler;
    verif::ctx_prop("C13");
    options o;
    o.mode = a.str("mode", "all");
    o.maxpend = static_cast<int>(a.num("maxpend", 3));
    o.tmaxpend = static_cast<int>(a.num("tmaxpend", 2));
    o.schedules = a.num("schedules", 5000);
    o.shard = static_cast<int>(a.num("shard", 0)); o.nshards = static_cast<int>(a.num("nshards", 1));
    o.sub = static_cast<int>(a.num("sub", 0)); o.nsub = static_cast<int>(a.num("nsub", 1));
    const unsigned long long seed = a.num("seed", 1);
    verif::prng r(seed * 7919 + o.shard + 131 * o.sub);
    verif::run_config() = "queue_conc mode=" + o.mode + " maxpend=" + std::to_string(o.maxpend) + " tmaxpend=" + std::to_string(o.tmaxpend) + " schedules=" + std::to_string(o.schedules) +
                          " shard=" + std::to_string(o.shard) + "/" + std::to_string(o.nshards) + " sub=" + std::to_string(o.sub) + "/" + std::to_string(o.nsub) + " seed=" + std::to_string(seed);
    baton* B = nullptr;
    int task = 0;
#ifdef CONC_PART
    // one partition per binary (-DCONC_PART=1,3) so that the driver compiles them in parallel
    run<partition<CONC_PART> >(o, r, B, task);
#else
    run<partition<5> >(o, r, B, task);
    run<partition<4> >(o, r, B, task);
    run<partition<1, 3> >(o, r, B, task);
    run<partition<5, 1> >(o, r, B, task);
    run<partition<2, 2> >(o, r, B, task);
    run<partition<2> >(o, r, B, task);
    run<partition<1, 1> >(o, r, B, task);
    run<partition<1> >(o, r, B, task);
#endif
    delete B;
    verif::monitor& M = mon("C13");
    M.count("distinct_random_schedules", g_schedules_seen.size());
    M.count("yield_points_hit", bluetoe::verif_hooks::yield_count());
    M.exhaustive = o.mode == "isr" || o.mode == "thread";
    verif::finish();
    return 0;
}
