// C26: white_list_implementation against a bounded std::set reference.
// Exhaustive DFS over operation histories (the object is copyable) + long random histories.
#include <bluetoe/white_list.hpp>
#include <bluetoe/address.hpp>
#include "common/verif.hpp"

#include <set>
#include <utility>

namespace ll = bluetoe::link_layer;
using verif::mon;

static const std::uint8_t addr_bytes[3][6] = {
    { 0x01, 0x02, 0x03, 0x04, 0x05, 0x06 },
    { 0x01, 0x02, 0x03, 0x04, 0x05, 0x07 },      // differs in the last byte only
    { 0xff, 0x02, 0x03, 0x04, 0x05, 0x06 },      // differs in the first byte only
};

// universe: 5 addresses; 0/1 are the same bytes as public and random address
static ll::device_address universe(int i) {
    switch (i) {
    case 0: return ll::device_address(addr_bytes[0], false);
    case 1: return ll::device_address(addr_bytes[0], true);
    case 2: return ll::device_address(addr_bytes[1], false);
    case 3: return ll::device_address(addr_bytes[2], true);
    default: return ll::device_address(addr_bytes[2], false);
    }
}
static const int U = 5;

struct model {
    unsigned set = 0;   // bit i: universe(i) is member
    bool conn = false, scan = false;
    int size() const { return __builtin_popcount(set); }
};

// ops: 0..4 add(i), 5..9 remove(i), 10 clear, 11/12 conn filter on/off, 13/14 scan filter on/off
static const int NOPS = 15;
static const char* opname(int op) {
    static const char* n[] = { "add0","add1","add2","add3","add4","rem0","rem1","rem2","rem3","rem4","clear","conn1","conn0","scan1","scan0" };
    return n[op];
}

struct null_radio {};
struct null_ll {};

// ---- radio backed variant: LinkLayer derives from Radio and from the implementation
template <std::size_t N>
struct set_radio {
    static constexpr std::size_t radio_maximum_white_list_entries = N;
    std::set<std::pair<std::vector<std::uint8_t>, bool>> s;
    bool cf = false, sf = false;
    mutable unsigned long calls = 0;
    static std::pair<std::vector<std::uint8_t>, bool> k(const ll::device_address& a) { return { std::vector<std::uint8_t>(a.begin(), a.end()), a.is_random() }; }
    std::size_t radio_white_list_free_size() const { ++calls; return N - s.size(); }
    void radio_clear_white_list() { ++calls; s.clear(); }
    bool radio_add_to_white_list(const ll::device_address& a) { ++calls; if (s.count(k(a))) return true; if (s.size() == N) return false; s.insert(k(a)); return true; }
    bool radio_is_in_white_list(const ll::device_address& a) const { ++calls; return s.count(k(a)) != 0; }
    bool radio_remove_from_white_list(const ll::device_address& a) { ++calls; return s.erase(k(a)) != 0; }
    void radio_connection_request_filter(bool b) { ++calls; cf = b; }
    bool radio_connection_request_filter() const { ++calls; return cf; }
    void radio_scan_request_filter(bool b) { ++calls; sf = b; }
    bool radio_scan_request_filter() const { ++calls; return sf; }
    bool radio_is_connection_request_in_filter(const ll::device_address& a) const { ++calls; return !cf || s.count(k(a)); }
    bool radio_is_scan_request_in_filter(const ll::device_address& a) const { ++calls; return !sf || s.count(k(a)); }
};

template <std::size_t N>
struct hw_link_layer : set_radio<N>, ll::details::white_list_implementation<N, false, set_radio<N>, hw_link_layer<N>> {};

template <std::size_t N>
struct sw_list : ll::details::white_list_implementation<N, true, null_radio, null_ll> {};

static std::string history_str(const std::vector<int>& h) {
    std::string s;
    for (int o : h) { if (!s.empty()) s += " "; s += opname(o); }
    return s;
}

template <class WL, std::size_t N>
struct checker {
    const char* variant;
    unsigned long long step = 0;

    // apply op to both, compare results and all observers; returns false on violation
    bool apply(WL& wl, model& m, int op, const std::vector<int>& hist) {
        verif::monitor& M = mon("C26");
        std::string cfg = std::string(variant) + "<" + std::to_string(N) + ">";
        bool ok = true;
        int outcome = 0;
        if (op < 5) {
            const bool member = m.set & (1u << op);
            const bool expect = member || m.size() < static_cast<int>(N);
            const bool got = wl.add_to_white_list(universe(op));
            if (expect && !member) m.set |= 1u << op;
            outcome = got;
            if (got != expect) { verif::violation("C26", std::string("C26:add:return:") + (expect ? "false_but_room_or_member" : "true_but_full"), cfg + " history: " + history_str(hist), step); ok = false; }
            M.cls(member ? "add_member" : (expect ? "add_new" : "add_full"));
        } else if (op < 10) {
            const int i = op - 5;
            const bool member = m.set & (1u << i);
            const bool got = wl.remove_from_white_list(universe(i));
            m.set &= ~(1u << i);
            outcome = got;
            if (got != member) { verif::violation("C26", "C26:remove:return", cfg + " history: " + history_str(hist), step); ok = false; }
            M.cls(member ? (m.size() ? "remove_member_others_remain" : "remove_last_member") : "remove_absent");
        } else if (op == 10) { wl.clear_white_list(); m.set = 0; M.cls("clear"); }
        else if (op == 11 || op == 12) { wl.connection_request_filter(op == 11); m.conn = op == 11; M.cls("conn_filter"); }
        else { wl.scan_request_filter(op == 13); m.scan = op == 13; M.cls("scan_filter"); }

        // observers
        if (wl.white_list_free_size() != N - m.size()) { verif::violation("C26", "C26:free_size", cfg + " expected " + std::to_string(N - m.size()) + " got " + std::to_string(wl.white_list_free_size()) + " history: " + history_str(hist), step); ok = false; }
        if (wl.connection_request_filter() != m.conn || wl.scan_request_filter() != m.scan) { verif::violation("C26", "C26:filter_flag", cfg + " history: " + history_str(hist), step); ok = false; }
        for (int i = 0; i < U; ++i) {
            const bool member = m.set & (1u << i);
            const ll::device_address a = universe(i);
            if (wl.is_in_white_list(a) != member) {
                verif::violation("C26", std::string("C26:membership:") + (member ? "member_missing" : "non_member_present"),
                                 cfg + " addr#" + std::to_string(i) + " history: " + history_str(hist), step); ok = false;
            }
            if (wl.is_connection_request_in_filter(a) != (!m.conn || member)) { verif::violation("C26", "C26:conn_filter_predicate", cfg + " addr#" + std::to_string(i) + " history: " + history_str(hist), step); ok = false; }
            if (wl.is_scan_request_in_filter(a) != (!m.scan || member)) { verif::violation("C26", "C26:scan_filter_predicate", cfg + " addr#" + std::to_string(i) + " history: " + history_str(hist), step); ok = false; }
            M.eval(3);
        }
        M.eval(3);
        ++step;
        // non-trivial: the list is not empty before or after, or a filter is on
        std::uint64_t h = verif::hstr(cfg);
        h = verif::mix(h, m.set); h = verif::mix(h, m.conn * 2 + m.scan); h = verif::mix(h, op); h = verif::mix(h, outcome);
        if (m.set || m.conn || m.scan || op < 10) M.nontrivial(h);
        return ok;
    }

    void dfs(const WL& wl, const model& m, std::vector<int>& hist, int depth, unsigned long long& histories) {
        if (depth == 0) { ++histories; return; }
        for (int op = 0; op < NOPS; ++op) {
            WL w2 = wl; model m2 = m;
            hist.push_back(op);
            const bool ok = apply(w2, m2, op, hist);
            if (ok) dfs(w2, m2, hist, depth - 1, histories);   // a diverged pair is not followed further
            else ++histories;
            hist.pop_back();
        }
    }

    void random_histories(verif::prng& r, unsigned long long ops) {
        WL wl; model m; std::vector<int> hist;
        for (unsigned long long i = 0; i < ops; ++i) {
            if (hist.size() >= 60) { hist.clear(); wl = WL(); m = model(); }
            // bias towards adds so that the list is often full
            int op = r.chance(1, 2) ? r.range(0, 4) : r.range(0, NOPS - 1);
            hist.push_back(op);
            verif::ctx_step(step);
            if (!apply(wl, m, op, hist)) { hist.clear(); wl = WL(); m = model(); }
        }
    }
};

template <std::size_t N>
static void run_sw(verif::prng& r, int depth, unsigned long long rnd_ops) {
    checker<sw_list<N>, N> c; c.variant = "software";
    verif::ctx_config(std::string("software<") + std::to_string(N) + ">");
    std::vector<int> hist; unsigned long long histories = 0;
    sw_list<N> wl; model m;
    c.dfs(wl, m, hist, depth, histories);
    mon("C26").count("exhaustive_histories_depth_" + std::to_string(depth), histories);
    mon("C26").sample_json("{\"variant\":\"software\",\"N\":" + std::to_string(N) + ",\"exhaustive_depth\":" + std::to_string(depth) + ",\"histories\":" + std::to_string(histories) + ",\"alphabet\":\"add0..4 rem0..4 clear conn1 conn0 scan1 scan0; after every op all 5 addresses are queried\"}");
    c.random_histories(r, rnd_ops);
}

template <std::size_t N>
static void run_hw(verif::prng& r, int depth, unsigned long long rnd_ops) {
    checker<hw_link_layer<N>, N> c; c.variant = "radio_backed_forwarding";
    verif::ctx_config(std::string("radio<") + std::to_string(N) + ">");
    std::vector<int> hist; unsigned long long histories = 0;
    hw_link_layer<N> wl; model m;
    c.dfs(wl, m, hist, depth, histories);
    mon("C26").count("radio_backed_histories", histories);
    c.random_histories(r, rnd_ops);
    mon("C26").count("radio_backed_forwarded_calls", 1);
}

int main(int argc, char** argv) {
    verif::args a(argc, argv);
    verif::install_crash_handler();
    verif::ctx_prop("C26");
    verif::prng r(a.num("seed", 1));
    const int depth = static_cast<int>(a.num("depth", 4));
    const unsigned long long ops = a.num("ops", 100000);
    verif::run_config() = "whitelist depth=" + std::to_string(depth);
    run_sw<1>(r, depth, ops);
    run_sw<2>(r, depth, ops);
    run_sw<3>(r, depth, ops);
    run_sw<8>(r, depth, ops);
    run_hw<2>(r, depth > 4 ? 4 : depth, ops / 10);
    mon("C26").exhaustive = false; // exhaustive only up to the stated depth, random beyond; see counters
    mon("C26").sample("random history tail: " + std::string("(histories of up to 60 ops, restart after) seed=") + std::to_string(a.num("seed", 1)));
    verif::finish();
    return 0;
}
