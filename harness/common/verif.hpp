// Shared monitor library for all harnesses: PRNG, JSON-lines event output, violation sink,
// coverage accounting, crash context.  No Bluetoe header is included from here.
#ifndef VERIF_COMMON_VERIF_HPP
#define VERIF_COMMON_VERIF_HPP

#include <cstdint>
#include <cstdio>
#include <cstdlib>
#include <cstring>
#include <csignal>
#include <string>
#include <vector>
#include <map>
#include <set>
#include <unordered_set>
#include <sstream>
#include <unistd.h>
#include <sys/time.h>

namespace verif {

// ---------------------------------------------------------------- PRNG (xoshiro256**)
struct prng {
    std::uint64_t s[4];
    static std::uint64_t splitmix(std::uint64_t& x) {
        std::uint64_t z = (x += 0x9e3779b97f4a7c15ull);
        z = (z ^ (z >> 30)) * 0xbf58476d1ce4e5b9ull;
        z = (z ^ (z >> 27)) * 0x94d049bb133111ebull;
        return z ^ (z >> 31);
    }
    explicit prng(std::uint64_t seed = 1) { reseed(seed); }
    void reseed(std::uint64_t seed) { for (auto& v : s) v = splitmix(seed); }
    static std::uint64_t rotl(std::uint64_t x, int k) { return (x << k) | (x >> (64 - k)); }
    std::uint64_t next() {
        const std::uint64_t result = rotl(s[1] * 5, 7) * 9, t = s[1] << 17;
        s[2] ^= s[0]; s[3] ^= s[1]; s[1] ^= s[2]; s[0] ^= s[3]; s[2] ^= t; s[3] = rotl(s[3], 45);
        return result;
    }
    // uniform in [0, n)
    std::uint32_t below(std::uint32_t n) { return n ? static_cast<std::uint32_t>((next() >> 11) % n) : 0; }
    // uniform in [lo, hi]
    int range(int lo, int hi) { return lo + static_cast<int>(below(static_cast<std::uint32_t>(hi - lo + 1))); }
    bool chance(unsigned num, unsigned den) { return below(den) < num; }
    std::uint8_t byte() { return static_cast<std::uint8_t>(next() >> 24); }
    template <class T> const T& pick(const std::vector<T>& v) { return v[below(static_cast<std::uint32_t>(v.size()))]; }
};

// ---------------------------------------------------------------- helpers
inline std::string hex(const std::uint8_t* p, std::size_t n) {
    static const char* d = "0123456789abcdef";
    std::string r; r.reserve(n * 2);
    for (std::size_t i = 0; i < n; ++i) { r.push_back(d[p[i] >> 4]); r.push_back(d[p[i] & 15]); }
    return r;
}
inline std::string hex(const std::vector<std::uint8_t>& v) { return hex(v.data(), v.size()); }

inline std::string jesc(const std::string& s) {
    std::string r; r.reserve(s.size() + 2);
    for (unsigned char c : s) {
        if (c == '"' || c == '\\') { r.push_back('\\'); r.push_back(static_cast<char>(c)); }
        else if (c < 0x20) { char b[8]; std::snprintf(b, sizeof b, "\\u%04x", c); r += b; }
        else r.push_back(static_cast<char>(c));
    }
    return r;
}

inline std::uint64_t fnv(const void* p, std::size_t n, std::uint64_t h = 0xcbf29ce484222325ull) {
    const unsigned char* c = static_cast<const unsigned char*>(p);
    for (std::size_t i = 0; i < n; ++i) { h ^= c[i]; h *= 0x100000001b3ull; }
    return h;
}
inline std::uint64_t mix(std::uint64_t h, std::uint64_t v) { return fnv(&v, sizeof v, h); }
inline std::uint64_t hstr(const std::string& s) { return fnv(s.data(), s.size()); }

// ---------------------------------------------------------------- crash context
// A sanitizer report ends in abort(); the handler below writes what the harness was doing so the
// driver can attribute the report to a property and a step.
struct crash_context {
    char prop[8];
    char config[96];
    unsigned long long step;
    char op[400];
};
inline crash_context& ctx() { static crash_context c = { "", "", 0, "" }; return c; }
inline void ctx_prop(const char* p) { std::snprintf(ctx().prop, sizeof ctx().prop, "%s", p); }
inline void ctx_config(const std::string& c) { std::snprintf(ctx().config, sizeof ctx().config, "%s", c.c_str()); }
inline void ctx_step(unsigned long long s) { ctx().step = s; }
inline void ctx_op(const char* fmt, const std::uint8_t* bytes = nullptr, std::size_t n = 0) {
    int k = std::snprintf(ctx().op, sizeof ctx().op, "%s", fmt);
    if (bytes && k > 0) {
        static const char* d = "0123456789abcdef";
        std::size_t pos = static_cast<std::size_t>(k);
        if (pos < sizeof ctx().op - 1) ctx().op[pos++] = ' ';
        for (std::size_t i = 0; i < n && pos + 2 < sizeof ctx().op; ++i) {
            ctx().op[pos++] = d[bytes[i] >> 4]; ctx().op[pos++] = d[bytes[i] & 15];
        }
        ctx().op[pos] = 0;
    }
}
inline void crash_handler(int sig) {
    char buf[700];
    int n = std::snprintf(buf, sizeof buf,
        "\n{\"t\":\"crash\",\"sig\":%d,\"prop\":\"%s\",\"config\":\"%s\",\"step\":%llu,\"op\":\"%s\"}\n",
        sig, ctx().prop, ctx().config, ctx().step, ctx().op);
    if (n > 0) { ssize_t r = write(1, buf, static_cast<std::size_t>(n)); (void)r; }
    std::signal(sig, SIG_DFL);
    raise(sig);
}
// hang detection on CPU time (not wall clock): an operation on the code under test that burns more than the armed
// number of CPU seconds is reported like a crash with signal SIGVTALRM ("hang")
inline void arm_hang_timer(unsigned cpu_seconds) {
    struct itimerval t; std::memset(&t, 0, sizeof t); t.it_value.tv_sec = cpu_seconds;
    setitimer(ITIMER_VIRTUAL, &t, nullptr);
}
inline void disarm_hang_timer() { arm_hang_timer(0); }

inline void install_crash_handler() {
    std::signal(SIGVTALRM, crash_handler);
    std::signal(SIGABRT, crash_handler);
    std::signal(SIGSEGV, crash_handler);
    std::signal(SIGBUS, crash_handler);
    std::signal(SIGFPE, crash_handler);
    std::signal(SIGILL, crash_handler);
}

// ---------------------------------------------------------------- monitors
struct monitor {
    std::string prop;
    unsigned long long evaluations = 0;
    std::unordered_set<std::uint64_t> distinct;      // hashes of non-trivial (state, input, outcome) classes
    std::map<std::string, unsigned long long> classes;
    std::map<std::string, unsigned long long> counters;
    std::vector<std::string> samples;                 // JSON values (already encoded)
    std::map<std::string, unsigned long long> viol_count;
    unsigned long long violations = 0;
    bool exhaustive = false;

    static const std::size_t distinct_cap = 60000;

    void eval(unsigned long long n = 1) { evaluations += n; }
    void nontrivial(std::uint64_t h) { if (distinct.size() < distinct_cap) distinct.insert(h); }
    void cls(const std::string& c, unsigned long long n = 1) { classes[c] += n; }
    void count(const std::string& c, unsigned long long n = 1) { counters[c] += n; }
    // sample: raw JSON value
    void sample_json(const std::string& js, std::size_t max = 6) { if (samples.size() < max) samples.push_back(js); }
    void sample(const std::string& text, std::size_t max = 6) { if (samples.size() < max) samples.push_back("\"" + jesc(text) + "\""); }
};

inline std::map<std::string, monitor>& monitors() { static std::map<std::string, monitor> m; return m; }
inline monitor& mon(const std::string& prop) {
    monitor& m = monitors()[prop];
    if (m.prop.empty()) m.prop = prop;
    return m;
}

inline std::string& run_config() { static std::string c; return c; }

// A violation: reported at most `max_per_key` times per key in detail, counted always.
inline void violation(const std::string& prop, const std::string& key, const std::string& detail,
                      unsigned long long step = 0, unsigned max_per_key = 2) {
    monitor& m = mon(prop);
    ++m.violations;
    unsigned long long& c = m.viol_count[key];
    ++c;
    if (c <= max_per_key) {
        std::printf("{\"t\":\"viol\",\"prop\":\"%s\",\"key\":\"%s\",\"config\":\"%s\",\"step\":%llu,\"detail\":\"%s\"}\n",
                    prop.c_str(), jesc(key).c_str(), jesc(run_config()).c_str(), step, jesc(detail).c_str());
        std::fflush(stdout);
    }
}

inline void finish() {
    for (auto& kv : monitors()) {
        monitor& m = kv.second;
        std::string s = "{\"t\":\"mon\",\"prop\":\"" + m.prop + "\",\"config\":\"" + jesc(run_config()) + "\"";
        s += ",\"evaluations\":" + std::to_string(m.evaluations);
        s += ",\"violations\":" + std::to_string(m.violations);
        s += std::string(",\"exhaustive\":") + (m.exhaustive ? "true" : "false");
        s += ",\"distinct\":[";
        bool first = true;
        for (auto h : m.distinct) { if (!first) s += ","; first = false; char b[24]; std::snprintf(b, sizeof b, "\"%llx\"", static_cast<unsigned long long>(h)); s += b; }
        s += "],\"classes\":{";
        first = true;
        for (auto& c : m.classes) { if (!first) s += ","; first = false; s += "\"" + jesc(c.first) + "\":" + std::to_string(c.second); }
        s += "},\"counters\":{";
        first = true;
        for (auto& c : m.counters) { if (!first) s += ","; first = false; s += "\"" + jesc(c.first) + "\":" + std::to_string(c.second); }
        s += "},\"viol_keys\":{";
        first = true;
        for (auto& c : m.viol_count) { if (!first) s += ","; first = false; s += "\"" + jesc(c.first) + "\":" + std::to_string(c.second); }
        s += "},\"samples\":[";
        first = true;
        for (auto& c : m.samples) { if (!first) s += ","; first = false; s += c; }
        s += "]}";
        std::puts(s.c_str());
    }
    std::puts("{\"t\":\"done\"}");
    std::fflush(stdout);
}

// ---------------------------------------------------------------- argument parsing: --key=value
struct args {
    std::map<std::string, std::string> kv;
    args(int argc, char** argv) {
        for (int i = 1; i < argc; ++i) {
            std::string a = argv[i];
            if (a.rfind("--", 0) == 0) {
                std::size_t eq = a.find('=');
                if (eq == std::string::npos) kv[a.substr(2)] = "1";
                else kv[a.substr(2, eq - 2)] = a.substr(eq + 1);
            }
        }
    }
    bool has(const std::string& k) const { return kv.count(k) != 0; }
    std::string str(const std::string& k, const std::string& d = "") const { auto i = kv.find(k); return i == kv.end() ? d : i->second; }
    unsigned long long num(const std::string& k, unsigned long long d = 0) const { auto i = kv.find(k); return i == kv.end() ? d : std::strtoull(i->second.c_str(), nullptr, 0); }
};

// ---------------------------------------------------------------- exact-size heap buffer (ASan red zones on both sides)
struct exact_buffer {
    std::uint8_t* p; std::size_t n;
    explicit exact_buffer(std::size_t size, std::uint8_t fill = 0xA5) : p(new std::uint8_t[size ? size : 1]), n(size) { std::memset(p, fill, size ? size : 1); }
    exact_buffer(const std::uint8_t* src, std::size_t size) : p(new std::uint8_t[size ? size : 1]), n(size) { if (size) std::memcpy(p, src, size); }
    ~exact_buffer() { delete[] p; }
    exact_buffer(const exact_buffer&) = delete; exact_buffer& operator=(const exact_buffer&) = delete;
    // for size 0 the pointer points to the END of a 1-byte block so that any access is out of bounds
    std::uint8_t* data() { return n ? p : p + 1; }
};

} // namespace verif

#endif
