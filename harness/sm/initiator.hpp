// SMP initiator (central) model + monitors for C32..C35.
//
// The initiator can run every pairing protocol correctly with the reference cryptography of /verif/refimpl
// (legacy Just Works / passkey / OOB through the choice of TK; LESC Just Works / numeric comparison (same PDUs),
// passkey entry (f4 commitments with the passkey bits), OOB (ra / rb in f6)) and can deviate at any step.
// The monitors judge what the peripheral (the security manager under test, behind smh::sm_port) does, from the
// PDUs on the wire and the public accessors only.  Oracle: Core Vol 3 Part H 2.3.5, C.2.2 + refimpl; no expression
// of security_manager.hpp is re-stated here.
#ifndef VERIF_SM_INITIATOR_HPP
#define VERIF_SM_INITIATOR_HPP

#include "sm_env.hpp"
#include "sm_tables.hpp"

#include "smp_crypto.hpp"
#include "p256.hpp"

#include <map>

namespace smh {

typedef std::vector<std::uint8_t> bytes;

enum kind { K_REQ_LEGACY, K_REQ_LESC, K_CONFIRM, K_RANDOM, K_PUBKEY, K_DHKEY, K_UNKNOWN, K_COUNT };
enum cls  { C_VALID, C_LEN, C_FIELD, C_VALUE, C_COUNT };
inline const char* kind_name(int k) { static const char* n[] = { "req_legacy", "req_lesc", "confirm", "random", "public_key", "dhkey_check", "unknown_opcode" }; return n[k]; }
inline const char* cls_name(int c) { static const char* n[] = { "valid", "wrong_length", "invalid_field", "wrong_value" }; return n[c]; }

// when / how the user of the peripheral answers a numeric comparison question
enum user_policy { U_SYNC_YES, U_SYNC_NO, U_ASYNC_YES_BEFORE, U_ASYNC_YES_BETWEEN, U_ASYNC_YES_AFTER, U_ASYNC_NO_BEFORE,
                   U_ASYNC_NO_AFTER, U_NEVER, U_COUNT };
inline const char* policy_name(int p) { static const char* n[] = { "sync_yes", "sync_no", "async_yes_before_dhkey", "async_yes_between_dhkey_and_poll",
    "async_yes_after_dhkey", "async_no_before_dhkey", "async_no_after_dhkey", "never" }; return n[p]; }

// monitor states (what the peripheral is expected to be waiting for)
enum mstate { MS_IDLE, MS_L_REQ, MS_L_CONF, MS_S_REQ, MS_S_PK_NOCONF, MS_S_PK, MS_S_RAND, MS_S_WAIT_EB, MS_DONE, MS_COUNT };
inline const char* ms_name(int s) { static const char* n[] = { "idle", "legacy_requested", "legacy_confirmed", "lesc_requested",
    "lesc_keys_exchanged_confirm_due", "lesc_confirm_sent", "lesc_random_exchanged", "lesc_dhkey_received_eb_due", "completed" }; return n[s]; }

enum legacy_tk_choice { IT_ZERO, IT_DISPLAYED, IT_KEYBOARD, IT_OOB, IT_WRONG, IT_COUNT };
enum lesc_proto_choice { IP_JW, IP_PASSKEY, IP_OOB, IP_COUNT };

struct context {                 // one pairing attempt's parameters (chosen by the workload)
    std::uint8_t rio = 3, oobf = 0, authreq = 0, keysize = 16, ikd = 0, rkd = 0;
    bool local_oob = false;
    int  policy = U_SYNC_YES;
    int  tk_choice = IT_ZERO;
    int  lesc_choice = IP_JW;
};

struct peer_keys { std::uint8_t priv[32]; std::uint8_t pub[64]; };

inline u128 passkey_tk(std::uint32_t pk) { u128 r = u128{{0}}; r[0] = pk & 0xff; r[1] = (pk >> 8) & 0xff; r[2] = (pk >> 16) & 0xff; r[3] = (pk >> 24) & 0xff; return r; }

class session {
public:
    session(sm_port& p, verif::prng& r) : port(p), rng(r) {}

    // ------------------------------------------------------------------------------------------ set up
    static std::vector<peer_keys>& initiator_pool() { static std::vector<peer_keys> p; return p; }
    static void make_initiator_pool(std::size_t n, std::uint64_t seed)
    {
        verif::prng r(seed ^ 0x1111);
        initiator_pool().clear();
        while (initiator_pool().size() < n) {
            peer_keys k;
            for (int i = 0; i < 32; ++i) k.priv[i] = r.byte();
            if (!refimpl::p256_public_key_le(k.priv, k.pub)) continue;
            initiator_pool().push_back(k);
        }
    }

    static const int PEERS = 3;
    static void peer_bytes(int i, std::uint8_t a[6], bool& random)
    {
        static const std::uint8_t b[PEERS][6] = { { 0xa1, 0xa2, 0xa3, 0xa4, 0xa5, 0xa6 }, { 0xa1, 0xa2, 0xa3, 0xa4, 0xa5, 0xa6 }, { 0xa1, 0xa2, 0xa3, 0xa4, 0xa5, 0xc6 } };
        std::copy(b[i], b[i] + 6, a);
        random = i != 1;       // peers 0 and 1 share the bytes and differ in the address type
    }

    void set_local_address(bool random)
    {
        static const std::uint8_t l[6] = { 0xb1, 0xb2, 0xb3, 0xb4, 0xb5, 0xb6 };
        local = refimpl::make_address(random, l);
        port.local_address(addr_t(l, random));
    }

    // link layer: CONNECT_IND: fresh connection data
    void connect(int peer_index)
    {
        std::uint8_t a[6]; bool rnd;
        peer_bytes(peer_index, a, rnd);
        peer = peer_index;
        remote = refimpl::make_address(rnd, a);
        verif::ctx_op("reconnect");
        port.reconnect(addr_t(a, rnd));
        note("connect peer#" + std::to_string(peer_index));
        ms = MS_IDLE; exch_active = false; tainted = false; unmodelled = false; peripheral_completed_alone = false;
        completed_on_conn = false; disturbed = false; expected_status = 0; pairings_completed = 0;
        last_failed = false; ever_exchange = false;
        have_armed = false; encinfo_sent = 0; centralid_sent = 0;
        // link_layer re-uses the connection data object: a response object the application stored stays usable
        if (io_env.pending) { stale_response = io_env.pending; io_env.pending = nullptr; }
        late_answer_given = false;
        io_env.answered = -2;
        encrypted_model = false;
        after_action();
    }

    void new_context(const context& c)
    {
        ctx = c;
        io_env.oob_present = c.local_oob && port.oob;
        io_env.sync_answer = c.policy == U_SYNC_YES ? 1 : c.policy == U_SYNC_NO ? 0 : -1;
    }

    // ------------------------------------------------------------------------------------------ PDU construction
    bytes build(int k, int c)
    {
        bytes b;
        switch (k) {
        case K_REQ_LEGACY: case K_REQ_LESC: {
            std::uint8_t ar = ctx.authreq;
            if (k == K_REQ_LESC) ar |= 0x08; else ar &= ~0x08;
            b = { 0x01, ctx.rio, ctx.oobf, ar, ctx.keysize, ctx.ikd, ctx.rkd };
            if (c == C_LEN) { mutate_len(b); }
            else if (c == C_FIELD) {
                switch (rng.below(4)) {
                // boundary values half of the time
                case 0: b[1] = static_cast<std::uint8_t>(rng.chance(1, 2) ? 5 : 5 + rng.below(251)); break;     // IO capability: reserved value
                case 1: b[2] = static_cast<std::uint8_t>(rng.chance(1, 2) ? 2 : 2 + rng.below(254)); break;     // OOB data flag: reserved value
                case 2: b[4] = static_cast<std::uint8_t>(rng.chance(1, 2) ? 6 : rng.below(7)); break;           // key size < 7
                default: b[4] = static_cast<std::uint8_t>(rng.chance(1, 2) ? 17 : 17 + rng.below(239)); break;  // key size > 16
                }
            }
            else if (c == C_VALUE) {      // reserved-for-future-use bits of the key distribution fields
                if (rng.chance(1, 2)) b[5] |= static_cast<std::uint8_t>(0x10 << rng.below(4)); else b[6] |= static_cast<std::uint8_t>(0x10 << rng.below(4));
            }
            break; }
        case K_CONFIRM: {
            b.assign(17, 0); b[0] = 0x03;
            if (ms == MS_L_REQ && c != C_VALUE) {
                for (auto& x : mrand) x = rng.byte();
                tk_i = initiator_tk();
                const u128 mc = refimpl::c1(tk_i, mrand, preq, pres, remote, local);
                std::copy(mc.begin(), mc.end(), b.begin() + 1);
                have_mrand = true;
            } else if ((ms == MS_S_PK || ms == MS_S_PK_NOCONF) && ctx.lesc_choice == IP_PASSKEY && c != C_VALUE) {
                // first round of LESC passkey entry: Cai = f4(PKax, PKbx, Nai, 0x80 | bit 0 of the passkey)
                for (auto& x : na) x = rng.byte();
                const std::uint32_t pk = lesc_passkey();
                const u128 ca = refimpl::f4(pool()[ikey].pub, pkb, na, static_cast<std::uint8_t>(0x80 | (pk & 1)));
                std::copy(ca.begin(), ca.end(), b.begin() + 1);
            } else {
                for (std::size_t i = 1; i < b.size(); ++i) b[i] = rng.byte();
                if (ms == MS_L_REQ) { for (auto& x : mrand) x = rng.byte(); have_mrand = true; }   // committed to garbage
            }
            if (c == C_LEN) mutate_len(b);
            break; }
        case K_RANDOM: {
            b.assign(17, 0); b[0] = 0x04;
            u128 v;
            if (ms == MS_L_CONF && have_mrand && c != C_VALUE) v = mrand;
            else { for (auto& x : v) x = rng.byte(); }
            if (proto_lesc && (ms == MS_S_PK || ms == MS_S_PK_NOCONF)) na = v;
            std::copy(v.begin(), v.end(), b.begin() + 1);
            if (c == C_LEN) mutate_len(b);
            break; }
        case K_PUBKEY: {
            b.assign(65, 0); b[0] = 0x0c;
            const int idx = static_cast<int>(rng.below(static_cast<std::uint32_t>(pool().size())));
            std::copy(pool()[idx].pub, pool()[idx].pub + 64, b.begin() + 1);
            if (c == C_FIELD) {
                switch (rng.below(4)) {
                case 0: b[1 + 32 + rng.below(32)] ^= static_cast<std::uint8_t>(1u << rng.below(8)); break;    // Y off the curve
                case 1: b[1 + rng.below(32)] ^= static_cast<std::uint8_t>(1u << rng.below(8)); break;         // X changed
                case 2: std::fill(b.begin() + 1, b.end(), 0); break;                                           // (0, 0)
                default: std::fill(b.begin() + 1, b.begin() + 33, 0xff); break;                                // X >= p
                }
            }
            if (ms == MS_S_REQ) ikey = idx;
            if (c == C_LEN) mutate_len(b);
            break; }
        case K_DHKEY: {
            b.assign(17, 0); b[0] = 0x0d;
            if (ms == MS_S_RAND && c != C_VALUE) {
                const u128 ea = expected_ea(initiator_rb());
                std::copy(ea.begin(), ea.end(), b.begin() + 1);
            } else if (ms == MS_S_RAND && rng.chance(1, 2)) {
                const u128 ea = expected_ea(initiator_rb());
                std::copy(ea.begin(), ea.end(), b.begin() + 1);
                b[1 + rng.below(16)] ^= static_cast<std::uint8_t>(1u << rng.below(8));
            } else {
                for (std::size_t i = 1; i < b.size(); ++i) b[i] = rng.byte();
            }
            if (c == C_LEN) mutate_len(b);
            break; }
        default: {
            static const std::uint8_t ops[] = { 0x00, 0x02, 0x05, 0x06, 0x07, 0x08, 0x09, 0x0a, 0x0b, 0x0e, 0x0f, 0x10, 0x7f, 0x80, 0xff };
            static const std::size_t lens[] = { 1, 2, 7, 11, 17, 23, 65, 66 };
            b.assign(lens[rng.below(sizeof lens / sizeof lens[0])], 0);
            for (auto& x : b) x = rng.byte();
            b[0] = ops[rng.below(sizeof ops)];
            break; }
        }
        return b;
    }

    // the PDU the protocol wants next from the central; false when the central has nothing to send
    bool next_valid(bytes& b, int& k)
    {
        switch (ms) {
        case MS_IDLE: case MS_DONE: k = want_lesc() ? K_REQ_LESC : K_REQ_LEGACY; break;
        case MS_L_REQ: k = K_CONFIRM; break;
        case MS_L_CONF: k = K_RANDOM; break;
        case MS_S_REQ: k = K_PUBKEY; break;
        case MS_S_PK: k = (ctx.lesc_choice == IP_PASSKEY) ? K_CONFIRM : K_RANDOM; break;
        case MS_S_RAND: k = K_DHKEY; break;
        default: return false;          // confirm due / Eb due: the central waits
        }
        b = build(k, C_VALID);
        return true;
    }

    bool want_lesc() const { return port.variant == V_LESC || (port.variant == V_COMBINED && (ctx.authreq & 0x08)); }

    // ------------------------------------------------------------------------------------------ actions
    // feed one PDU into l2cap_input and judge the answer
    void send(const bytes& in, int k = -1, int c = -1)
    {
        ++step_no;
        verif::monitor& M = verif::mon("C32");
        const int verdict = classify(in);
        const int ms_before = ms;
        const bool lesc_before = proto_lesc;
        const unsigned yn_before = io_env.yes_no_calls;

        verif::exact_buffer ib(in.data(), in.size());
        verif::exact_buffer ob(port.mtu);
        std::size_t out_n = port.mtu;
        verif::ctx_op("l2cap_input", in.data(), in.size());
        port.input(ib.data(), in.size(), ob.data(), out_n);
        if (out_n > port.mtu) { viol("C32", "C32:output:size_exceeds_buffer", "out_size " + std::to_string(out_n)); out_n = port.mtu; }
        const bytes out(ob.data(), ob.data() + out_n);
        note("> " + verif::hex(in) + " < " + verif::hex(out));
        if (io_env.yes_no_calls != yn_before) user_asked = true;

        const bool failed = out.size() == 2 && out[0] == 0x05;
        const bool skip = tainted || unmodelled;
        int outcome = failed ? 1 : out.empty() ? 2 : 0;

        if (failed) {
            // pairing is over; a completed pairing may have been given up by the peripheral
            if (!skip) {
                if ((verdict == VD_ACCEPT || verdict == VD_SILENT) && !accept_may_fail(in)) {
                    viol("C32", std::string("C32:order:valid_refused:") + op_name(in) + ":" + ms_name(ms_before),
                         "in-order valid PDU answered with Pairing Failed " + verif::hex(out));
                    outcome = 3;
                }
            }
            reset_to_idle();
        } else {
            bool advanced = false;
            if (verdict == VD_REJECT && !skip) {
                if (out.empty() && deferred_refusal_ok(in)) {
                    deferred_fail = true; ea_state = EA_WRONG; ms = MS_S_WAIT_EB;   // wrong DHKey check while the user is being asked
                    advanced = true;
                } else {
                    viol("C32", std::string("C32:order:not_refused:") + op_name(in) + ":" + reject_reason + ":" + ms_name(ms_before),
                         "expected Pairing Failed, got " + (out.empty() ? std::string("no answer") : verif::hex(out)));
                    outcome = 4;
                    tainted = true;
                }
            }
            if (!advanced) advance(in, out, verdict);
        }
        M.eval();
        if (k >= 0) M.cls(std::string(kind_name(k)) + ":" + cls_name(c));
        M.cls(std::string("at:") + ms_name(ms_before));
        M.cls(verdict == VD_ACCEPT ? "expect_accept" : verdict == VD_REJECT ? "expect_refuse" : verdict == VD_SILENT ? "expect_deferred" : "expect_either");
        std::uint64_t h = verif::hstr(port.name);
        h = verif::mix(h, ms_before); h = verif::mix(h, lesc_before); h = verif::mix(h, in.empty() ? 0x100 : in[0]); h = verif::mix(h, in.size());
        h = verif::mix(h, verdict); h = verif::mix(h, outcome); h = verif::mix(h, io_env.answered + 2);
        if (ms_before != MS_IDLE || verdict != VD_REJECT) M.nontrivial(h);
        drain_bond_log();
        after_action();
    }

    // link layer: transmit_pending_l2cap_output: poll until nothing is pending
    // poll_one(): the link layer had only one free transmit buffer (transmit_pending_l2cap_output() stops after one PDU);
    // whatever else is pending stays pending across the next state change
    void poll_one() { poll(1); verif::mon("C34").cls("poll_single_pdu"); }
    void poll(int max_pdus = 8)
    {
        ++step_no;
        for (int i = 0; i < max_pdus; ++i) {
            verif::exact_buffer ob(port.mtu);
            std::size_t out_n = port.mtu;
            verif::ctx_op("l2cap_output");
            port.output(ob.data(), out_n);
            if (out_n > port.mtu) { viol("C32", "C32:output:size_exceeds_buffer", "out_size " + std::to_string(out_n)); out_n = port.mtu; }
            verif::mon("C34").eval();
            if (!encrypted_model && have_armed && encinfo_sent == 1 && centralid_sent == 0) verif::mon("C34").cls("poll_unencrypted_between_ltk_and_ediv_rand");
            if (out_n == 0 || (ob.data()[0] != 0x06 && ob.data()[0] != 0x07)) {
                // nothing distributed by this call: the situation is what makes the observation interesting
                verif::mon("C34").cls(encrypted_model ? (have_armed ? "poll_encrypted_nothing_pending_or_sent" : "poll_encrypted_never_armed") : (have_armed ? "poll_unencrypted_keys_pending" : "poll_unencrypted"));
                std::uint64_t h = verif::hstr(port.name); h = verif::mix(h, encrypted_model); h = verif::mix(h, completed_on_conn); h = verif::mix(h, have_armed);
                h = verif::mix(h, encinfo_sent); h = verif::mix(h, centralid_sent); h = verif::mix(h, ms); h = verif::mix(h, out_n ? ob.data()[0] : 0x100);
                if (encrypted_model || have_armed) verif::mon("C34").nontrivial(h);
            }
            if (out_n == 0) { drain_bond_log(); after_action(); return; }
            const bytes out(ob.data(), ob.data() + out_n);
            note("< " + verif::hex(out));
            spontaneous(out);
            drain_bond_log();
        }
        if (max_pdus >= 8) viol("C32", "C32:hang:l2cap_output_never_empty", "8 consecutive PDUs from l2cap_output");
        after_action();
    }

    bool user_pending() const { return io_env.pending != nullptr; }
    void user_answer(bool yes)
    {
        if (!io_env.pending) return;
        ++step_no;
        bluetoe::pairing_yes_no_response* r = io_env.pending;
        io_env.pending = nullptr; io_env.answered = yes ? 1 : 0;
        note(yes ? "user: yes" : "user: no");
        verif::ctx_op(yes ? "yes_no_response(true)" : "yes_no_response(false)");
        r->yes_no_response(yes);
        verif::mon("C32").cls(yes ? "user_async_yes" : "user_async_no");
        after_action();
    }
    // the application answers through the stored response object although the question is no longer open
    bool can_answer_late() const { return stale_response != nullptr && io_env.pending == nullptr; }
    void user_answer_late(bool yes)
    {
        if (!can_answer_late()) return;
        ++step_no;
        late_answer_given = true;
        if (completed_on_conn) disturbed = true;      // the peripheral may give the pairing up; offering / reporting less is not forbidden
        note(yes ? "user: late yes" : "user: late no");
        verif::ctx_op("late yes_no_response");
        stale_response->yes_no_response(yes);
        verif::mon("C32").cls("user_late_answer");
        after_action();
    }

    void set_encrypted(bool e)
    {
        ++step_no;
        verif::ctx_op(e ? "is_encrypted(true)" : "is_encrypted(false)");
        port.encrypted(e); encrypted_model = e;
        note(e ? "link encrypted" : "link unencrypted");
        after_action();
    }

    // initiator gives up (e.g. Eb did not verify): a real central sends Pairing Failed
    void send_pairing_failed(std::uint8_t reason) { bytes b = { 0x05, reason }; send(b, K_UNKNOWN, C_VALID); }

    // ------------------------------------------------------------------------------------------ observers for the workload
    int  state() const { return ms; }
    bool completed() const { return completed_on_conn; }
    bool is_lesc() const { return proto_lesc; }
    bool initiator_aborts() const { return initiator_abort; }
    void clear_abort() { initiator_abort = false; }
    bool is_tainted() const { return tainted || unmodelled; }
    const std::string& history() const { return hist; }
    smspec::selection current_selection() const { return sel; }
    int  responder_io() const { return smspec::table_2_5(port.in, port.out); }
    const std::uint8_t* response() const { return pres; }
    bool user_was_asked() const { return user_asked; }

    context ctx;
    unsigned long long step_no = 0;
    unsigned long long history_no = 0;

private:
    enum { VD_ACCEPT, VD_REJECT, VD_EITHER, VD_SILENT };
    enum { EA_NONE, EA_WRONG, EA_RIGHT };

    static std::vector<peer_keys>& pool() { return initiator_pool(); }

    void note(const std::string& s) { if (hist.size() < 6000) { hist += s; hist += " | "; } }
    void viol(const char* prop, const std::string& key, const std::string& what)
    {
        verif::violation(prop, key, what + " :: " + port.name + " peer#" + std::to_string(peer) + " req(io=" + std::to_string(ctx.rio) + ",oob=" + std::to_string(ctx.oobf)
            + ",authreq=" + std::to_string(ctx.authreq) + ") local_oob=" + std::to_string(ctx.local_oob) + " policy=" + policy_name(ctx.policy)
            + " tk_choice=" + std::to_string(ctx.tk_choice) + " lesc_choice=" + std::to_string(ctx.lesc_choice) + " monitor_state=" + ms_name(ms)
            + " :: history(#" + std::to_string(history_no) + "): " + hist, history_no);
    }

    void mutate_len(bytes& b)
    {
        switch (rng.below(5)) {
        case 0: b.pop_back(); break;
        case 1: b.push_back(rng.byte()); break;
        case 2: b.resize(1); break;
        case 3: b.resize(b.size() + 1 + rng.below(6), 0x5a); break;
        default: b.resize(b.size() > 3 ? b.size() - 2 - rng.below(2) : 1); break;
        }
    }
    static const char* op_name(const bytes& in)
    {
        if (in.empty()) return "empty";
        switch (in[0]) { case 1: return "pairing_request"; case 3: return "pairing_confirm"; case 4: return "pairing_random";
                         case 0x0c: return "public_key"; case 0x0d: return "dhkey_check"; default: return "other_opcode"; }
    }

    // ---- initiator secrets
    u128 initiator_tk()
    {
        switch (ctx.tk_choice) {
        case IT_DISPLAYED: return passkey_tk(static_cast<std::uint32_t>(port.tool_box().next_passkey));
        case IT_KEYBOARD:  return passkey_tk(static_cast<std::uint32_t>(io_env.kb_passkey));
        case IT_OOB:       return io_env.oob_data;
        case IT_WRONG:     return passkey_tk(1 + rng.below(999999));
        default:           return u128{{0}};
        }
    }
    std::uint32_t lesc_passkey() const
    {
        return sel.io_entry == smspec::passkey_responder_inputs ? static_cast<std::uint32_t>(io_env.kb_passkey) : static_cast<std::uint32_t>(port.tool_box().next_passkey);
    }
    // rb: the peripheral's OOB random as the central knows it (0 when the central has no OOB data of the peripheral)
    u128 initiator_rb()
    {
        if (ctx.lesc_choice == IP_OOB && ctx.oobf) return rb_choice;
        if (ctx.lesc_choice == IP_PASSKEY) return passkey_tk(lesc_passkey());
        return u128{{0}};
    }
    u128 initiator_ra() const
    {
        if (ctx.lesc_choice == IP_OOB && ctx.local_oob) return io_env.oob_data;
        if (ctx.lesc_choice == IP_PASSKEY) return passkey_tk(lesc_passkey());
        return u128{{0}};
    }

    const std::uint8_t* dhkey()
    {
        std::pair<int, std::array<std::uint8_t, 64>> key;
        key.first = ikey; std::copy(pkb, pkb + 64, key.second.begin());
        auto it = dh_cache.find(key);
        if (it == dh_cache.end()) {
            std::array<std::uint8_t, 32> dh;
            if (!refimpl::p256_dhkey_le(pool()[ikey].priv, pkb, dh.data())) dh.fill(0);
            verif::mon("C32").count("reference_ecdh");
            it = dh_cache.insert(std::make_pair(key, dh)).first;
        }
        return it->second.data();
    }
    std::pair<u128, u128> mackey_ltk() { return refimpl::f5(dhkey(), na, nb, remote, local); }
    u128 expected_ea(const u128& r)
    {
        const std::uint8_t iocap_a[3] = { preq[1], preq[2], preq[3] };
        return refimpl::f6(mackey_ltk().first, na, nb, r, iocap_a, remote, local);
    }
    u128 expected_eb(const u128& r)
    {
        const std::uint8_t iocap_b[3] = { pres[1], pres[2], pres[3] };
        return refimpl::f6(mackey_ltk().first, nb, na, r, iocap_b, local, remote);
    }

    // ---- legacy TK candidates: the TKs of the methods the specification allows the peripheral to use in this cell
    struct tk_candidate { u128 tk; int method; };
    std::vector<tk_candidate> tk_candidates() const
    {
        std::vector<tk_candidate> v;
        int methods[2] = { sel.strict, sel.mitm_rule_just_works ? sel.io_entry : sel.strict };
        for (int i = 0; i < 2; ++i) {
            if (i == 1 && methods[1] == methods[0]) break;
            tk_candidate c; c.method = methods[i];
            switch (methods[i]) {
            case smspec::just_works: c.tk = u128{{0}}; break;
            case smspec::oob: c.tk = io_env.oob_data; break;
            case smspec::passkey_responder_displays: c.tk = passkey_tk(static_cast<std::uint32_t>(port.tool_box().next_passkey)); break;
            case smspec::passkey_responder_inputs: c.tk = passkey_tk(static_cast<std::uint32_t>(io_env.kb_passkey)); break;
            default: continue;
            }
            v.push_back(c);
        }
        return v;
    }
    // number of candidates under which (mconfirm_rx, r) verifies; `which` receives the first matching one
    int confirm_matches(const u128& r, tk_candidate* which = nullptr) const
    {
        int n = 0;
        for (const auto& c : tk_candidates())
            if (refimpl::c1(c.tk, r, preq, pres, remote, local) == mconfirm_rx) { if (!n && which) *which = c; ++n; }
        return n;
    }

    // ---- classification of an incoming PDU from the monitor's state (Core Vol 3 Part H 2.3.5 / C.2.2)
    std::string reject_reason;
    int reject(const char* why) { reject_reason = why; return VD_REJECT; }

    int classify(const bytes& in)
    {
        reject_reason = "";
        if (in.empty()) return reject("empty_pdu");
        switch (in[0]) {
        case 0x01:
            if (in.size() != 7) return reject("wrong_length");
            if (in[1] > 4 || in[2] > 1 || in[4] < 7 || in[4] > 16) return reject("invalid_parameters");
            if (ms != MS_IDLE && ms != MS_DONE) return reject("pairing_in_progress");
            if (port.variant == V_LESC && !(in[3] & 0x08)) return reject("legacy_request_to_lesc_only");
            if ((in[5] & 0xf0) || (in[6] & 0xf0)) return VD_EITHER;       // RFU bits: the specification says ignore, refusing is not forbidden
            return ms == MS_DONE ? VD_EITHER : VD_ACCEPT;
        case 0x03:
            if (in.size() != 17) return reject("wrong_length");
            if (!proto_lesc && ms == MS_L_REQ) return VD_ACCEPT;
            if (proto_lesc && (ms == MS_S_PK || ms == MS_S_PK_NOCONF) && (sel.io_entry == smspec::passkey_responder_displays || sel.io_entry == smspec::passkey_responder_inputs))
                return VD_EITHER;                                          // first commitment of LESC passkey entry
            return reject("out_of_order");
        case 0x04:
            if (in.size() != 17) return reject("wrong_length");
            if (!proto_lesc && ms == MS_L_CONF) {
                u128 r; std::copy(in.begin() + 1, in.end(), r.begin());
                const int n = confirm_matches(r);
                const int total = static_cast<int>(tk_candidates().size());
                if (n == 0) return reject("confirm_value_mismatch");
                return n == total ? VD_ACCEPT : VD_EITHER;
            }
            if (proto_lesc && ms == MS_S_PK) return VD_ACCEPT;
            if (proto_lesc && ms == MS_S_PK_NOCONF) return VD_EITHER;     // central did not wait for the peripheral's confirm
            return reject("out_of_order");
        case 0x0c:
            if (in.size() != 65) return reject("wrong_length");
            if (!(proto_lesc && ms == MS_S_REQ)) return reject("out_of_order");
            if (!refimpl::p256_valid_public_key_le(in.data() + 1)) return reject("invalid_public_key");
            return VD_ACCEPT;
        case 0x0d: {
            if (in.size() != 17) return reject("wrong_length");
            if (!(proto_lesc && ms == MS_S_RAND)) return reject("out_of_order");
            u128 ea; std::copy(in.begin() + 1, in.end(), ea.begin());
            const bool jw_like = ea == expected_ea(u128{{0}});
            const bool method_uses_r = sel.strict != smspec::just_works && sel.strict != smspec::numeric_comparison;
            const bool lenient_uses_r = sel.mitm_rule_just_works && sel.io_entry != smspec::just_works && sel.io_entry != smspec::numeric_comparison;
            if (method_uses_r || lenient_uses_r) {
                // passkey entry / OOB association: the right check value depends on r; r = 0 is what a Just Works central sends
                if (jw_like) return VD_EITHER;
                if (ea == expected_ea(initiator_rb())) return VD_EITHER;
                return reject("dhkey_check_mismatch");
            }
            if (!jw_like) return reject("dhkey_check_mismatch");
            return io_env.answered == -1 ? VD_SILENT : VD_ACCEPT;
        }
        default:
            return reject("not_a_pairing_step");
        }
    }
    // an in-order valid PDU that the peripheral may still answer with Pairing Failed
    bool accept_may_fail(const bytes& in) const
    {
        // LESC Pairing Random: the user said no inside the callback; DHKey check: the user said no
        if (proto_lesc && (in[0] == 0x04 || in[0] == 0x0d) && io_env.answered == 0) return true;
        return false;
    }
    bool deferred_refusal_ok(const bytes& in) const { return proto_lesc && in[0] == 0x0d && in.size() == 17 && ms == MS_S_RAND && io_env.answered == -1; }

    void reset_to_idle()
    {
        if (completed_on_conn) disturbed = true;
        if (exch_active && ms != MS_DONE) last_failed = true;
        if (io_env.pending) { stale_response = io_env.pending; io_env.pending = nullptr; }   // the application does not learn that the exchange ended
        ms = MS_IDLE; exch_active = false; tainted = false; unmodelled = false; deferred_fail = false; have_mrand = false; peripheral_completed_alone = false;
        ea_state = EA_NONE; user_asked = false;
    }

    // ---- the peripheral answered something that is not Pairing Failed
    void advance(const bytes& in, const bytes& out, int verdict)
    {
        if (in.empty()) { unexpected(out); return; }
        switch (in[0]) {
        case 0x01:
            if (in.size() == 7 && out.size() == 7 && out[0] == 0x02 && (ms == MS_IDLE || ms == MS_DONE)) {
                if (ms == MS_DONE) { disturbed = true; }
                std::copy(in.begin(), in.end(), preq); std::copy(out.begin(), out.end(), pres);
                proto_lesc = (preq[3] & 0x08) && (pres[3] & 0x08);
                sel = smspec::select_method(proto_lesc, responder_io(), preq[1], preq[2] != 0, io_env.oob_present,
                                            (preq[3] & 0x04) != 0, (pres[3] & 0x04) != 0);
                if (io_env.pending) { stale_response = io_env.pending; }
                io_env.reset_exchange_counters();
                exch_active = true; ever_exchange = true; last_failed = false; tainted = false; unmodelled = false; have_mrand = false; peripheral_completed_alone = false;
                ea_state = EA_NONE; user_asked = false; deferred_fail = false; initiator_abort = false;
                for (auto& x : rb_choice) x = rng.byte();
                ms = proto_lesc ? MS_S_REQ : MS_L_REQ;
                return;
            }
            break;
        case 0x03:
            if (!proto_lesc && ms == MS_L_REQ && out.size() == 17 && out[0] == 0x03) {
                std::copy(in.begin() + 1, in.end(), mconfirm_rx.begin());
                std::copy(out.begin() + 1, out.end(), sconfirm.begin());
                ms = MS_L_CONF;
                return;
            }
            if (proto_lesc && verdict == VD_EITHER) { unmodelled = true; verif::mon("C32").count("lesc_passkey_entry_accepted_unmodelled"); return; }
            break;
        case 0x04:
            if (!proto_lesc && ms == MS_L_CONF && out.size() == 17 && out[0] == 0x04) { legacy_random_revealed(in, out); return; }
            if (proto_lesc && (ms == MS_S_PK || ms == MS_S_PK_NOCONF) && out.size() == 17 && out[0] == 0x04) {
                std::copy(in.begin() + 1, in.end(), na.begin());
                std::copy(out.begin() + 1, out.end(), nb.begin());
                if (ms == MS_S_PK) {
                    // the peripheral's commitment Cb = f4(PKbx, PKax, Nb, 0) (a central aborts if it does not verify)
                    if (refimpl::f4(pkb, pool()[ikey].pub, nb, 0) != cb) { verif::mon("C32").count("peripheral_commitment_mismatch"); initiator_abort = true; }
                    else verif::mon("C32").count("peripheral_commitment_verified");
                }
                ms = MS_S_RAND;
                return;
            }
            break;
        case 0x0c:
            if (proto_lesc && ms == MS_S_REQ && out.size() == 65 && out[0] == 0x0c) {
                std::copy(out.begin() + 1, out.end(), pkb);
                ms = MS_S_PK_NOCONF;
                return;
            }
            break;
        case 0x0d:
            if (proto_lesc && ms == MS_S_RAND && in.size() == 17) {
                u128 ea; std::copy(in.begin() + 1, in.end(), ea.begin());
                const bool plausible = ea == expected_ea(u128{{0}}) || ea == expected_ea(initiator_rb());
                ea_state = plausible ? EA_RIGHT : EA_WRONG;
                if (out.empty()) {
                    if (io_env.answered != -1 && !tainted) { viol("C32", "C32:dhkey:no_answer_to_dhkey_check", "DHKey check neither answered nor refused although no user answer is pending"); tainted = true; }
                    ms = MS_S_WAIT_EB;
                    return;
                }
                if (out.size() == 17 && out[0] == 0x0d) { on_eb(out); return; }
            }
            break;
        default: break;
        }
        unexpected(out);
    }
    void unexpected(const bytes& out)
    {
        if (out.empty()) return;
        if (out[0] == 0x06 || out[0] == 0x07) { key_distribution_pdu(out); return; }
        if (out.size() == 17 && out[0] == 0x0d) { on_eb(out); return; }
        if (!tainted && !unmodelled) viol("C32", "C32:response:unexpected_pdu", "answer " + verif::hex(out) + " fits no protocol step");
        tainted = true;
    }

    // legacy: the peripheral revealed Srand
    void legacy_random_revealed(const bytes& in, const bytes& out)
    {
        u128 r; std::copy(in.begin() + 1, in.end(), r.begin());
        u128 srand; std::copy(out.begin() + 1, out.end(), srand.begin());
        tk_candidate which; which.method = -1;
        const int n = confirm_matches(r, &which);
        verif::mon("C32").cls("srand_revealed");
        if (n == 0) {
            if (!tainted) viol("C32", "C32:legacy:srand_revealed_without_confirm_match",
                "Pairing Random " + verif::hex(out) + " sent although the received Mrand does not reproduce the received Mconfirm " + verif::hex(mconfirm_rx.data(), 16) + " under c1 with the TK of this exchange");
            tainted = true; peripheral_completed_alone = true; ms = MS_DONE;
            return;
        }
        // completed from the central's point of view when Sconfirm verifies under the TK it used
        const bool sconfirm_ok = refimpl::c1(which.tk, srand, preq, pres, remote, local) == sconfirm;
        verif::mon("C32").count(sconfirm_ok ? "sconfirm_verified" : "sconfirm_mismatch");
        if (!sconfirm_ok) { initiator_abort = true; tainted = true; ms = MS_DONE; return; }
        key_on_conn = refimpl::s1(which.tk, srand, r);
        expected_status = (n > 1) ? -1 : (which.method == smspec::just_works ? 1 : 2);
        completed_method = which.method;
        pairing_completed();
    }

    void pairing_completed()
    {
        ms = MS_DONE; completed_on_conn = true; disturbed = false; ++pairings_completed; exch_active = false;
        completed_in_this_call = true;
        verif::mon("C32").cls(proto_lesc ? "lesc_pairing_completed" : "legacy_pairing_completed");
    }

    // LESC: the peripheral sent its DHKey check
    void on_eb(const bytes& out)
    {
        verif::monitor& M = verif::mon("C32");
        M.cls("eb_emitted");
        const bool in_protocol = exch_active && proto_lesc && (ms == MS_S_RAND || ms == MS_S_WAIT_EB);
        if (!in_protocol) {
            if (!tainted) {
                if (late_answer_given) viol("C32", "C32:user_response:late_answer_revives_pairing", "DHKey check " + verif::hex(out) + " emitted after the application answered a question of an exchange that is over");
                else viol("C32", "C32:dhkey:eb_out_of_protocol", "DHKey check " + verif::hex(out) + " emitted while no exchange is at the DHKey stage");
            }
            tainted = true; peripheral_completed_alone = true; return;
        }
        bool ok = true;
        if (ea_state == EA_NONE) { if (!tainted) viol("C32", "C32:dhkey:eb_before_ea", "DHKey check " + verif::hex(out) + " emitted before the central's DHKey check was received (user answer=" + std::to_string(io_env.answered) + ")"); ok = false; }
        else if (ea_state == EA_WRONG) { if (!tainted) viol("C32", "C32:dhkey:eb_after_wrong_ea", "DHKey check " + verif::hex(out) + " emitted although the central's DHKey check does not verify"); ok = false; }
        if (ok && user_asked && io_env.answered == -1) { if (!tainted) viol("C32", "C32:dhkey:eb_while_user_pending", "DHKey check emitted while the numeric comparison question is unanswered"); ok = false; }
        if (ok && user_asked && io_env.answered == 0) { if (!tainted) viol("C32", "C32:dhkey:eb_after_user_rejected", "DHKey check emitted although the user rejected the numeric comparison"); ok = false; }
        if (!ok) { tainted = true; peripheral_completed_alone = true; ms = MS_DONE; return; }
        u128 eb; std::copy(out.begin() + 1, out.end(), eb.begin());
        const u128 ra = initiator_ra();
        if (eb != expected_eb(ra)) {
            M.count(eb == expected_eb(u128{{0}}) ? "eb_computed_without_oob_or_passkey_value" : "eb_value_mismatch");
            initiator_abort = true; tainted = true; ms = MS_DONE;      // the central sends Pairing Failed; nothing is judged in between
            return;
        }
        M.count("eb_verified");
        key_on_conn = mackey_ltk().second;
        // classification of the exchange the central actually drove
        const bool r_used = !(ra == u128{{0}}) || !(initiator_rb() == u128{{0}});
        if (r_used) { expected_status = 2; completed_method = ctx.lesc_choice == IP_OOB ? smspec::oob : smspec::passkey_responder_displays; }
        else if (user_asked && io_env.answered == 1) { expected_status = 2; completed_method = smspec::numeric_comparison; }
        else { expected_status = 1; completed_method = smspec::just_works; }
        pairing_completed();
    }

    // a PDU from l2cap_output
    void spontaneous(const bytes& out)
    {
        if (out[0] == 0x06 || out[0] == 0x07) { key_distribution_pdu(out); return; }
        verif::mon("C32").eval();
        if (out.size() == 17 && out[0] == 0x03 && proto_lesc && ms == MS_S_PK_NOCONF) {
            std::copy(out.begin() + 1, out.end(), cb.begin());
            ms = MS_S_PK; verif::mon("C32").cls("lesc_confirm_emitted");
            return;
        }
        if (out.size() == 17 && out[0] == 0x0d) { on_eb(out); return; }
        if (out.size() == 2 && out[0] == 0x05) {
            const bool explained = (proto_lesc && exch_active && io_env.answered == 0) || deferred_fail;
            verif::mon("C32").cls(explained ? "deferred_pairing_failed" : "spontaneous_pairing_failed");
            reset_to_idle();
            return;
        }
        if (!tainted && !unmodelled) viol("C32", "C32:output:unexpected_pdu", "l2cap_output produced " + verif::hex(out));
        tainted = true;
    }

    // ---- C34: Encryption Information / Central Identification
    void key_distribution_pdu(const bytes& out)
    {
        verif::monitor& M = verif::mon("C34");
        M.eval();
        const bool enc_info = out[0] == 0x06;
        M.cls(enc_info ? "encryption_information_sent" : "central_identification_sent");
        const std::string what = std::string(enc_info ? "Encryption Information " : "Central Identification ") + verif::hex(out);
        drain_bond_log();
        if (!port.encrypted()) viol("C34", std::string("C34:keydist:sent_unencrypted:") + (enc_info ? "ltk" : "ediv_rand"), what + " while the link is not encrypted");
        if (!completed_on_conn) viol("C34", std::string("C34:keydist:before_pairing_completed:") + (enc_info ? "ltk" : "ediv_rand"), what + " although no pairing completed on this connection");
        unsigned& cnt = enc_info ? encinfo_sent : centralid_sent;
        ++cnt;
        if (cnt > 1) viol("C34", std::string("C34:keydist:repeated:") + (enc_info ? "ltk" : "ediv_rand"), what + " sent " + std::to_string(cnt) + " times for one pairing / one distributed key");
        if (out.size() != (enc_info ? 17u : 11u)) viol("C34", "C34:keydist:pdu_size", what);
        else if (have_armed) {
            bool same;
            if (enc_info) same = std::equal(out.begin() + 1, out.end(), armed.key.begin());
            else same = bluetoe::details::read_16bit(&out[1]) == armed.ediv && bluetoe::details::read_64bit(&out[3]) == armed.rand;
            if (!same) viol("C34", std::string("C34:keydist:value_mismatch:") + (enc_info ? "ltk" : "ediv_rand"), what + " differs from what the bond data base handed out (ediv=" + std::to_string(armed.ediv) + " rand=" + std::to_string(armed.rand) + " ltk=" + verif::hex(armed.key.data(), 16) + ")");
        } else if (completed_on_conn) {
            viol("C34", "C34:keydist:value_not_from_bond_db", what + " but the bond data base handed out no key for this pairing");
        }
        std::uint64_t h = verif::hstr(port.name); h = verif::mix(h, out[0]); h = verif::mix(h, port.encrypted()); h = verif::mix(h, completed_on_conn); h = verif::mix(h, cnt); h = verif::mix(h, pairings_completed > 1);
        M.nontrivial(h);
    }

    // ---- bond data base traffic caused by the last call
    void drain_bond_log()
    {
        for (const bond_event& ev : bond_db.log) {
            verif::monitor& M = verif::mon("C33");
            M.eval();
            if (ev.kind == 0) {
                M.cls("bond_created");
                if (!completed_in_this_call && !tainted) viol("C33", "C33:bond:created_without_completed_pairing", "create_new_bond called although no pairing completed in this step");
                armed = ev.e; have_armed = true; encinfo_sent = 0; centralid_sent = 0;      // a new key to distribute
            } else {
                M.cls(ev.e.ediv == 0 && ev.e.rand == 0 ? "bond_stored_lesc_ltk" : "bond_stored_distributed_ltk");
                if (!completed_in_this_call && !tainted) viol("C33", "C33:bond:stored_without_completed_pairing", "store_bond called although no pairing completed in this step");
                else if (ev.e.ediv == 0 && ev.e.rand == 0 && !tainted && ev.e.key != key_on_conn)
                    viol("C33", "C33:bond:stored_key_mismatch", "stored " + verif::hex(ev.e.key.data(), 16) + " but the pairing produced " + verif::hex(key_on_conn.data(), 16));
            }
        }
        bond_db.log.clear();
    }

    // ---- after every action: C33 key lookups, C35 status
    void after_action()
    {
        completed_in_this_call = false;
        probe_keys();
        probe_status();
    }

    void probe_one(std::uint16_t ediv, std::uint64_t rand, const char* qclass)
    {
        verif::monitor& M = verif::mon("C33");
        verif::ctx_op("find_key");
        const std::pair<bool, u128> got = port.find_key(ediv, rand);
        M.eval();
        bool db_has = false; u128 db_key = u128{{0}};
        if (port.bond) {
            std::uint8_t a[6]; std::copy(remote.a, remote.a + 6, a);
            const std::pair<bool, u128> d = bond_db.find_key(ediv, rand, addr_t(a, remote.random));
            db_has = d.first; db_key = d.second;
        }
        const bool zero = ediv == 0 && rand == 0;
        const bool local_ok = completed_on_conn && zero;
        const char* situation = completed_on_conn ? (disturbed ? "completed_then_disturbed" : "completed")
                              : exch_active ? "pairing_in_progress" : last_failed ? "pairing_failed" : ever_exchange ? "idle_again" : "fresh_connection";
        if (tainted || unmodelled) {
            // not judged, except: a key offered for an exchange that only the peripheral considers completed
            if (peripheral_completed_alone && !completed_on_conn && zero && got.first && !db_has)
                viol("C33", std::string("C33:find_key:offered_without_pairing_or_bond:zero:completed_by_peripheral_alone:") + (proto_lesc ? "lesc" : "legacy"),
                     "find_key(0,0) offers " + verif::hex(got.second.data(), 16) + " although the central's " + (proto_lesc ? "DHKey check" : "confirm value") + " never entitled the peripheral to complete this pairing");
            else M.count("skipped_tainted_exchange");
            return;
        }
        if (got.first) {
            if (!local_ok && !db_has) {
                viol("C33", std::string("C33:find_key:offered_without_pairing_or_bond:") + qclass + ":" + situation,
                     "find_key(" + std::to_string(ediv) + "," + std::to_string(rand) + ") offers " + verif::hex(got.second.data(), 16));
            } else if (local_ok && !disturbed && got.second != key_on_conn) {
                // a pairing completed on this connection and nothing happened since: the offered key has to be the one that pairing produced
                if (db_has && got.second == db_key)
                    viol("C33", std::string("C33:find_key:stale_bond_key_offered_after_new_pairing:") + (proto_lesc ? "lesc" : "legacy"),
                         "find_key(0,0) offers the bonded key " + verif::hex(got.second.data(), 16) + " of an earlier pairing instead of the key the pairing just completed on this connection produced, " + verif::hex(key_on_conn.data(), 16));
                else
                    viol("C33", std::string("C33:find_key:wrong_key:") + qclass + ":" + (proto_lesc ? "lesc" : "legacy"),
                         "find_key(0,0) offers " + verif::hex(got.second.data(), 16) + " expected " + verif::hex(key_on_conn.data(), 16));
            } else if (!((local_ok && got.second == key_on_conn) || (db_has && got.second == db_key))) {
                viol("C33", std::string("C33:find_key:wrong_key:") + qclass + ":" + (proto_lesc ? "lesc" : "legacy"),
                     "find_key(" + std::to_string(ediv) + "," + std::to_string(rand) + ") offers " + verif::hex(got.second.data(), 16) + " expected "
                     + (local_ok ? verif::hex(key_on_conn.data(), 16) : std::string("-")) + " / bond " + (db_has ? verif::hex(db_key.data(), 16) : std::string("-")));
            }
        } else {
            if (db_has) viol("C33", std::string("C33:find_key:missing:bonded:") + qclass, "bond data base holds (" + std::to_string(ediv) + "," + std::to_string(rand) + ") for this peer but no key is offered");
            else if (local_ok && !disturbed) viol("C33", std::string("C33:find_key:missing:after_completed_pairing:") + (proto_lesc ? "lesc" : "legacy"), "pairing completed on this connection but find_key(0,0) offers nothing");
        }
        M.cls(std::string(qclass) + ":" + (got.first ? "key" : "none"));
        if (zero && local_ok && !disturbed && db_has && db_key != key_on_conn) M.cls("zero:new_pairing_key_while_older_bond_entry_exists");
        std::uint64_t h = verif::hstr(port.name); h = verif::mix(h, verif::hstr(qclass)); h = verif::mix(h, verif::hstr(situation)); h = verif::mix(h, got.first); h = verif::mix(h, db_has); h = verif::mix(h, proto_lesc);
        if (completed_on_conn || db_has || exch_active || last_failed) M.nontrivial(h);
    }

    void probe_keys()
    {
        probe_one(0, 0, "zero");
        // every bonded pair (of any peer) and neighbours
        std::size_t n = 0;
        for (std::size_t i = bond_db.entries.size(); i-- > 0 && n < 3; ++n) {
            const bond_entry e = bond_db.entries[i];
            const bool mine = e.random == remote.random && std::equal(e.addr, e.addr + 6, remote.a);
            if (e.ediv == 0 && e.rand == 0) continue;
            probe_one(e.ediv, e.rand, mine ? "bonded_pair_of_this_peer" : "bonded_pair_of_other_peer");
            if (n == 0) { probe_one(static_cast<std::uint16_t>(e.ediv + 1), e.rand, "near_bonded_pair"); probe_one(e.ediv, e.rand ^ 1, "near_bonded_pair"); }
        }
        probe_one(static_cast<std::uint16_t>(1 + rng.below(0xffff)), rng.next() | 1, "random_pair");
        if (rng.chance(1, 2)) probe_one(0, rng.next() | 1, "zero_ediv_random_rand"); else probe_one(static_cast<std::uint16_t>(1 + rng.below(0xffff)), 0, "random_ediv_zero_rand");
    }

    void probe_status()
    {
        verif::monitor& M = verif::mon("C35");
        verif::ctx_op("local_device_pairing_status");
        int st = port.status();
        if (st == 3) st = 2;        // authenticated_key_with_secure_connection counts as authenticated
        M.eval();
        static const char* mgr[] = { "legacy_manager", "lesc_only_manager", "combined_manager" };
        static const char* sn[] = { "no_key", "unauthenticated_key", "authenticated_key" };
        const std::string stn = (st >= 0 && st <= 2) ? sn[st] : "invalid";
        if (tainted || unmodelled) {
            // not judged, except: a key reported for an exchange that only the peripheral considers completed
            if (peripheral_completed_alone && !completed_on_conn && st != 0)
                viol("C35", std::string("C35:status:key_reported_without_completed_pairing:") + mgr[port.variant] + ":" + stn + ":completed_by_peripheral_alone",
                     "local_device_pairing_status() = " + stn + " although no pairing exchange completed on this connection: the central's "
                     + (proto_lesc ? "DHKey check" : "confirm value") + " never entitled the peripheral to send its final message");
            else M.count("skipped_tainted_exchange");
            return;
        }
        if (!completed_on_conn) {
            if (st != 0) viol("C35", std::string("C35:status:key_reported_without_completed_pairing:") + mgr[port.variant] + ":" + stn, "local_device_pairing_status() = " + stn + " although no pairing completed on this connection");
            M.cls("status_without_pairing");
            return;
        }
        const char* proto = proto_lesc ? "lesc" : "legacy";
        const std::string sel_name = smspec::method_name(sel.io_entry);
        if (expected_status < 0) { M.count("ambiguous_exchange_not_judged"); return; }
        if (disturbed && st == 0) { M.cls("status_after_given_up_pairing"); return; }
        if (st != expected_status) {
            std::string key;
            if (expected_status == 1 && st == 2) key = std::string("C35:status:authenticated_after_just_works:") + proto + ":" + mgr[port.variant] + ":peripheral_table_entry_" + sel_name;
            else if (expected_status == 2 && st == 1) key = std::string("C35:status:unauthenticated_after_") + smspec::method_name(completed_method) + ":" + proto + ":" + mgr[port.variant];
            else key = std::string("C35:status:") + stn + "_after_completed_" + smspec::method_name(completed_method) + ":" + proto + ":" + mgr[port.variant];
            viol("C35", key, "exchange driven by the central: " + std::string(smspec::method_name(completed_method)) + " (" + proto + "), user asked=" + std::to_string(user_asked)
                 + " answer=" + std::to_string(io_env.answered) + "; local_device_pairing_status() = " + stn + ", expected " + sn[expected_status]);
        }
        M.cls(std::string("completed_") + proto + "_" + smspec::method_name(completed_method));
        std::uint64_t h = verif::hstr(port.name); h = verif::mix(h, proto_lesc); h = verif::mix(h, completed_method); h = verif::mix(h, sel.io_entry); h = verif::mix(h, sel.strict);
        h = verif::mix(h, st); h = verif::mix(h, ctx.policy); h = verif::mix(h, preq[1]);
        M.nontrivial(h);
    }

    // ------------------------------------------------------------------------------------------ data
    sm_port&     port;
    verif::prng& rng;
    std::string  hist;

    int  peer = 0;
    refimpl::address remote, local;

    // monitor
    int  ms = MS_IDLE;
    bool proto_lesc = false;
    bool exch_active = false, tainted = false, unmodelled = false, deferred_fail = false, initiator_abort = false;
    // the peripheral sent its final message (Srand / Eb) although the central's confirm / DHKey check did not entitle it to:
    // no pairing exchange completed from the central's point of view
    bool peripheral_completed_alone = false;
    bool completed_on_conn = false, disturbed = false, last_failed = false, ever_exchange = false, completed_in_this_call = false;
    int  expected_status = 0, completed_method = 0;
    unsigned pairings_completed = 0;
    u128 key_on_conn = u128{{0}};
    smspec::selection sel = smspec::selection();
    bool encrypted_model = false;

    // exchange
    std::uint8_t preq[7] = { 0 }, pres[7] = { 0 };
    u128 tk_i = u128{{0}}, mrand = u128{{0}}, mconfirm_rx = u128{{0}}, sconfirm = u128{{0}};
    bool have_mrand = false;
    int  ikey = 0;
    std::uint8_t pkb[64] = { 0 };
    u128 na = u128{{0}}, nb = u128{{0}}, cb = u128{{0}}, rb_choice = u128{{0}};
    int  ea_state = EA_NONE;
    bool user_asked = false;
    bluetoe::pairing_yes_no_response* stale_response = nullptr;
    bool late_answer_given = false;

    // key distribution
    bond_entry armed = bond_entry();
    bool have_armed = false;
    unsigned encinfo_sent = 0, centralid_sent = 0;

    std::map<std::pair<int, std::array<std::uint8_t, 64>>, std::array<std::uint8_t, 32>> dh_cache;

public:
    void clear_history() { hist.clear(); }
};

} // namespace smh

#endif
