// Environment of the security manager under test: user IO callbacks, OOB callback, bonding data base,
// driver-side security tool box (the repository's host tool box on tests/test_tools/aes.c + uECC.c with
// harness-controlled randomness) and a type-erased port onto one security manager instantiation.
// Nothing in this file is an oracle.
#ifndef VERIF_SM_ENV_HPP
#define VERIF_SM_ENV_HPP

// tests/security_manager/test_sm.hpp uses two Boost.Test macros inside a fixture template we do not use
#define BOOST_REQUIRE(x) ((void)0)
#define BOOST_CHECK_EQUAL_COLLECTIONS(a, b, c, d) ((void)0)

#include <vector>
#include <array>
#include <tuple>
#include <string>
#include <cassert>
#include <algorithm>
#include <type_traits>
#include <utility>

#include <bluetoe/security_manager.hpp>
#include <bluetoe/address.hpp>
#include <bluetoe/link_state.hpp>
#include "test_sm.hpp"

#include "common/verif.hpp"

namespace smh {

using u128   = std::array<std::uint8_t, 16>;
using addr_t = bluetoe::link_layer::device_address;

// ------------------------------------------------------------------------------------------------ user IO
struct io_env_t {
    // numeric output (pairing_numeric_output)
    void sm_pairing_numeric_output(int v) { last_display = v; ++display_calls; }
    // asynchronous yes/no (pairing_yes_no; also used by the keyboard shim)
    void sm_pairing_yes_no(bluetoe::pairing_yes_no_response& r)
    {
        ++yes_no_calls;
        if (sync_answer >= 0) { answered = sync_answer; r.yes_no_response(sync_answer != 0); }
        else { pending = &r; answered = -1; }
    }
    // synchronous yes/no as documented for pairing_keyboard ("bool sm_pairing_yes_no()")
    bool sm_pairing_yes_no()
    {
        ++yes_no_calls;
        answered = sync_answer == 0 ? 0 : 1;
        return answered != 0;
    }
    int sm_pairing_passkey() { ++keyboard_calls; return kb_passkey; }
    std::pair<bool, u128> sm_oob_authentication_data(const addr_t&) { ++oob_calls; return std::make_pair(oob_present, oob_data); }

    void reset_exchange_counters() { display_calls = yes_no_calls = keyboard_calls = oob_calls = 0; pending = nullptr; answered = -2; last_display = -1; }

    int       last_display = -1;
    unsigned  display_calls = 0, yes_no_calls = 0, keyboard_calls = 0, oob_calls = 0;
    bluetoe::pairing_yes_no_response* pending = nullptr;   // stored response object of an unanswered question
    int       sync_answer = -1;     // -1: store the response object; 0 / 1: answer inside the callback
    int       answered = -2;        // -2 not asked, -1 asked and pending, 0 no, 1 yes
    int       kb_passkey = 0;
    bool      oob_present = false;
    u128      oob_data = u128{{0}};
};
io_env_t io_env;      // external linkage: used as template argument (this header is included by exactly one TU)

// pairing_keyboard of the unchanged tree has no sm_pairing_request_yes_no(): lesc_security_manager and security_manager
// do not compile with it.  The shim adds the member (same behaviour as pairing_yes_no) so that the keyboard rows of
// the IO capability table can be driven at all; it is only selected when the library's own class lacks the member.
struct probe_state { void wait_for_user_response(); void yes_no_response(bool); };
template <class K>
struct has_request_yes_no {
    template <class U> static auto t(int) -> decltype(U::sm_pairing_request_yes_no(std::declval<probe_state&>()), std::true_type());
    template <class>   static std::false_type t(...);
    static const bool value = decltype(t<K>(0))::value;
};
template <typename T, T& Obj>
struct keyboard_shim : bluetoe::pairing_keyboard<T, Obj> {
    template <class S> static void sm_pairing_request_yes_no(S& state) { state.wait_for_user_response(); Obj.sm_pairing_yes_no(state); }
};
using native_keyboard = bluetoe::pairing_keyboard<io_env_t, io_env>;
static const bool keyboard_shim_needed = !has_request_yes_no<native_keyboard>::value;
using keyboard_option = std::conditional<keyboard_shim_needed, keyboard_shim<io_env_t, io_env>, native_keyboard>::type;

// ------------------------------------------------------------------------------------------------ bonding data base
struct bond_entry { std::uint8_t addr[6]; bool random; std::uint16_t ediv; std::uint64_t rand; u128 key; };
struct bond_event { int kind; /*0 create, 1 store*/ bond_entry e; };

struct bond_db_t {
    template <class Radio>
    bluetoe::details::longterm_key_t create_new_bond(Radio&, const addr_t& mac)
    {
        bluetoe::details::longterm_key_t k;
        for (auto& b : k.longterm_key) b = rng.byte();
        k.ediv = static_cast<std::uint16_t>(1 + rng.below(0xffff));
        k.rand = rng.next() | 1u;
        bond_event ev; ev.kind = 0; ev.e = make(mac, k);
        log.push_back(ev);
        return k;
    }
    template <class Connection>
    void store_bond(const bluetoe::details::longterm_key_t& k, const Connection& c)
    {
        bond_event ev; ev.kind = 1; ev.e = make(c.remote_address(), k);
        log.push_back(ev);
        for (auto& e : entries)
            if (same_peer(e, ev.e) && e.ediv == k.ediv && e.rand == k.rand) { e.key = k.longterm_key; return; }
        entries.push_back(ev.e);
    }
    std::pair<bool, u128> find_key(std::uint16_t ediv, std::uint64_t rand, const addr_t& a) const
    {
        ++lookups;
        for (const auto& e : entries)
            if (e.ediv == ediv && e.rand == rand && e.random == a.is_random() && std::equal(a.begin(), a.end(), e.addr))
                return std::make_pair(true, e.key);
        return std::make_pair(false, u128{{0}});
    }
    template <class Connection> void restore_cccds(Connection&) { ++restores; }

    static bool same_peer(const bond_entry& a, const bond_entry& b) { return a.random == b.random && std::equal(a.addr, a.addr + 6, b.addr); }
    static bond_entry make(const addr_t& a, const bluetoe::details::longterm_key_t& k)
    {
        bond_entry e; std::copy(a.begin(), a.end(), e.addr); e.random = a.is_random(); e.ediv = k.ediv; e.rand = k.rand; e.key = k.longterm_key;
        return e;
    }

    std::vector<bond_entry> entries;
    std::vector<bond_event> log;          // drained by the monitor after every call into the security manager
    mutable unsigned long   lookups = 0, restores = 0;
    verif::prng             rng;
};
bond_db_t bond_db;

// ------------------------------------------------------------------------------------------------ tool box (driver side)
struct key_pair { bluetoe::details::ecdh_public_key_t pub; bluetoe::details::ecdh_private_key_t priv; };

struct driver_functions : test::all_security_functions {
    u128 rnd128() { u128 r; for (auto& b : r) b = rng.byte(); return r; }
    u128 create_srand() { ++srand_calls; return rnd128(); }
    u128 create_passkey()
    {
        ++passkey_calls;
        u128 r = u128{{0}};
        bluetoe::details::write_32bit(r.data(), static_cast<std::uint32_t>(next_passkey));
        return r;
    }
    std::pair<bluetoe::details::ecdh_public_key_t, bluetoe::details::ecdh_private_key_t> generate_keys()
    {
        ++keygen_calls;
        last_key = static_cast<int>(rng.below(static_cast<std::uint32_t>(pool.size())));
        return std::make_pair(pool[last_key].pub, pool[last_key].priv);
    }
    u128 select_random_nonce() { ++nonce_calls; return rnd128(); }

    static int uecc_rng(std::uint8_t* dest, unsigned size) { for (unsigned i = 0; i < size; ++i) dest[i] = pool_rng().byte(); return 1; }
    static verif::prng& pool_rng() { static verif::prng r(0x5eed); return r; }
    // key pairs of the peripheral: made by micro-ecc (third party, what the repository's host tool box uses)
    static std::vector<key_pair>& make_pool(std::size_t n, std::uint64_t seed)
    {
        static std::vector<key_pair> p;
        pool_rng().reseed(seed);
        uECC_set_rng(&uecc_rng);
        p.clear();
        while (p.size() < n) {
            std::uint8_t pub_be[64], priv_be[32];
            if (!uECC_make_key(pub_be, priv_be)) continue;
            key_pair k;
            std::reverse_copy(pub_be, pub_be + 32, k.pub.begin());
            std::reverse_copy(pub_be + 32, pub_be + 64, k.pub.begin() + 32);
            std::reverse_copy(priv_be, priv_be + 32, k.priv.begin());
            p.push_back(k);
        }
        return p;
    }

    verif::prng rng;
    int next_passkey = 0;
    int last_key = -1;
    unsigned long srand_calls = 0, passkey_calls = 0, keygen_calls = 0, nonce_calls = 0;
    static std::vector<key_pair> pool;
};
std::vector<key_pair> driver_functions::pool;

// ------------------------------------------------------------------------------------------------ instantiation grid
enum { V_LEGACY = 0, V_LESC = 1, V_COMBINED = 2 };

template <int V> struct manager_of;
template <> struct manager_of<V_LEGACY>   { using type = bluetoe::legacy_security_manager; static const char* name() { return "legacy"; } };
template <> struct manager_of<V_LESC>     { using type = bluetoe::lesc_security_manager;   static const char* name() { return "lesc"; } };
template <> struct manager_of<V_COMBINED> { using type = bluetoe::security_manager;        static const char* name() { return "combined"; } };

template <int Out> struct out_opts { using type = std::tuple<>; };      // default: pairing_no_output
template <> struct out_opts<1> { using type = std::tuple<bluetoe::pairing_numeric_output<io_env_t, io_env>>; };
template <int In> struct in_opts { using type = std::tuple<>; };        // default: pairing_no_input
template <> struct in_opts<1> { using type = std::tuple<bluetoe::pairing_yes_no<io_env_t, io_env>>; };
template <> struct in_opts<2> { using type = std::tuple<keyboard_option>; };
template <int Oob> struct oob_opts { using type = std::tuple<>; };
template <> struct oob_opts<1> { using type = std::tuple<bluetoe::oob_authentication_callback<io_env_t, io_env>>; };
template <int Bond> struct bond_opts { using type = std::tuple<>; };
template <> struct bond_opts<1> { using type = std::tuple<bluetoe::bonding_data_base<bond_db_t, bond_db>>; };

template <class... T> struct cat;
template <> struct cat<> { using type = std::tuple<>; };
template <class... A> struct cat<std::tuple<A...>> { using type = std::tuple<A...>; };
template <class... A, class... B, class... R>
struct cat<std::tuple<A...>, std::tuple<B...>, R...> { using type = typename cat<std::tuple<A..., B...>, R...>::type; };

// the security manager object exactly as link_layer builds it: impl< MostDerived, Options... > + the tool box
template <class Manager, class OptTuple> struct sm_object;
template <class Manager, class... Opts>
struct sm_object<Manager, std::tuple<Opts...>>
    : Manager::template impl<sm_object<Manager, std::tuple<Opts...>>, Opts...>, driver_functions
{
    using impl_t = typename Manager::template impl<sm_object, Opts...>;
    using conn_t = typename impl_t::template channel_data_t<bluetoe::details::link_state>;
};

// ------------------------------------------------------------------------------------------------ type-erased port
struct sm_port {
    int variant = 0, out = 0, in = 0, oob = 0, bond = 0;
    std::size_t mtu = 0;            // buffer size link_layer's l2cap layer hands to this channel
    std::string name;
    virtual ~sm_port() {}
    virtual void reconnect(const addr_t& remote) = 0;        // what link_layer does on CONNECT_IND
    virtual void local_address(const addr_t& local) = 0;
    virtual void input(const std::uint8_t* in, std::size_t n, std::uint8_t* out, std::size_t& out_n) = 0;
    virtual void output(std::uint8_t* out, std::size_t& out_n) = 0;
    virtual std::pair<bool, u128> find_key(std::uint16_t ediv, std::uint64_t rand) = 0;
    virtual int  status() = 0;                               // local_device_pairing_status()
    virtual bool encrypted() = 0;
    virtual void encrypted(bool) = 0;
    virtual int  legacy_algo() = 0;                          // -1: accessor not present
    virtual int  lesc_algo() = 0;
    virtual int  raw_state() = 0;                            // diagnostics only
    virtual driver_functions& tool_box() = 0;
};

namespace detail {
    template <class C> auto legacy_algo(const C& c, int) -> decltype(static_cast<int>(c.legacy_pairing_algorithm())) { return static_cast<int>(c.legacy_pairing_algorithm()); }
    template <class C> int legacy_algo(const C&, long) { return -1; }
    template <class C> auto lesc_algo(const C& c, int) -> decltype(static_cast<int>(c.lesc_pairing_algorithm())) { return static_cast<int>(c.lesc_pairing_algorithm()); }
    template <class C> int lesc_algo(const C&, long) { return -1; }
}

template <int V, int Out, int In, int Oob, int Bond>
struct sm_adapter : sm_port {
    using options = typename cat<typename out_opts<Out>::type, typename in_opts<In>::type,
                                 typename oob_opts<Oob>::type, typename bond_opts<Bond>::type>::type;
    using obj_t  = sm_object<typename manager_of<V>::type, options>;
    using conn_t = typename obj_t::conn_t;

    obj_t*  sm;
    conn_t* conn;       // own heap block: an overflow out of the connection data is an ASan report

    sm_adapter() : sm(new obj_t()), conn(new conn_t())
    {
        variant = V; out = Out; in = In; oob = Oob; bond = Bond;
        mtu = obj_t::maximum_channel_mtu_size < 23 ? 23 : obj_t::maximum_channel_mtu_size;   // l2cap: maximum over ATT (23) and SM
        name = std::string(manager_of<V>::name()) + ".out" + std::to_string(Out) + ".in" + std::to_string(In)
             + ".oob" + std::to_string(Oob) + ".bond" + std::to_string(Bond);
    }
    ~sm_adapter() { delete conn; delete sm; }

    void reconnect(const addr_t& remote) override { *conn = conn_t(); conn->remote_connection_created(remote); }
    void local_address(const addr_t& local) override { static_cast<test::security_functions_base&>(*sm).local_address(local); }
    void input(const std::uint8_t* in_, std::size_t n, std::uint8_t* out_, std::size_t& out_n) override { sm->l2cap_input(in_, n, out_, out_n, *conn); }
    void output(std::uint8_t* out_, std::size_t& out_n) override { sm->l2cap_output(out_, out_n, *conn); }
    std::pair<bool, u128> find_key(std::uint16_t ediv, std::uint64_t rand) override { return conn->find_key(ediv, rand); }
    int  status() override { return static_cast<int>(conn->local_device_pairing_status()); }
    bool encrypted() override { return conn->is_encrypted(); }
    void encrypted(bool e) override { conn->is_encrypted(e); }
    int  legacy_algo() override { return detail::legacy_algo(*conn, 0); }
    int  lesc_algo() override { return detail::lesc_algo(*conn, 0); }
    int  raw_state() override { return static_cast<int>(conn->state()); }
    driver_functions& tool_box() override { return *sm; }
};

} // namespace smh

#endif
