// Security manager harness (family D): C32..C36.
//
// One binary hosts the instantiations listed in SM_CONFIGS (X(variant, output, input, oob_callback, bonding));
// --config=<name> selects one of them.  --mode=table enumerates the complete C36 table for that instantiation,
// --mode=hist runs --ops pairing histories (systematic state x symbol enumeration, numeric comparison timing
// scenarios, random walks) under the monitors of initiator.hpp.
#include "initiator.hpp"

#ifndef SM_CONFIGS
#define SM_CONFIGS X(2, 1, 1, 1, 1)
#endif

using namespace smh;
using verif::mon;

static std::string config_name(int v, int o, int i, int oob, int b)
{
    static const char* vn[] = { "legacy", "lesc", "combined" };
    return std::string(vn[v]) + ".out" + std::to_string(o) + ".in" + std::to_string(i) + ".oob" + std::to_string(oob) + ".bond" + std::to_string(b);
}

static const char* manager_name(int v) { static const char* n[] = { "legacy_manager", "lesc_only_manager", "combined_manager" }; return n[v]; }

static sm_port* make_port(const std::string& want, std::vector<std::string>& names)
{
    sm_port* r = nullptr;
#define X(v, o, i, oob, b) names.push_back(config_name(v, o, i, oob, b)); if (!r && (want.empty() || want == config_name(v, o, i, oob, b))) r = new sm_adapter<v, o, i, oob, b>();
    SM_CONFIGS
#undef X
    return r;
}

// Bluetoe's accessor values -> specification methods (by name, not by numeric coincidence)
static int from_legacy_algo(int a)
{
    using L = bluetoe::details::legacy_pairing_algorithm;
    if (a == static_cast<int>(L::just_works)) return smspec::just_works;
    if (a == static_cast<int>(L::oob_authentication)) return smspec::oob;
    if (a == static_cast<int>(L::passkey_entry_display)) return smspec::passkey_responder_displays;
    if (a == static_cast<int>(L::passkey_entry_input)) return smspec::passkey_responder_inputs;
    return -1;
}
static int from_lesc_algo(int a)
{
    using L = bluetoe::details::lesc_pairing_algorithm;
    if (a == static_cast<int>(L::just_works)) return smspec::just_works;
    if (a == static_cast<int>(L::oob_authentication)) return smspec::oob;
    if (a == static_cast<int>(L::passkey_entry_display)) return smspec::passkey_responder_displays;
    if (a == static_cast<int>(L::passkey_entry_input)) return smspec::passkey_responder_inputs;
    if (a == static_cast<int>(L::numeric_comparison)) return smspec::numeric_comparison;
    return -1;
}

struct run_state {
    sm_port* port;
    std::uint64_t seed;
    std::set<unsigned long long> skip;
    long long only = -1;
    unsigned long long history = 0;
};

static void fresh_secrets(sm_port& port, verif::prng& r)
{
    for (auto& b : io_env.oob_data) b = r.byte();
    io_env.oob_data[5] |= 1;                                   // never all zero, never a 6 digit number
    io_env.kb_passkey = 1 + static_cast<int>(r.below(999999));
    port.tool_box().next_passkey = r.chance(1, 50) ? 999999 : 1 + static_cast<int>(r.below(999999));
    port.tool_box().rng.reseed(r.next());
}

static context random_context(sm_port& port, verif::prng& r, bool matching)
{
    context c;
    static const std::uint8_t keysizes[] = { 7, 8, 15, 16, 16, 16 };
    c.rio = static_cast<std::uint8_t>(r.below(5));
    c.oobf = r.chance(1, 4) ? 1 : 0;
    c.authreq = static_cast<std::uint8_t>((r.chance(1, 2) ? 0x01 : 0) | (r.chance(1, 2) ? 0x04 : 0) | (r.chance(2, 3) ? 0x08 : 0) | (r.chance(1, 8) ? 0x10 : 0)
              | (r.chance(1, 8) ? 0x20 : 0) | (r.chance(1, 16) ? 0x40 : 0) | (r.chance(1, 16) ? 0x80 : 0));
    c.keysize = keysizes[r.below(sizeof keysizes)];
    c.ikd = static_cast<std::uint8_t>(r.below(16));
    c.rkd = static_cast<std::uint8_t>(r.below(16));
    c.local_oob = port.oob && r.chance(1, 3);
    c.policy = static_cast<int>(r.below(U_COUNT));
    // which protocol the central runs: mostly the one that can complete against the table entry, sometimes another
    const bool lesc = port.variant == V_LESC || (port.variant == V_COMBINED && (c.authreq & 0x08));
    const smspec::selection s = smspec::select_method(lesc, smspec::table_2_5(port.in, port.out), c.rio, c.oobf != 0, c.local_oob, true, true);
    c.tk_choice = IT_ZERO; c.lesc_choice = IP_JW;
    if (matching || r.chance(2, 3)) {
        switch (s.strict) {
        case smspec::oob: c.tk_choice = IT_OOB; break;
        case smspec::passkey_responder_displays: c.tk_choice = IT_DISPLAYED; break;
        case smspec::passkey_responder_inputs: c.tk_choice = IT_KEYBOARD; break;
        default: break;
        }
        if (!matching && lesc && r.chance(1, 5)) c.lesc_choice = s.strict == smspec::oob ? IP_OOB : (s.strict == smspec::passkey_responder_displays || s.strict == smspec::passkey_responder_inputs) ? IP_PASSKEY : IP_JW;
    } else {
        c.tk_choice = static_cast<int>(r.below(IT_COUNT));
        c.lesc_choice = r.chance(3, 4) ? IP_JW : static_cast<int>(r.below(IP_COUNT));
    }
    return c;
}

// ================================================================================================= C36
static void run_table(run_state& rs)
{
    sm_port& port = *rs.port;
    verif::monitor& M = mon("C36");
    verif::ctx_prop("C36");
    unsigned long long cells = 0, lenient = 0, lenient_stronger = 0, na = 0;
    for (int rio = 0; rio < 5; ++rio) for (int oobf = 0; oobf < 2; ++oobf) for (int loob = 0; loob < 2; ++loob) for (int bits = 0; bits < 8; ++bits) {
        const unsigned long long h = rs.history++;
        if (rs.skip.count(h) || (rs.only >= 0 && static_cast<unsigned long long>(rs.only) != h)) continue;
        verif::ctx_step(h);
        if (loob && !port.oob) { ++na; M.count("cells_not_applicable_no_oob_callback"); continue; }   // without the callback there is no local OOB data
        verif::prng r(verif::mix(verif::mix(rs.seed, 0xC36), h));
        session s(port, r);
        s.history_no = h;
        s.set_local_address(bits & 1);
        fresh_secrets(port, r);
        context c;
        c.rio = static_cast<std::uint8_t>(rio); c.oobf = static_cast<std::uint8_t>(oobf); c.local_oob = loob != 0;
        c.authreq = static_cast<std::uint8_t>(((bits & 1) ? 0x01 : 0) | ((bits & 2) ? 0x04 : 0) | ((bits & 4) ? 0x08 : 0));
        c.policy = U_NEVER;
        s.new_context(c);
        s.connect(static_cast<int>(r.below(session::PEERS)));
        const bool sc_req = (c.authreq & 0x08) != 0;
        const std::string cell = port.name + " remote_io=" + std::to_string(rio) + " remote_oob_flag=" + std::to_string(oobf) + " local_oob_data=" + std::to_string(loob)
            + " authreq=0x" + verif::hex(&c.authreq, 1);
        ++cells;
        s.send(s.build(sc_req ? K_REQ_LESC : K_REQ_LEGACY, C_VALID), sc_req ? K_REQ_LESC : K_REQ_LEGACY, C_VALID);
        M.eval();
        if (s.state() != MS_L_REQ && s.state() != MS_S_REQ) {
            if (port.variant == V_LESC && !sc_req) { M.cls("lesc_only_refuses_legacy_request"); M.nontrivial(verif::mix(verif::hstr(cell), 1)); continue; }
            verif::violation("C36", "C36:cell:valid_request_refused", cell + " :: " + s.history(), h);
            continue;
        }
        const std::uint8_t* pres = s.response();
        // table 2.5
        const int io_expected = smspec::table_2_5(port.in, port.out);
        M.eval();
        if (pres[1] != io_expected)
            verif::violation("C36", "C36:iocap:advertised_mismatch", cell + " Pairing Response advertises IO capability " + std::to_string(pres[1]) + ", table 2.5 says " + std::to_string(io_expected), h);
        // tables 2.6 - 2.8
        const bool lesc = s.is_lesc();
        const smspec::selection sel = s.current_selection();
        const int raw = lesc ? port.lesc_algo() : port.legacy_algo();
        const int got = lesc ? from_lesc_algo(raw) : from_legacy_algo(raw);
        M.eval();
        const bool ok_strict = got == sel.strict;
        const bool ok_lenient = sel.mitm_rule_just_works && got == sel.io_entry;
        if (sel.mitm_rule_just_works && sel.io_entry != smspec::just_works) { ++lenient; if (got == sel.io_entry) ++lenient_stronger; }
        if (!ok_strict && !ok_lenient)
            verif::violation("C36", std::string("C36:method:") + (lesc ? "lesc:" : "legacy:") + manager_name(port.variant) + ":expected_" + smspec::method_name(sel.strict) + "_got_" + (got < 0 ? "invalid" : smspec::method_name(got)),
                cell + " selected method (accessor value " + std::to_string(raw) + ") = " + (got < 0 ? "invalid" : smspec::method_name(got)) + ", tables 2.6-2.8 say " + smspec::method_name(sel.strict)
                + (sel.mitm_rule_just_works ? std::string(" (or the IO table entry ") + smspec::method_name(sel.io_entry) + ")" : std::string()), h);
        M.cls(std::string(lesc ? "lesc_" : "legacy_") + smspec::method_name(sel.strict));
        if (sel.mitm_rule_just_works) M.cls("mitm_rule_cell");
        // behavioural cross check: does the peripheral execute the method it reports?
        if (got >= 0 && (ok_strict || ok_lenient)) {
            M.eval();
            if (!lesc) {
                context c2 = c;
                c2.tk_choice = got == smspec::oob ? IT_OOB : got == smspec::passkey_responder_displays ? IT_DISPLAYED : got == smspec::passkey_responder_inputs ? IT_KEYBOARD : IT_ZERO;
                s.ctx.tk_choice = c2.tk_choice;
                s.send(s.build(K_CONFIRM, C_VALID), K_CONFIRM, C_VALID);
                if (s.state() == MS_L_CONF) s.send(s.build(K_RANDOM, C_VALID), K_RANDOM, C_VALID);
                if (!s.completed())
                    verif::violation("C36", std::string("C36:behaviour:legacy:") + smspec::method_name(got) + "_not_executed",
                        cell + " the exchange with the temporary key of the reported method did not complete :: " + s.history(), h);
                else M.cls(std::string("executed_legacy_") + smspec::method_name(got));
            } else {
                s.send(s.build(K_PUBKEY, C_VALID), K_PUBKEY, C_VALID);
                s.poll();
                if (s.state() == MS_S_PK) s.send(s.build(K_RANDOM, C_VALID), K_RANDOM, C_VALID);
                const bool asked = s.user_was_asked();
                if (s.state() != MS_S_RAND)
                    verif::violation("C36", "C36:behaviour:lesc:exchange_stalled", cell + " :: " + s.history(), h);
                else if (asked != (got == smspec::numeric_comparison))
                    verif::violation("C36", std::string("C36:behaviour:lesc:") + (asked ? "user_confirmation_requested_for_" : "no_user_confirmation_for_") + smspec::method_name(got),
                        cell + " :: " + s.history(), h);
                else M.cls(std::string("executed_lesc_") + (asked ? "numeric_comparison_question" : "no_question"));
            }
        }
        std::uint64_t hh = verif::hstr(port.name); hh = verif::mix(hh, rio); hh = verif::mix(hh, oobf); hh = verif::mix(hh, loob); hh = verif::mix(hh, bits); hh = verif::mix(hh, got);
        M.nontrivial(hh);
        if (cells % 40 == 1)
            M.sample_json("{\"config\":\"" + port.name + "\",\"remote_io\":" + std::to_string(rio) + ",\"remote_oob_flag\":" + std::to_string(oobf) + ",\"local_oob_data\":" + std::to_string(loob)
                + ",\"authreq\":" + std::to_string(c.authreq) + ",\"response\":\"" + verif::hex(pres, 7) + "\",\"expected\":\"" + smspec::method_name(sel.strict) + "\",\"selected\":\""
                + (got < 0 ? "invalid" : smspec::method_name(got)) + "\"}", 4);
    }
    M.count("cells", cells);
    M.count("cells_mitm_rule_io_entry_not_just_works", lenient);
    M.count("cells_mitm_rule_stronger_method_chosen", lenient_stronger);
    M.count(std::string("instantiation_") + port.name, 1);
    if (keyboard_shim_needed && port.in == 2 && port.variant != V_LEGACY) M.count("keyboard_yes_no_shim_used", 1);
    M.exhaustive = (rs.skip.empty() && rs.only < 0);
}

// ================================================================================================= C32..C35 histories
static void maybe_flip(session& s, verif::prng& r, unsigned den = 8)
{
    if (r.chance(1, den)) s.set_encrypted(r.chance(2, 3));
}

// drive the valid protocol until the monitor reaches `stop_at` (or the pairing completed / nothing more to do)
static bool run_valid(session& s, verif::prng& r, int stop_at, bool flips)
{
    for (int i = 0; i < 16; ++i) {
        if (s.state() == stop_at) return true;
        if (s.initiator_aborts()) { s.clear_abort(); s.send_pairing_failed(0x0b); return false; }
        if (flips) maybe_flip(s, r);
        switch (s.state()) {
        case MS_S_PK_NOCONF: s.poll(); if (s.state() == MS_S_PK_NOCONF) return false; break;
        case MS_S_RAND:
            if (s.user_pending() && (s.ctx.policy == U_ASYNC_YES_BEFORE || s.ctx.policy == U_ASYNC_NO_BEFORE)) {
                s.user_answer(s.ctx.policy == U_ASYNC_YES_BEFORE);
                s.poll();
                if (s.state() != MS_S_RAND) break;
            }
            { bytes b; int k; if (!s.next_valid(b, k)) return false; s.send(b, k, C_VALID); }
            if (s.ctx.policy != U_ASYNC_YES_BETWEEN) s.poll();
            break;
        case MS_S_WAIT_EB:
            if (!s.user_pending()) { s.poll(); if (s.state() == MS_S_WAIT_EB) return false; break; }
            if (s.ctx.policy == U_NEVER) return false;
            s.user_answer(s.ctx.policy == U_ASYNC_YES_BETWEEN || s.ctx.policy == U_ASYNC_YES_AFTER || s.ctx.policy == U_ASYNC_YES_BEFORE);
            s.poll();
            break;
        case MS_DONE:
            if (stop_at != MS_DONE) { bytes b; int k; s.next_valid(b, k); s.send(b, k, C_VALID); s.poll(); break; }
            return true;
        default: {
            bytes b; int k;
            if (!s.next_valid(b, k)) return false;
            s.send(b, k, C_VALID);
            s.poll();
            break; }
        }
    }
    return s.state() == stop_at;
}

static void after_completion(session& s, verif::prng& r)
{
    // the central starts encryption, the link layer polls; then some more state changes
    const int n = 2 + static_cast<int>(r.below(5));
    for (int i = 0; i < n; ++i) {
        switch (r.below(8)) {
        case 0: case 1: s.set_encrypted(true); break;
        case 2: s.set_encrypted(false); break;
        case 3: case 4: s.poll_one(); break;      // one transmit buffer free: the key distribution is spread over several connection events
        default: s.poll(); break;
        }
    }
    // systematic: encryption starts, one PDU goes out, encryption is paused before the next one, nothing may follow until it is resumed
    if (r.chance(1, 2)) { s.set_encrypted(true); s.poll_one(); s.set_encrypted(false); s.poll_one(); s.poll(); }
    s.set_encrypted(true); s.poll(); s.poll();
}

static const int targets[] = { MS_IDLE, MS_L_REQ, MS_L_CONF, MS_DONE, MS_S_REQ, MS_S_PK_NOCONF, MS_S_PK, MS_S_RAND, MS_S_WAIT_EB, MS_DONE };
static const int N_TARGETS = sizeof targets / sizeof targets[0];

static bool drive_to_target(session& s, verif::prng& r, int t, sm_port& port)
{
    const bool lesc_target = t >= 4;
    if (lesc_target && port.variant == V_LEGACY) return false;
    if (!lesc_target && t != 0 && port.variant == V_LESC) return false;
    context c = random_context(port, r, true);
    if (lesc_target) c.authreq |= 0x08; else if (port.variant != V_LESC) c.authreq &= ~0x08;
    if (targets[t] == MS_S_WAIT_EB) {
        // only reachable when the peripheral asks the user: numeric comparison cell, asynchronous answer
        if (!(port.out == 1 && port.in >= 1)) return false;
        c.rio = r.chance(1, 2) ? 1 : 4; c.oobf = 0; c.local_oob = false;
        static const int async[] = { U_ASYNC_YES_BETWEEN, U_ASYNC_YES_AFTER, U_ASYNC_NO_AFTER, U_NEVER };
        c.policy = async[r.below(4)];
        c.lesc_choice = IP_JW;
    }
    s.new_context(c);
    if (targets[t] == MS_IDLE) return true;
    return run_valid(s, r, targets[t], r.chance(1, 3));
}

static void systematic_history(run_state& rs, session& s, verif::prng& r, unsigned long long index)
{
    sm_port& port = *rs.port;
    const int t = static_cast<int>(index % N_TARGETS);
    const int k = static_cast<int>((index / N_TARGETS) % K_COUNT);
    const int c = static_cast<int>((index / N_TARGETS / K_COUNT) % C_COUNT);
    s.connect(static_cast<int>(r.below(session::PEERS)));
    if (!drive_to_target(s, r, t, port)) { mon("C32").count("target_state_not_reachable_in_this_configuration"); return; }
    // the deviation (or the valid continuation)
    s.send(s.build(k, c), k, c);
    if (r.chance(4, 5)) s.poll();
    if (s.user_pending() && r.chance(1, 2)) { s.user_answer(r.chance(2, 3)); s.poll(); }
    maybe_flip(s, r, 4);
    // idle again?  then a valid request must be accepted, and a complete pairing must work
    if (s.state() == MS_IDLE || r.chance(1, 3)) {
        context c2 = random_context(port, r, true);
        s.new_context(c2);
        if (s.state() == MS_IDLE) mon("C32").cls("idle_probe_after_refusal");
        if (run_valid(s, r, MS_DONE, r.chance(1, 3)) && s.completed()) after_completion(s, r);
    }
    if (s.can_answer_late() && r.chance(1, 4)) { s.user_answer_late(r.chance(2, 3)); s.poll(); }
}

static void nc_history(run_state& rs, session& s, verif::prng& r, unsigned long long index)
{
    sm_port& port = *rs.port;
    s.connect(static_cast<int>(r.below(session::PEERS)));
    context c = random_context(port, r, true);
    c.authreq |= 0x08; c.oobf = 0; c.local_oob = false; c.lesc_choice = IP_JW;
    c.rio = (index & 1) ? 1 : 4;
    c.policy = static_cast<int>((index / 2) % U_COUNT);
    const bool wrong_ea = ((index / 2 / U_COUNT) % 3) == 2;
    s.new_context(c);
    mon("C32").cls(std::string("numeric_comparison:") + policy_name(c.policy) + (wrong_ea ? ":wrong_dhkey_check" : ":right_dhkey_check"));
    if (!run_valid(s, r, MS_S_RAND, false)) return;
    if (s.user_pending() && (c.policy == U_ASYNC_YES_BEFORE || c.policy == U_ASYNC_NO_BEFORE)) {
        s.user_answer(c.policy == U_ASYNC_YES_BEFORE);
        if (r.chance(3, 4)) s.poll();
    } else if (r.chance(3, 4)) s.poll();          // the link layer polls on every connection event
    if (s.state() == MS_S_RAND) {
        s.send(s.build(K_DHKEY, wrong_ea ? C_VALUE : C_VALID), K_DHKEY, wrong_ea ? C_VALUE : C_VALID);
        if (c.policy != U_ASYNC_YES_BETWEEN) s.poll();
        if (s.user_pending() && c.policy != U_NEVER) { s.user_answer(c.policy == U_ASYNC_YES_BETWEEN || c.policy == U_ASYNC_YES_AFTER); }
        s.poll();
    }
    if (s.initiator_aborts()) { s.clear_abort(); s.send_pairing_failed(0x0b); }
    if (s.completed()) after_completion(s, r);
    else if (r.chance(1, 2)) {
        // whatever happened: a new pairing must be possible
        if (s.state() != MS_IDLE) { s.send(s.build(K_UNKNOWN, C_VALID), K_UNKNOWN, C_VALID); s.poll(); }
        context c2 = random_context(port, r, true);
        s.new_context(c2);
        if (run_valid(s, r, MS_DONE, false) && s.completed()) after_completion(s, r);
    }
    if (s.can_answer_late() && r.chance(1, 3)) { s.user_answer_late(r.chance(2, 3)); s.poll(); }
}

// numeric comparison, two attempts on one connection: attempt 1 gets as far as a verified DHKey check while the user has not
// answered and is then aborted; attempt 2 goes up to Pairing Random, the user says yes BEFORE the central's DHKey check, the
// link layer polls.  Nothing of attempt 1 may count for attempt 2.
static void two_attempt_history(run_state& rs, session& s, verif::prng& r, unsigned long long index)
{
    sm_port& port = *rs.port;
    s.connect(static_cast<int>(r.below(session::PEERS)));
    context c = random_context(port, r, true);
    c.authreq |= 0x08; c.oobf = 0; c.local_oob = false; c.lesc_choice = IP_JW;
    c.rio = (index & 4) ? 1 : 4;
    c.policy = U_NEVER;                                   // the question stays open
    s.new_context(c);
    mon("C32").cls("numeric_comparison:second_attempt_after_aborted_first");
    if (!run_valid(s, r, MS_S_RAND, false)) return;
    s.send(s.build(K_DHKEY, C_VALID), K_DHKEY, C_VALID);  // right Ea while the user is being asked
    s.poll();
    // abort attempt 1
    switch ((index / 8) % 3) {
    case 0: s.send(s.build(K_REQ_LESC, C_VALID), K_REQ_LESC, C_VALID); break;              // refused: pairing in progress
    case 1: s.send(s.build(K_UNKNOWN, C_VALID), K_UNKNOWN, C_VALID); break;
    default: if (s.user_pending()) s.user_answer(false); break;
    }
    s.poll();
    if (s.state() != MS_IDLE) return;
    // attempt 2
    context c2 = c;
    c2.policy = U_ASYNC_YES_BEFORE;
    s.new_context(c2);
    if (!run_valid(s, r, MS_S_RAND, false)) return;
    if (s.user_pending()) s.user_answer(true);
    s.poll(); s.poll();
    if (s.state() == MS_S_RAND && r.chance(1, 2)) { s.send(s.build(K_DHKEY, C_VALID), K_DHKEY, C_VALID); s.poll(); }
    if (s.initiator_aborts()) { s.clear_abort(); s.send_pairing_failed(0x0b); }
    if (s.completed()) after_completion(s, r);
}

// bonding: a pairing completes and is bonded (Bluetoe keeps LESC LTKs in the bond data base under EDIV = 0 / Rand = 0); then, on the
// same or on a following connection of the same peer, a second pairing completes with a different key (legacy after LESC on the
// combined manager, LESC after LESC with fresh keys / nonces): find_key(0,0) has to offer the key of the latest pairing.
static void rebond_history(run_state& rs, session& s, verif::prng& r, unsigned long long index)
{
    sm_port& port = *rs.port;
    const int peer = static_cast<int>(r.below(session::PEERS));
    s.connect(peer);
    context c = random_context(port, r, true);
    c.authreq |= 0x09; c.policy = U_SYNC_YES; c.lesc_choice = IP_JW;
    s.new_context(c);
    mon("C33").cls("second_pairing_of_a_bonded_peer");
    if (!run_valid(s, r, MS_DONE, false) || !s.completed()) return;
    after_completion(s, r);
    // second pairing
    if (index & 1) s.connect(peer);                                                    // following connection of the same peer
    else { s.send(s.build(K_REQ_LESC, C_VALID), K_REQ_LESC, C_VALID); s.poll(); }     // same connection: Bluetoe wants an idle state first
    if (s.state() != MS_IDLE) return;
    context c2 = random_context(port, r, true);
    c2.policy = U_SYNC_YES; c2.lesc_choice = IP_JW;
    if (port.variant == V_COMBINED && (index & 2)) c2.authreq &= ~0x08; else c2.authreq |= 0x08;    // legacy after LESC / LESC after LESC
    s.new_context(c2);
    if (run_valid(s, r, MS_DONE, false) && s.completed()) after_completion(s, r);
}

static void random_history(run_state& rs, session& s, verif::prng& r)
{
    sm_port& port = *rs.port;
    s.connect(static_cast<int>(r.below(session::PEERS)));
    s.new_context(random_context(port, r, r.chance(2, 3)));
    const int len = 10 + static_cast<int>(r.below(40));
    for (int i = 0; i < len; ++i) {
        const unsigned a = r.below(100);
        if (s.initiator_aborts()) { s.clear_abort(); s.send_pairing_failed(0x0b); continue; }
        if (a < 50) {
            bytes b; int k;
            if (s.state() == MS_IDLE && r.chance(1, 2)) s.new_context(random_context(port, r, r.chance(2, 3)));
            if (s.state() == MS_DONE && r.chance(3, 4)) { if (s.completed()) after_completion(s, r); continue; }
            if (s.next_valid(b, k)) { s.send(b, k, C_VALID); if (r.chance(4, 5)) s.poll(); }
            else s.poll();
        } else if (a < 65) {
            const int k = static_cast<int>(r.below(K_COUNT)), c = static_cast<int>(r.below(C_COUNT));
            s.send(s.build(k, c), k, c);
            if (r.chance(4, 5)) s.poll();
        } else if (a < 75) s.poll();
        else if (a < 82) s.set_encrypted(r.chance(1, 2));
        else if (a < 86) { s.connect(static_cast<int>(r.below(session::PEERS))); s.new_context(random_context(port, r, true)); }
        else if (a < 94) { if (s.user_pending()) { s.user_answer(r.chance(2, 3)); if (r.chance(2, 3)) s.poll(); } }
        else if (a < 96) { if (s.can_answer_late()) { s.user_answer_late(r.chance(2, 3)); s.poll(); } }
        else { bytes e; s.send(e, K_UNKNOWN, C_LEN); }
    }
}

static void run_histories(run_state& rs, unsigned long long ops)
{
    sm_port& port = *rs.port;
    verif::ctx_prop("C32");
    const bool nc_possible = port.variant != V_LEGACY && port.out == 1 && port.in >= 1;
    unsigned long long sys_index = rs.seed * 7, nc_index = rs.seed * 3;
    unsigned samples = 0;
    for (unsigned long long i = 0; i < ops; ++i) {
        const unsigned long long h = rs.history++;
        const int type = static_cast<int>(i % 4);
        const unsigned long long si = sys_index, ni = nc_index;
        if (type < 2) ++sys_index; else if (type == 3 && nc_possible) ++nc_index;
        if (rs.skip.count(h) || (rs.only >= 0 && static_cast<unsigned long long>(rs.only) != h)) continue;
        verif::ctx_step(h);
        verif::prng r(verif::mix(verif::mix(rs.seed, 0xC32), h));
        if (i % 64 == 0) { bond_db.entries.clear(); }               // the bond data base persists across connections, not forever
        bond_db.rng.reseed(r.next());
        fresh_secrets(port, r);
        session s(port, r);
        s.history_no = h;
        s.set_local_address(r.chance(1, 2));
        if (type < 2) systematic_history(rs, s, r, si);
        else if (type == 3 && nc_possible) { if (ni % 4 == 3) two_attempt_history(rs, s, r, ni); else nc_history(rs, s, r, ni); }
        else if (type == 2 && port.bond && port.variant != V_LEGACY && (i / 4) % 4 == 1) rebond_history(rs, s, r, i / 16);
        else random_history(rs, s, r);
        if (samples < 3 && s.completed()) {
            ++samples;
            const std::string js = "{\"config\":\"" + port.name + "\",\"history\":" + std::to_string(h) + ",\"trace\":\"" + verif::jesc(s.history().substr(0, 900)) + "\"}";
            mon("C32").sample_json(js, 3); mon("C33").sample_json(js, 3); mon("C34").sample_json(js, 3); mon("C35").sample_json(js, 3);
        }
    }
    mon("C32").count("histories", ops);
}

int main(int argc, char** argv)
{
    verif::args a(argc, argv);
    verif::install_crash_handler();
    run_state rs;
    rs.seed = a.num("seed", 1);
    if (a.has("only")) rs.only = static_cast<long long>(a.num("only"));
    {
        std::stringstream ss(a.str("skip"));
        std::string tok;
        while (std::getline(ss, tok, ',')) if (!tok.empty()) rs.skip.insert(std::strtoull(tok.c_str(), nullptr, 0));
    }
    std::vector<std::string> names;
    rs.port = make_port(a.str("config"), names);
    if (a.has("list")) { for (const auto& n : names) std::puts(n.c_str()); delete rs.port; return 0; }
    if (!rs.port) { std::fprintf(stderr, "unknown --config=%s\n", a.str("config").c_str()); return 3; }
    const std::string mode = a.str("mode", "both");
    verif::run_config() = rs.port->name + " mode=" + mode;
    verif::ctx_config(rs.port->name);

    driver_functions::pool = driver_functions::make_pool(static_cast<std::size_t>(a.num("keys", 3)), rs.seed * 977 + 5);
    session::make_initiator_pool(static_cast<std::size_t>(a.num("keys", 3)), rs.seed * 31 + 7);

    if (mode == "table" || mode == "both") run_table(rs);
    rs.history = 100000;       // history numbers of the two modes do not overlap
    if (mode == "hist" || mode == "both") run_histories(rs, a.num("ops", 400));

    delete rs.port;
    verif::finish();
    return 0;
}
