// Pairing method selection tables, typed from the Bluetooth Core Specification (v5.x) Vol 3 Part H:
//   Table 2.5  "Mapping of input / output capabilities to IO capability"          (2.3.2)
//   Table 2.6  "Rules for using Out-of-Band and MITM flags for LE legacy pairing"  (2.3.5.1)
//   Table 2.7  "Rules for using Out-of-Band and MITM flags for LE Secure Connections pairing"
//   Table 2.8  "Mapping of IO capabilities to key generation method"
// Nothing here is derived from bluetoe/io_capabilities.hpp.
#ifndef VERIF_SM_TABLES_HPP
#define VERIF_SM_TABLES_HPP

#include <cstdint>

namespace smspec {

// IO capability values, Vol 3 Part H 3.5.1 table 3.3
enum io_cap { DisplayOnly = 0, DisplayYesNo = 1, KeyboardOnly = 2, NoInputNoOutput = 3, KeyboardDisplay = 4 };

// local input capability (rows of table 2.5) and output capability (columns)
enum input_cap  { in_none = 0, in_yes_no = 1, in_keyboard = 2 };
enum output_cap { out_none = 0, out_numeric = 1 };

// Table 2.5:              No output          Numeric output
//   No input              NoInputNoOutput    DisplayOnly
//   Yes / No              NoInputNoOutput    DisplayYesNo
//   Keyboard              KeyboardOnly       KeyboardDisplay
inline int table_2_5(int input, int output)
{
    static const int t[3][2] = {
        { NoInputNoOutput, DisplayOnly },
        { NoInputNoOutput, DisplayYesNo },
        { KeyboardOnly,    KeyboardDisplay },
    };
    return t[input][output];
}

// key generation methods; "display"/"input" is what the RESPONDER does
enum method {
    just_works = 0,
    oob = 1,
    passkey_responder_displays = 2,     // responder displays, initiator inputs
    passkey_responder_inputs = 3,       // initiator displays, responder inputs  (or: both input)
    numeric_comparison = 4
};

inline const char* method_name(int m)
{
    switch (m) {
    case just_works: return "just_works";
    case oob: return "oob";
    case passkey_responder_displays: return "passkey_responder_displays";
    case passkey_responder_inputs: return "passkey_responder_inputs";
    case numeric_comparison: return "numeric_comparison";
    default: return "invalid";
    }
}

// Table 2.8, rows = responder IO capability, columns = initiator IO capability, [legacy, secure connections]
//
//                  Initiator:  DisplayOnly   DisplayYesNo        KeyboardOnly  NoInputNoOutput  KeyboardDisplay
// Responder DisplayOnly        JW            JW                  PK(r disp)    JW               PK(r disp)
// Responder DisplayYesNo       JW            JW (leg) / NC (sc)  PK(r disp)    JW               PK(r disp) (leg) / NC (sc)
// Responder KeyboardOnly       PK(r inp)     PK(r inp)           PK(both inp)  JW               PK(r inp)
// Responder NoInputNoOutput    JW            JW                  JW            JW               JW
// Responder KeyboardDisplay    PK(r inp)     PK(r inp)/NC (sc)   PK(r disp)    JW               PK(r inp) (leg) / NC (sc)
inline int table_2_8(int responder, int initiator, bool secure_connections)
{
    const int JW = just_works, PD = passkey_responder_displays, PI = passkey_responder_inputs, NC = numeric_comparison;
    static const int legacy[5][5] = {
        /* DisplayOnly     */ { JW, JW, PD, JW, PD },
        /* DisplayYesNo    */ { JW, JW, PD, JW, PD },
        /* KeyboardOnly    */ { PI, PI, PI, JW, PI },
        /* NoInputNoOutput */ { JW, JW, JW, JW, JW },
        /* KeyboardDisplay */ { PI, PI, PD, JW, PI },
    };
    static const int sc[5][5] = {
        /* DisplayOnly     */ { JW, JW, PD, JW, PD },
        /* DisplayYesNo    */ { JW, NC, PD, JW, NC },
        /* KeyboardOnly    */ { PI, PI, PI, JW, PI },
        /* NoInputNoOutput */ { JW, JW, JW, JW, JW },
        /* KeyboardDisplay */ { PI, NC, PD, JW, NC },
    };
    return secure_connections ? sc[responder][initiator] : legacy[responder][initiator];
}

struct selection {
    int  strict;        // the method tables 2.6 / 2.7 + 2.8 prescribe
    int  io_entry;      // table 2.8 entry (ignoring the MITM rule)
    bool mitm_rule_just_works;   // neither side set MITM and OOB does not apply: the spec prescribes Just Works
};

// Table 2.6 (legacy): OOB is used when BOTH devices have OOB data; otherwise, when neither device sets MITM: Just
// Works; otherwise the IO capabilities are used (table 2.8).
// Table 2.7 (secure connections): OOB is used when AT LEAST ONE device has the peer's OOB data; otherwise as above.
inline selection select_method(bool secure_connections, int responder_io, int initiator_io,
                               bool initiator_oob_flag, bool responder_has_oob, bool initiator_mitm, bool responder_mitm)
{
    selection s;
    s.io_entry = table_2_8(responder_io, initiator_io, secure_connections);
    s.mitm_rule_just_works = false;
    const bool use_oob = secure_connections ? (initiator_oob_flag || responder_has_oob)
                                            : (initiator_oob_flag && responder_has_oob);
    if (use_oob) { s.strict = oob; s.io_entry = oob; return s; }
    if (!initiator_mitm && !responder_mitm) { s.strict = just_works; s.mitm_rule_just_works = true; return s; }
    s.strict = s.io_entry;
    return s;
}

// does completing this method authenticate the peer (protects against MITM)?
inline bool authenticates(int m) { return m != just_works; }

} // namespace smspec

#endif
