// Response oracle: given a request PDU from connection k and the server's response, decide per property.
#ifndef VERIF_ATT_CHECK_HPP
#define VERIF_ATT_CHECK_HPP

#include "att/att_model.hpp"

namespace am {

struct checker {
    state& s;
    unsigned long long step;
    std::string cfg;
    explicit checker(state& st) : s(st), step(0) {}

    static std::uint16_t rd16(const std::uint8_t* p) { return static_cast<std::uint16_t>(p[0] | (p[1] << 8)); }

    std::string ctx(int k, const bytes& req, const bytes& rsp) const {
        const conn_state& c = s.conn[k];
        return "decl=" + std::string(decl::declaration_name) + " conn=" + std::to_string(k) + " mtu=" + std::to_string(c.mtu()) +
               " enc=" + std::to_string(c.encrypted) + " pair=" + std::to_string(c.pair) + " req=" + verif::hex(req) + " rsp=" + verif::hex(rsp);
    }
    void viol(const char* prop, const std::string& key, int k, const bytes& req, const bytes& rsp, const std::string& extra = "") {
        verif::violation(prop, std::string(prop) + ":" + key, ctx(k, req, rsp) + (extra.empty() ? "" : " | " + extra), step);
    }

    static bool is_error(const bytes& rsp, std::uint8_t req_op) { return rsp.size() == 5 && rsp[0] == 0x01 && rsp[1] == req_op; }

    // error response with one of the acceptable codes expected
    bool expect_error(const char* prop, const std::string& key, int k, const bytes& req, const bytes& rsp, const std::set<int>& codes, int handle = -1) {
        verif::mon(prop).eval();
        if (!is_error(rsp, req[0])) { viol(prop, key + ":no_error_response", k, req, rsp); return false; }
        if (!codes.empty() && !codes.count(rsp[4])) {
            std::string want; for (int c : codes) want += " " + std::to_string(c);
            viol(prop, key + ":wrong_error_code", k, req, rsp, "acceptable codes:" + want); return false;
        }
        if (handle >= 0 && rd16(&rsp[2]) != handle) { viol(prop, key + ":wrong_error_handle", k, req, rsp, "expected handle " + std::to_string(handle)); return false; }
        return true;
    }
    static std::set<int> one(int c) { std::set<int> r; r.insert(c); return r; }

    void nontrivial(const char* prop, int k, const bytes& req, const bytes& rsp, unsigned extra = 0) {
        std::uint64_t h = verif::hstr(decl::declaration_name);
        h = verif::mix(h, req.empty() ? 0 : req[0]); h = verif::mix(h, rsp.empty() ? 0 : rsp[0]);
        h = verif::mix(h, rsp.size() == 5 && rsp[0] == 1 ? rsp[4] : 0);
        h = verif::mix(h, s.conn[k].encrypted * 4 + s.conn[k].pair); h = verif::mix(h, std::min<std::size_t>(req.size(), 24)); h = verif::mix(h, extra);
        verif::monitor& M = verif::mon(prop);
        M.nontrivial(h);
        // a few actual cases written out (spread over the run: every 97th distinct case)
        if (M.samples.size() < 4 && M.distinct.size() % 97 == 1) M.sample(ctx(k, req, rsp), 4);
    }

    // ------------------------------------------------------------------ framing (C01)
    // returns true if the PDU is a request that must be answered
    void check_framing(int k, const bytes& req, const bytes& rsp, unsigned cap) {
        verif::monitor& M = verif::mon("C01");
        M.eval();
        const std::uint8_t op = req[0];
        const conn_state& c = s.conn[k];
        if (rsp.size() > c.mtu()) viol("C01", "framing:response_longer_than_mtu", k, req, rsp);
        if (rsp.size() > cap) viol("C01", "framing:response_longer_than_buffer", k, req, rsp);
        const bool command = (op & 0x40) != 0;
        const bool is_request = !command && (op == 0x02 || op == 0x04 || op == 0x06 || op == 0x08 || op == 0x0A || op == 0x0C || op == 0x0E || op == 0x10 ||
                                             op == 0x12 || op == 0x16 || op == 0x18);
        const bool must_be_silent = command || op == 0x01 || op == 0x1B || (op == 0x1E && req.size() == 1);
        const char* cls = command ? "command" : is_request ? "request" : (op == 0x01 ? "error_rsp" : op == 0x1B ? "notification" : op == 0x1E ? "confirmation" : "other");
        M.cls(std::string("op_") + cls);
        if (must_be_silent) {
            if (!rsp.empty()) viol("C01", (command && op != 0x52) ? std::string("framing:error_response_to_unsupported_command") : std::string("framing:response_to_") + cls, k, req, rsp);
        } else if (is_request) {
            if (rsp.empty()) viol("C01", "framing:request_unanswered", k, req, rsp);
            else if (rsp[0] != op + 1 && !is_error(rsp, op)) viol("C01", "framing:wrong_response_opcode", k, req, rsp);
        } else if (!rsp.empty()) {
            // anything else (unknown request opcodes, responses/indications sent by a client): if answered, then by an error naming the opcode
            if (!is_error(rsp, op)) viol("C01", "framing:unknown_opcode_answer_not_error", k, req, rsp);
            else if (op != 0x1E && op != 0x1D && !(op & 1) && rsp[4] != E_NOT_SUPP) { /* unknown request: code not fixed by the statement */ }
        } else if (!(op & 1) && op != 0x1E) {
            // an unknown *request* opcode (even opcodes below 0x40 are requests) must be answered
            if (op < 0x40 && op != 0x00) { /* reserved opcodes: the statement only talks about requests it names */ }
        }
        nontrivial("C01", k, req, rsp);
    }

    // ------------------------------------------------------------------ per opcode
    void check(int k, const bytes& req, const bytes& rsp, unsigned cap) {
        check_framing(k, req, rsp, cap);
        const std::uint8_t op = req[0];
        switch (op) {
        case 0x02: exchange_mtu(k, req, rsp); break;
        case 0x04: find_information(k, req, rsp); break;
        case 0x06: find_by_type_value(k, req, rsp); break;
        case 0x08: read_by_type(k, req, rsp); break;
        case 0x0A: read(k, req, rsp); break;
        case 0x0C: read_blob(k, req, rsp); break;
        case 0x0E: read_multiple(k, req, rsp); break;
        case 0x10: read_by_group_type(k, req, rsp); break;
        case 0x12: write(k, req, rsp, false); break;
        case 0x52: write(k, req, rsp, true); break;
        case 0x16: prepare_write(k, req, rsp); break;
        case 0x18: execute_write(k, req, rsp); break;
        case 0x1E: confirmation(k, req, rsp); break;
        default: break;
        }
    }

    // ------------------------------------------------------------------ C08
    void exchange_mtu(int k, const bytes& req, const bytes& rsp) {
        verif::monitor& M = verif::mon("C08");
        conn_state& c = s.conn[k];
        const bool valid = req.size() == 3 && rd16(&req[1]) >= 23;
        M.cls(valid ? "exchange_valid" : (req.size() != 3 ? "exchange_wrong_length" : "exchange_below_23"));
        if (!valid) { expect_error("C08", "exchange:invalid_not_rejected", k, req, rsp, std::set<int>()); nontrivial("C08", k, req, rsp); return; }
        M.eval();
        if (rsp.size() != 3 || rsp[0] != 0x03) viol("C08", "exchange:valid_not_answered", k, req, rsp);
        else if (rd16(&rsp[1]) != decl::max_mtu) viol("C08", "exchange:response_not_server_maximum", k, req, rsp, "server max " + std::to_string(decl::max_mtu));
        c.client_mtu = rd16(&req[1]);
        nontrivial("C08", k, req, rsp, c.mtu());
    }

    // ------------------------------------------------------------------ helpers for discovery
    bool range_ok(const char* prop, int k, const bytes& req, const bytes& rsp, std::uint16_t& start, std::uint16_t& end) {
        start = rd16(&req[1]); end = rd16(&req[3]);
        if (start == 0 || start > end) { expect_error(prop, "range:invalid_range_not_rejected", k, req, rsp, one(E_INVALID_HANDLE)); verif::mon(prop).cls("invalid_range"); return false; }
        return true;
    }
    static const char* range_class(std::uint16_t start, std::uint16_t end) {
        const bool s_in = find_attr(start) >= 0, e_in = find_attr(end) >= 0;
        if (end == 0xFFFF) return s_in ? "range_start_attr_to_ffff" : "range_start_gap_to_ffff";
        if (s_in && e_in) return "range_attr_attr";
        if (s_in) return "range_attr_gap";
        if (e_in) return "range_gap_attr";
        return "range_gap_gap";
    }

    // ------------------------------------------------------------------ C02 Find Information
    void find_information(int k, const bytes& req, const bytes& rsp) {
        verif::monitor& M = verif::mon("C02");
        if (req.size() != 5) { expect_error("C02", "findinfo:bad_length_not_rejected", k, req, rsp, one(E_INVALID_PDU)); return; }
        std::uint16_t start, end;
        if (!range_ok("C02", k, req, rsp, start, end)) return;
        std::vector<int> Mset;
        for (std::size_t i = 0; i < decl::n_attrs; ++i) if (decl::attrs[i].handle >= start && decl::attrs[i].handle <= end) Mset.push_back(static_cast<int>(i));
        M.cls(std::string("findinfo_") + range_class(start, end));
        M.eval();
        if (Mset.empty()) { expect_error("C02", "findinfo:empty_range_not_attribute_not_found", k, req, rsp, one(E_NOT_FOUND)); nontrivial("C02", k, req, rsp, 1); return; }
        if (is_error(rsp, 0x04)) { viol("C02", "findinfo:error_although_attributes_in_range", k, req, rsp, "first match handle " + std::to_string(decl::attrs[Mset[0]].handle)); return; }
        if (rsp.size() < 2 || rsp[0] != 0x05 || (rsp[1] != 1 && rsp[1] != 2)) { viol("C02", "findinfo:malformed_response", k, req, rsp); return; }
        const unsigned ulen = rsp[1] == 1 ? 2 : 16, esz = 2 + ulen;
        if (rsp.size() == 2 || (rsp.size() - 2) % esz != 0) { viol("C02", rsp.size() == 2 ? "findinfo:empty_success_response" : "findinfo:malformed_response", k, req, rsp); return; }
        const unsigned n = (rsp.size() - 2) / esz;
        // the response must be the first n attributes of the range (nothing skipped, ascending, right type)
        for (unsigned i = 0; i < n; ++i) {
            const std::uint8_t* e = &rsp[2 + i * esz];
            const std::uint16_t h = rd16(e);
            if (h < start || h > end) { viol("C02", "findinfo:handle_outside_range", k, req, rsp); return; }
            if (i >= Mset.size() || decl::attrs[Mset[i]].handle != h) {
                viol("C02", find_attr(h) < 0 ? "findinfo:unknown_handle" : "findinfo:attribute_skipped_or_out_of_order", k, req, rsp,
                     "expected handle " + (i < Mset.size() ? std::to_string(decl::attrs[Mset[i]].handle) : std::string("none"))); return;
            }
            const model::attr& a = decl::attrs[Mset[i]];
            if (a.type_len != ulen || std::memcmp(a.type, e + 2, ulen) != 0) { viol("C02", "findinfo:wrong_type", k, req, rsp, "handle " + std::to_string(h)); return; }
        }
        nontrivial("C02", k, req, rsp, n * 8 + ulen);
    }

    // services whose declaration handle lies in the range
    std::vector<int> primary_in_range(std::uint16_t start, std::uint16_t end) const {
        std::vector<int> r;
        for (std::size_t i = 0; i < decl::n_svcs; ++i) if (decl::svcs[i].primary && decl::svcs[i].first >= start && decl::svcs[i].first <= end) r.push_back(static_cast<int>(i));
        return r;
    }
    int service_by_first(std::uint16_t h) const { for (std::size_t i = 0; i < decl::n_svcs; ++i) if (decl::svcs[i].first == h) return static_cast<int>(i); return -1; }

    // ------------------------------------------------------------------ C03 (+C02) Read By Group Type
    void read_by_group_type(int k, const bytes& req, const bytes& rsp) {
        if (req.size() != 7 && req.size() != 21) { expect_error("C02", "rbgt:bad_length_not_rejected", k, req, rsp, one(E_INVALID_PDU)); return; }
        std::uint16_t start, end;
        if (!range_ok("C02", k, req, rsp, start, end)) return;
        const bool primary = req.size() == 7 && rd16(&req[5]) == 0x2800;
        if (!primary) {
            // secondary service / other grouping types: not part of the statements; must at least be an error or a response
            verif::mon("C02").cls("rbgt_other_group_type");
            return;
        }
        verif::monitor& M2 = verif::mon("C02"); verif::monitor& M3 = verif::mon("C03");
        M2.eval(); M3.eval();
        M2.cls(std::string("rbgt_") + range_class(start, end)); M3.cls("rbgt_primary");
        const std::vector<int> Mset = primary_in_range(start, end);
        if (Mset.empty()) {
            if (is_error(rsp, 0x10) && rsp[4] == E_NOT_FOUND) { nontrivial("C02", k, req, rsp, 2); return; }
            // something was reported although nothing is in range: say what
            if (rsp.size() >= 6 && rsp[0] == 0x11) {
                const std::uint16_t h = rd16(&rsp[2]);
                const int sv = service_by_first(h);
                if (sv >= 0 && !decl::svcs[sv].primary) viol("C03", "rbgt:secondary_reported", k, req, rsp);
                else viol("C02", "rbgt:service_outside_range", k, req, rsp, "no primary service declaration in range");
            } else viol("C02", "rbgt:empty_range_not_attribute_not_found", k, req, rsp);
            return;
        }
        if (is_error(rsp, 0x10)) { viol("C02", "rbgt:error_although_service_in_range", k, req, rsp, "first service at " + std::to_string(decl::svcs[Mset[0]].first)); return; }
        if (rsp.size() < 2 || rsp[0] != 0x11 || (rsp[1] != 6 && rsp[1] != 20) || rsp.size() == 2 || (rsp.size() - 2) % rsp[1] != 0) { viol("C02", "rbgt:malformed_response", k, req, rsp); return; }
        const unsigned esz = rsp[1], n = (rsp.size() - 2) / esz;
        for (unsigned i = 0; i < n; ++i) {
            const std::uint8_t* e = &rsp[2 + i * esz];
            const std::uint16_t h = rd16(e), eg = rd16(e + 2);
            const int sv = service_by_first(h);
            if (sv >= 0 && !decl::svcs[sv].primary) { viol("C03", "rbgt:secondary_reported", k, req, rsp, "handle " + std::to_string(h)); return; }
            if (h < start || h > end) { viol("C02", "rbgt:service_outside_range", k, req, rsp, "handle " + std::to_string(h)); return; }
            if (i >= Mset.size() || decl::svcs[Mset[i]].first != h) { viol("C03", sv < 0 ? "rbgt:unknown_service_handle" : "rbgt:service_skipped_or_out_of_order", k, req, rsp); return; }
            const model::svc& sm = decl::svcs[Mset[i]];
            if (eg != sm.last) { viol("C03", "rbgt:wrong_end_group_handle", k, req, rsp, "expected " + std::to_string(sm.last)); return; }
            if (sm.uuid_len != esz - 4 || std::memcmp(sm.uuid, e + 4, sm.uuid_len) != 0) { viol("C03", "rbgt:wrong_uuid", k, req, rsp); return; }
        }
        nontrivial("C02", k, req, rsp, n); nontrivial("C03", k, req, rsp, n);
    }

    // ------------------------------------------------------------------ C03 Find By Type Value
    void find_by_type_value(int k, const bytes& req, const bytes& rsp) {
        if (req.size() < 7) { expect_error("C03", "fbtv:bad_length_not_rejected", k, req, rsp, one(E_INVALID_PDU)); return; }
        std::uint16_t start, end;
        if (req.size() != 9 && req.size() != 23 && is_error(rsp, 0x06) && rsp[4] == E_INVALID_PDU) { verif::mon("C03").cls("fbtv_odd_value_length"); return; }  // cannot match a service uuid
        if (!range_ok("C03", k, req, rsp, start, end)) return;
        if (rd16(&req[5]) != 0x2800) { verif::mon("C03").cls("fbtv_other_type"); return; }     // not covered by a statement
        verif::monitor& M = verif::mon("C03");
        M.eval();
        const bytes value(req.begin() + 7, req.end());
        std::vector<int> Mset;
        for (int sv : primary_in_range(start, end)) if (bytes(decl::svcs[sv].uuid, decl::svcs[sv].uuid + decl::svcs[sv].uuid_len) == value) Mset.push_back(sv);
        M.cls(Mset.empty() ? "fbtv_no_match" : "fbtv_match");
        if (Mset.empty()) {
            if (is_error(rsp, 0x06)) {
                // value lengths other than 2/16 cannot match anything: Attribute Not Found or Invalid PDU are both tolerated
                if (rsp[4] != E_NOT_FOUND && !(value.size() != 2 && value.size() != 16 && rsp[4] == E_INVALID_PDU)) viol("C03", "fbtv:wrong_error_code", k, req, rsp);
                nontrivial("C03", k, req, rsp, 3); return;
            }
            if (rsp.size() >= 5 && rsp[0] == 0x07) {
                const int sv = service_by_first(rd16(&rsp[1]));
                viol("C03", sv >= 0 && !decl::svcs[sv].primary ? "fbtv:secondary_reported" : "fbtv:non_matching_service_reported", k, req, rsp);
            } else viol("C03", "fbtv:no_match_not_attribute_not_found", k, req, rsp);
            return;
        }
        if (is_error(rsp, 0x06)) { viol("C03", "fbtv:error_although_service_matches", k, req, rsp, "first match at " + std::to_string(decl::svcs[Mset[0]].first)); return; }
        if (rsp.size() < 5 || rsp[0] != 0x07 || (rsp.size() - 1) % 4 != 0) { viol("C03", "fbtv:malformed_response", k, req, rsp); return; }
        const unsigned n = (rsp.size() - 1) / 4;
        for (unsigned i = 0; i < n; ++i) {
            const std::uint16_t h = rd16(&rsp[1 + 4 * i]), eg = rd16(&rsp[3 + 4 * i]);
            const int sv = service_by_first(h);
            if (sv >= 0 && !decl::svcs[sv].primary) { viol("C03", "fbtv:secondary_reported", k, req, rsp); return; }
            if (i >= Mset.size() || decl::svcs[Mset[i]].first != h) { viol("C03", "fbtv:non_matching_service_reported", k, req, rsp, "handle " + std::to_string(h)); return; }
            if (eg != decl::svcs[Mset[i]].last) { viol("C03", "fbtv:wrong_end_group_handle", k, req, rsp, "expected " + std::to_string(decl::svcs[Mset[i]].last)); return; }
        }
        nontrivial("C03", k, req, rsp, n);
    }

    // ------------------------------------------------------------------ C02 (+C05/C06) Read By Type
    void read_by_type(int k, const bytes& req, const bytes& rsp) {
        if (req.size() != 7 && req.size() != 21) { expect_error("C02", "rbt:bad_length_not_rejected", k, req, rsp, one(E_INVALID_PDU)); return; }
        std::uint16_t start, end;
        if (!range_ok("C02", k, req, rsp, start, end)) return;
        verif::monitor& M = verif::mon("C02");
        M.eval();
        const bytes type(req.begin() + 5, req.end());
        std::vector<int> Mset;
        for (std::size_t i = 0; i < decl::n_attrs; ++i)
            if (decl::attrs[i].handle >= start && decl::attrs[i].handle <= end && type_of(decl::attrs[i]) == type) Mset.push_back(static_cast<int>(i));
        M.cls(std::string("rbt_") + range_class(start, end)); M.cls(Mset.empty() ? "rbt_no_match" : "rbt_match");
        const conn_state& c = s.conn[k];
        if (Mset.empty()) {
            if (is_error(rsp, 0x08) && rsp[4] == E_NOT_FOUND) { nontrivial("C02", k, req, rsp, 4); return; }
            if (rsp.size() >= 4 && rsp[0] == 0x09) {
                const std::uint16_t h = rd16(&rsp[2]);
                viol("C02", (h < start || h > end) ? "rbt:handle_outside_range" : "rbt:wrong_type", k, req, rsp, "handle " + std::to_string(h));
            } else viol("C02", "rbt:no_match_not_attribute_not_found", k, req, rsp);
            return;
        }
        // readable matches under this connection's security
        const unsigned vmax = std::min<unsigned>(c.mtu() - 4, 253);
        if (is_error(rsp, 0x08)) {
            // permitted only if the FIRST matching attribute cannot be read (then its error), never 'not found'
            const outcome o = read_outcome(s, k, decl::attrs[Mset[0]], 0, vmax);
            if (o.ok) viol("C02", rsp[4] == E_NOT_FOUND ? "rbt:not_found_although_match_exists" : "rbt:error_although_first_match_readable", k, req, rsp, "first match handle " + std::to_string(decl::attrs[Mset[0]].handle));
            else if (rsp[4] == E_NOT_FOUND) viol("C02", "rbt:not_found_although_match_exists", k, req, rsp, "first match handle " + std::to_string(decl::attrs[Mset[0]].handle) + " (not readable: its error should be reported)");
            else if (!o.errs.count(rsp[4])) viol(o.security ? "C05" : "C06", "rbt:wrong_error_code", k, req, rsp);
            return;
        }
        if (rsp.size() < 4 || rsp[0] != 0x09 || rsp[1] < 2 || (rsp.size() - 2) % rsp[1] != 0) { viol("C02", "rbt:malformed_response", k, req, rsp); return; }
        const unsigned esz = rsp[1], n = (rsp.size() - 2) / esz;
        std::size_t pos = 0;    // position in Mset; entries must be an ascending sub-sequence; a skipped READABLE attribute of equal length is a defect
        for (unsigned i = 0; i < n; ++i) {
            const std::uint8_t* e = &rsp[2 + i * esz];
            const std::uint16_t h = rd16(e);
            if (h < start || h > end) { viol("C02", "rbt:handle_outside_range", k, req, rsp, "handle " + std::to_string(h)); return; }
            while (pos < Mset.size() && decl::attrs[Mset[pos]].handle < h) {
                // skipped element: acceptable only at the end of the list; inside the list it is lost for the client's iteration
                const outcome so = read_outcome(s, k, decl::attrs[Mset[pos]], 0, vmax);
                viol("C02", so.ok ? "rbt:readable_match_skipped" : "rbt:unreadable_match_skipped_silently", k, req, rsp, "skipped handle " + std::to_string(decl::attrs[Mset[pos]].handle));
                return;
            }
            if (pos >= Mset.size() || decl::attrs[Mset[pos]].handle != h) { viol("C02", find_attr(h) < 0 ? "rbt:unknown_handle" : "rbt:wrong_type", k, req, rsp, "handle " + std::to_string(h)); return; }
            const model::attr& a = decl::attrs[Mset[pos]];
            const outcome o = read_outcome(s, k, a, 0, vmax);
            if (!o.ok) { viol(o.security ? "C05" : "C06", o.security ? "rbt:protected_value_returned_unencrypted" : "rbt:unreadable_value_returned", k, req, rsp, "handle " + std::to_string(h)); return; }
            if (o.data.size() != esz - 2 || (esz > 2 && std::memcmp(o.data.data(), e + 2, esz - 2) != 0)) { viol("C06", "rbt:wrong_value", k, req, rsp, "handle " + std::to_string(h) + " expected " + verif::hex(o.data)); return; }
            ++pos;
        }
        nontrivial("C02", k, req, rsp, n * 4 + esz);
    }

    // ------------------------------------------------------------------ reads (C06 / C05)
    bool lookup(const char* prop, const std::string& key, int k, const bytes& req, const bytes& rsp, std::uint16_t handle, int& ai) {
        ai = find_attr(handle);
        if (handle == 0 || ai < 0) { expect_error(prop, key + ":invalid_handle_not_rejected", k, req, rsp, one(E_INVALID_HANDLE)); verif::mon(prop).cls("invalid_handle"); return false; }
        return true;
    }
    static const char* attr_class(const model::attr& a) {
        static const char* n[] = { "primary", "secondary", "include", "char_decl", "value", "cccd", "user_desc", "descriptor" };
        return n[a.kind];
    }
    void judge_read(int k, const bytes& req, const bytes& rsp, const model::attr& a, const outcome& o, std::uint8_t rsp_op, const std::string& key) {
        const char* prop = o.security ? "C05" : "C06";
        verif::mon("C06").eval(); if (decl::chars[a.chr < 0 ? 0 : a.chr].enc && a.chr >= 0) verif::mon("C05").eval();
        verif::mon("C06").cls(std::string("read_") + attr_class(a));
        if (!o.ok) {
            if (!is_error(rsp, req[0])) viol(prop, key + (o.security ? ":protected_value_returned_unencrypted" : ":forbidden_read_succeeded"), k, req, rsp, "handle " + std::to_string(a.handle));
            else if (!o.errs.count(rsp[4])) viol(prop, key + ":wrong_error_code", k, req, rsp);
            if (o.security) { verif::mon("C05").cls("protected_read_refused"); nontrivial("C05", k, req, rsp, a.kind); }
            nontrivial("C06", k, req, rsp, a.kind * 16 + 1);
            return;
        }
        if (a.chr >= 0 && decl::chars[a.chr].enc) { verif::mon("C05").cls("protected_read_encrypted"); nontrivial("C05", k, req, rsp, a.kind + 100); }
        if (is_error(rsp, req[0])) {
            const bool sec_code = rsp[4] == E_INSUFF_AUTH || rsp[4] == E_INSUFF_ENC;
            viol(sec_code ? "C05" : "C06", key + (sec_code ? ":security_error_although_permitted" : ":permitted_read_refused"), k, req, rsp, "handle " + std::to_string(a.handle)); return;
        }
        if (rsp.empty() || rsp[0] != rsp_op) return; // framing monitor reports
        if (bytes(rsp.begin() + 1, rsp.end()) != o.data) viol(a.kind == model::A_CCCD ? "C09" : (a.kind == model::A_CHAR_DECL || a.kind == model::A_INCLUDE || a.kind == model::A_PRIMARY || a.kind == model::A_SECONDARY) ? "C04" : "C06",
                                                            key + ":wrong_value", k, req, rsp, "handle " + std::to_string(a.handle) + " expected " + verif::hex(o.data));
        nontrivial("C06", k, req, rsp, a.kind * 16 + (o.data.size() == s.conn[k].mtu() - 1 ? 2 : 3));
    }
    void read(int k, const bytes& req, const bytes& rsp) {
        if (req.size() != 3) { expect_error("C06", "read:bad_length_not_rejected", k, req, rsp, one(E_INVALID_PDU)); return; }
        int ai; if (!lookup("C06", "read", k, req, rsp, rd16(&req[1]), ai)) return;
        judge_read(k, req, rsp, decl::attrs[ai], read_outcome(s, k, decl::attrs[ai], 0, s.conn[k].mtu() - 1), 0x0B, "read");
    }
    void read_blob(int k, const bytes& req, const bytes& rsp) {
        if (req.size() != 5) { expect_error("C06", "readblob:bad_length_not_rejected", k, req, rsp, one(E_INVALID_PDU)); return; }
        int ai; if (!lookup("C06", "readblob", k, req, rsp, rd16(&req[1]), ai)) return;
        const unsigned off = rd16(&req[3]);
        const outcome o = read_outcome(s, k, decl::attrs[ai], off, s.conn[k].mtu() - 1);
        verif::mon("C06").cls(off == 0 ? "blob_offset_0" : (!o.ok && o.errs.count(E_INVALID_OFFSET)) ? "blob_offset_past_end" : "blob_offset_inside");
        judge_read(k, req, rsp, decl::attrs[ai], o, 0x0D, "readblob");
    }
    void read_multiple(int k, const bytes& req, const bytes& rsp) {
        if (req.size() < 5 || req.size() % 2 == 0) { expect_error("C06", "readmulti:bad_length_not_rejected", k, req, rsp, one(E_INVALID_PDU)); return; }
        verif::mon("C06").eval(); verif::mon("C06").cls("read_multiple");
        bytes expect;
        for (std::size_t i = 1; i + 1 < req.size(); i += 2) {
            const std::uint16_t h = rd16(&req[i]);
            const int ai = find_attr(h);
            if (h == 0 || ai < 0) { expect_error("C06", "readmulti:invalid_handle_not_rejected", k, req, rsp, one(E_INVALID_HANDLE), h); return; }
            const outcome o = read_outcome(s, k, decl::attrs[ai], 0, 0xffff);
            if (!o.ok) {
                const char* prop = o.security ? "C05" : "C06";
                if (!is_error(rsp, 0x0E)) viol(prop, o.security ? "readmulti:protected_value_returned_unencrypted" : "readmulti:forbidden_read_succeeded", k, req, rsp, "handle " + std::to_string(h));
                else if (!o.errs.count(rsp[4])) viol(prop, "readmulti:wrong_error_code", k, req, rsp);
                if (o.security) nontrivial("C05", k, req, rsp, 200);
                return;
            }
            expect.insert(expect.end(), o.data.begin(), o.data.end());
        }
        if (expect.size() > s.conn[k].mtu() - 1) expect.resize(s.conn[k].mtu() - 1);
        if (is_error(rsp, 0x0E)) { viol("C06", "readmulti:permitted_read_refused", k, req, rsp); return; }
        if (!rsp.empty() && rsp[0] == 0x0F && bytes(rsp.begin() + 1, rsp.end()) != expect) viol("C06", "readmulti:wrong_value", k, req, rsp, "expected " + verif::hex(expect));
        nontrivial("C06", k, req, rsp, 300 + (req.size() - 1) / 2);
    }

    // ------------------------------------------------------------------ writes (C06 / C05 / C09)
    void write(int k, const bytes& req, const bytes& rsp, bool command) {
        const char* key = command ? "writecmd" : "write";
        if (req.size() < 3) { if (!command) expect_error("C06", "write:bad_length_not_rejected", k, req, rsp, one(E_INVALID_PDU)); return; }
        const std::uint16_t h = rd16(&req[1]);
        const int ai = find_attr(h);
        if (h == 0 || ai < 0) { if (!command) expect_error("C06", "write:invalid_handle_not_rejected", k, req, rsp, one(E_INVALID_HANDLE)); verif::mon("C06").cls("invalid_handle"); return; }
        const model::attr& a = decl::attrs[ai];
        const bytes v(req.begin() + 3, req.end());
        write_effect eff;
        const outcome o = write_outcome(s, k, a, 0, v, eff);
        const bool prot = a.chr >= 0 && decl::chars[a.chr].enc && (a.kind == model::A_VALUE || a.kind == model::A_CCCD);
        const char* prop = o.security ? "C05" : (a.kind == model::A_CCCD ? "C09" : "C06");
        verif::mon("C06").eval(); verif::mon("C06").cls(std::string(key) + "_" + attr_class(a));
        if (prot) { verif::mon("C05").eval(); verif::mon("C05").cls(o.security ? "protected_write_refused" : "protected_write_encrypted"); nontrivial("C05", k, req, rsp, 400 + a.kind + (command ? 8 : 0)); }
        if (a.kind == model::A_CCCD) { verif::mon("C09").eval(); verif::mon("C09").cls(o.ok ? "cccd_write_ok" : "cccd_write_rejected"); }
        if (o.ok) {
            // only_write_without_response characteristics: a Write Request may be refused or accepted (statement is silent); commands must work
            const bool lenient = !command && a.kind == model::A_VALUE && decl::chars[a.chr].only_wwr;
            if (!command && is_error(rsp, 0x12)) {
                if (lenient) { nontrivial("C06", k, req, rsp, 500); return; }   // refused and (checked by the memory monitor) nothing changed
                const bool sec_code = rsp[4] == E_INSUFF_AUTH || rsp[4] == E_INSUFF_ENC;
                viol(sec_code ? "C05" : prop, std::string(key) + (sec_code ? ":security_error_although_permitted" : ":permitted_write_refused"), k, req, rsp, "handle " + std::to_string(h));
                return;   // model not updated: the memory monitor will tell whether the value changed anyway
            }
            apply(s, k, eff);
            if (a.kind == model::A_CCCD) nontrivial("C09", k, req, rsp, eff.new_cccd * 4 + v.size());
        } else {
            if (!command) {
                if (!is_error(rsp, 0x12)) viol(prop, std::string(key) + (o.security ? ":protected_write_accepted_unencrypted" : ":forbidden_write_accepted"), k, req, rsp, "handle " + std::to_string(h));
                else if (!o.errs.count(rsp[4])) viol(prop, std::string(key) + ":wrong_error_code", k, req, rsp);
            }
        }
        nontrivial("C06", k, req, rsp, 600 + a.kind * 8 + (o.ok ? 1 : 0) + (command ? 2 : 0));
    }

    // ------------------------------------------------------------------ C07
    void prepare_write(int k, const bytes& req, const bytes& rsp) {
        verif::monitor& M = verif::mon("C07");
        if (decl::write_queue_size == 0) { expect_error("C07", "prepare:no_queue_not_rejected", k, req, rsp, one(E_NOT_SUPP)); return; }
        if (req.size() < 5) { expect_error("C07", "prepare:bad_length_not_rejected", k, req, rsp, one(E_INVALID_PDU)); return; }
        const std::uint16_t h = rd16(&req[1]);
        const int ai = find_attr(h);
        if (h == 0 || ai < 0) { expect_error("C07", "prepare:invalid_handle_not_rejected", k, req, rsp, one(E_INVALID_HANDLE)); M.cls("prepare_invalid_handle"); return; }
        const model::attr& a = decl::attrs[ai];
        M.eval();
        const outcome perm = write_permitted(s, k, a);
        M.cls(std::string("prepare_") + attr_class(a)); M.cls(perm.ok ? "prepare_permitted" : (perm.security ? "prepare_protected_unencrypted" : "prepare_not_writable"));
        if (!perm.ok) {
            if (!is_error(rsp, 0x16)) viol(perm.security ? "C05" : "C07", perm.security ? "prepare:accepted_for_protected_attribute_unencrypted" : "prepare:accepted_although_write_not_permitted", k, req, rsp, "handle " + std::to_string(h));
            else if (!perm.errs.count(rsp[4]) && rsp[4] != E_PREP_QUEUE_FULL) viol(perm.security ? "C05" : "C07", "prepare:wrong_error_code", k, req, rsp);
            nontrivial("C07", k, req, rsp, 1); return;
        }
        const std::size_t cost = (req.size() - 1) + 2;
        const bool other_owner = s.queue_owner >= 0 && s.queue_owner != k;
        const bool fits = s.queue_used + cost <= decl::write_queue_size;
        if (other_owner) {
            M.cls("prepare_queue_owned_by_other");
            if (!is_error(rsp, 0x16)) viol("C07", "prepare:accepted_while_other_client_owns_queue", k, req, rsp, "owner conn " + std::to_string(s.queue_owner));
            else if (rsp[4] != E_PREP_QUEUE_FULL) viol("C07", "prepare:wrong_error_code_for_owned_queue", k, req, rsp);
            nontrivial("C07", k, req, rsp, 2); return;
        }
        if (is_error(rsp, 0x16)) {
            if (rsp[4] == E_PREP_QUEUE_FULL && !fits) { M.cls("prepare_queue_full"); nontrivial("C07", k, req, rsp, 3); return; }
            const bool sec_code = rsp[4] == E_INSUFF_AUTH || rsp[4] == E_INSUFF_ENC;
            viol("C07", rsp[4] == E_PREP_QUEUE_FULL ? "prepare:queue_full_although_room" : (sec_code ? "prepare:security_error_although_write_permitted" : "prepare:refused_although_write_permitted"), k, req, rsp,
                 "handle " + std::to_string(h) + " queue used " + std::to_string(s.queue_used) + "/" + std::to_string(decl::write_queue_size));
            return;
        }
        if (!fits) { /* implementation found room the byte model did not: the statement does not fix the element cost */ M.cls("prepare_accepted_beyond_model_capacity"); }
        if (rsp.empty() || rsp[0] != 0x17) return;
        // echo: handle, offset, value truncated to the mtu
        bytes echo(req.begin() + 1, req.end());
        if (echo.size() > s.conn[k].mtu() - 1) echo.resize(s.conn[k].mtu() - 1);
        if (bytes(rsp.begin() + 1, rsp.end()) != echo) viol("C07", "prepare:wrong_echo", k, req, rsp);
        prepared p; p.handle = h; p.offset = rd16(&req[3]); p.value.assign(req.begin() + 5, req.end());
        s.queue.push_back(p); s.queue_owner = k; s.queue_used += cost;
        M.cls("prepare_accepted");
        nontrivial("C07", k, req, rsp, 4 + a.kind);
    }
    void release_queue(int k) { if (s.queue_owner == k) { s.queue_owner = -1; s.queue.clear(); s.queue_used = 0; } }
    void execute_write(int k, const bytes& req, const bytes& rsp) {
        verif::monitor& M = verif::mon("C07");
        if (decl::write_queue_size == 0) { expect_error("C07", "execute:no_queue_not_rejected", k, req, rsp, one(E_NOT_SUPP)); return; }
        if (req.size() != 2 || req[1] > 1) { expect_error("C07", "execute:bad_pdu_not_rejected", k, req, rsp, one(E_INVALID_PDU)); M.cls("execute_invalid"); return; }
        M.eval();
        const bool mine = s.queue_owner == k;
        M.cls(req[1] ? (mine ? "execute_commit_owner" : "execute_commit_nothing") : (mine ? "execute_cancel_owner" : "execute_cancel_nothing"));
        bool failed = false; int fail_handle = -1; std::set<int> fail_codes; bool fail_security = false;
        if (req[1] == 1 && mine) {
            for (std::size_t i = 0; i < s.queue.size(); ++i) {
                const prepared& p = s.queue[i];
                const int ai = find_attr(p.handle);
                write_effect eff;
                const outcome o = write_outcome(s, k, decl::attrs[ai], p.offset, p.value, eff);
                if (!o.ok) { failed = true; fail_handle = p.handle; fail_codes = o.errs; fail_security = o.security; M.cls("execute_failing_element"); break; }
                apply(s, k, eff);
                M.cls("execute_element_applied");
            }
        }
        release_queue(k);
        if (failed) {
            if (!is_error(rsp, 0x18)) viol(fail_security ? "C05" : "C07", "execute:success_although_element_fails", k, req, rsp, "failing handle " + std::to_string(fail_handle));
            // error code: the statement does not fix it beyond "the element is not applied" (memory monitor decides)
        } else {
            if (is_error(rsp, 0x18)) viol("C07", "execute:refused_although_all_elements_valid", k, req, rsp);
        }
        nontrivial("C07", k, req, rsp, 100 + (mine ? 2 : 0) + req[1] + (failed ? 4 : 0));
    }

    // ------------------------------------------------------------------ C11 confirmation
    void confirmation(int k, const bytes& req, const bytes& rsp) {
        verif::monitor& M = verif::mon("C11");
        M.eval();
        if (req.size() != 1) {
            M.cls("confirmation_wrong_length");
            if (!is_error(rsp, 0x1E)) viol("C11", "confirmation:wrong_length_not_rejected", k, req, rsp);
            return;    // must not count as confirmation: the model keeps the indication outstanding
        }
        M.cls(s.conn[k].outstanding >= 0 ? "confirmation_expected" : "confirmation_unexpected");
        s.conn[k].outstanding = -1;
    }
};

} // namespace am
#endif
