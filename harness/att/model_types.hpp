// Plain-data description of the EXPECTED attribute database of one declaration (written by vlib/declgen.py).
// Included after the generated header has defined `server_t`.
#ifndef VERIF_ATT_MODEL_TYPES_HPP
#define VERIF_ATT_MODEL_TYPES_HPP
#include <cstdint>
#include <cstddef>

namespace model {
    enum akind { A_PRIMARY = 0, A_SECONDARY, A_INCLUDE, A_CHAR_DECL, A_VALUE, A_CCCD, A_USER_DESC, A_DESCRIPTOR };
    enum vkind { V_BOUND, V_FIXED, V_HANDLER };

    typedef bool (*req_thunk)( server_t& );
    typedef bool (*conf_thunk)( server_t&, const bluetoe::details::client_characteristic_configuration& );

    struct chr {
        int             svc;
        std::uint16_t   decl_h, value_h, cccd_h;    // cccd_h == 0: no CCCD
        std::uint8_t    props;
        bool            enc;                         // encryption required (after server/service/characteristic inheritance)
        std::uint8_t    uuid_len;
        std::uint8_t    uuid[ 16 ];
        vkind           vk;
        std::uint8_t*   mem;                         // V_BOUND / V_HANDLER: storage inside decl::arena
        const std::uint8_t* fixed;                   // V_FIXED
        std::uint16_t   size;
        bool            readable, writable, blob;    // blob: offsets > 0 are supported
        bool            notify, indicate;
        int             cccd_ord;                    // ordinal among CCCD owning characteristics in declaration order, -1: none
        bool            only_wwr;
        req_thunk       notify_value, notify_uuid, indicate_value, indicate_uuid;
        conf_thunk      conf_notify, conf_indicate, conf_any;
    };

    struct attr {
        std::uint16_t   handle;
        int             kind;
        int             chr;
        int             svc;
        std::uint8_t    type_len;
        std::uint8_t    type[ 16 ];
        const std::uint8_t* value;                   // constant attributes (declarations, descriptors); nullptr for VALUE and CCCD
        std::uint16_t   value_len;
    };

    struct svc {
        bool            primary;
        std::uint16_t   first, last;
        std::uint8_t    uuid_len;
        std::uint8_t    uuid[ 16 ];
        bool            gap;
    };

    struct adv {
        bool            auto_adv;
        bool            has_appearance; std::uint16_t appearance;
        int             name_len; const char* name;              // -1: no name configured
        int             n_must16; std::uint8_t must16[ 64 ]; std::uint8_t may16[ 64 ]; int n_may16;
        std::uint8_t    must128[ 16 * 8 ]; int n_must128; std::uint8_t may128[ 16 * 8 ]; int n_may128;
        bool            lists; int reserved;
        bool            has_interval; std::uint16_t interval_min, interval_max;
        bool            has_custom_adv; std::uint8_t custom_adv[ 40 ]; int custom_adv_len;
        bool            has_custom_scan; std::uint8_t custom_scan[ 40 ]; int custom_scan_len;
    };
}
#endif
