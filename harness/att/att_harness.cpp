// Family A harness: one generated declaration (header given by -DDECL_HEADER) driven with long seeded
// histories of ATT PDUs, security changes, notification requests, polls and reconnects on 3 connections.
// Monitors: C01 C02 C03 C04 C05 C06 C07 C08 C09 C10 C11 C14.
#include DECL_HEADER
#include "common/verif.hpp"
#include "att/att_model.hpp"
#include "att/att_check.hpp"

#include <bluetoe/link_state.hpp>
#include <new>

using am::bytes;
using am::NCONN;
using verif::mon;

typedef server_t::channel_data_t<bluetoe::details::link_state> conn_t;

static server_t* g_srv;
static conn_t* g_conn[NCONN];
static am::state* g_state;
static am::checker* g_chk;
static verif::prng g_rng(1);
static int g_current_conn = 0;            // connection whose PDU is being processed (for the confirmation callback)
static unsigned long long g_step = 0;
static std::set<unsigned long long> g_skip;
static unsigned g_unique = 1;
static bool g_exact_mtu_buffers = false;  // output buffers of exactly the negotiated mtu instead of the server maximum

// ---------------------------------------------------------------------------------------------
// mock of the link layer's notification callback (link_layer::queue_lcap_notification), for all connections
static int g_cb_requested_chr = -1;
static bool g_cb_is_indication = false;

static int chr_by_value_handle(std::uint16_t h) { for (std::size_t i = 0; i < decl::n_chars; ++i) if (decl::chars[i].value_h == h) return static_cast<int>(i); return -1; }

static bool notification_cb(const bluetoe::details::notification_data& item, void*, bluetoe::details::notification_type type) {
    using bluetoe::details::notification_type;
    if (type == notification_type::confirmation) { g_conn[g_current_conn]->indication_confirmed(); return true; }
    bool any_new = false;
    for (int k = 0; k < NCONN; ++k) {
        am::conn_state& c = g_state->conn[k];
        const bool is_new = type == notification_type::notification
            ? g_conn[k]->queue_notification(item.client_characteristic_configuration_index())
            : g_conn[k]->queue_indication(item.client_characteristic_configuration_index());
        any_new = any_new || is_new;
        if (g_cb_requested_chr >= 0) {
            // "reported newly queued exactly when it was not pending"
            std::set<int>& pend = g_cb_is_indication ? c.pendI : c.pendN;
            std::set<int>& maybe = g_cb_is_indication ? c.maybeI : c.maybeN;
            const int ch = g_cb_requested_chr;
            mon("C10").eval();
            if (maybe.count(ch)) { maybe.erase(ch); pend.insert(ch); }
            else {
                const bool expect_new = !pend.count(ch);
                if (is_new != expect_new)
                    verif::violation("C10", std::string("C10:request:") + (expect_new ? "reported_not_new_although_not_pending" : "reported_new_although_pending"),
                                     "decl=" + std::string(decl::declaration_name) + " conn=" + std::to_string(k) + " chr=" + std::to_string(ch) + (g_cb_is_indication ? " indication" : " notification"), g_step);
                pend.insert(ch);
            }
        }
    }
    return any_new;
}

// ---------------------------------------------------------------------------------------------
static void check_memory(const char* prop_hint, const std::string& what) {
    for (std::size_t r = 0; r < decl::n_regions; ++r) {
        const decl::region& reg = decl::regions[r];
        const bytes& sh = g_state->shadow[reg.chr];
        mon("C06").eval();
        if (std::memcmp(reg.p, sh.data(), reg.n) != 0) {
            const model::chr& c = decl::chars[reg.chr];
            std::string key = std::string(prop_hint) + ":memory:";
            key += c.writable ? "value_differs_from_model" : "unwritable_value_changed";
            verif::violation(prop_hint, key, "decl=" + std::string(decl::declaration_name) + " chr=" + std::to_string(reg.chr) + " value handle " + std::to_string(c.value_h) +
                             " memory=" + verif::hex(reg.p, std::min<std::size_t>(reg.n, 40)) + " model=" + verif::hex(sh.data(), std::min<std::size_t>(sh.size(), 40)) + " after " + what, g_step);
            // resynchronise so one defect is reported once
            g_state->shadow[reg.chr].assign(reg.p, reg.p + reg.n);
        }
    }
    if (decl::has_cccd_callback) {
        mon("C09").eval();
        if (decl::cccd_callbacks != g_state->expected_cccd_callbacks) {
            verif::violation("C09", decl::cccd_callbacks > g_state->expected_cccd_callbacks ? "C09:callback:invoked_without_change" : "C09:callback:missing_after_change",
                             "decl=" + std::string(decl::declaration_name) + " callbacks=" + std::to_string(decl::cccd_callbacks) + " expected=" + std::to_string(g_state->expected_cccd_callbacks) + " after " + what, g_step);
            g_state->expected_cccd_callbacks = decl::cccd_callbacks;
        }
    }
}

// C05: no outgoing PDU may contain a protected value while the link is not encrypted
static bytes g_last_request;
static void leak_scan(int k, const bytes& pdu, const char* path) {
    const am::conn_state& c = g_state->conn[k];
    if (c.encrypted || pdu.size() < 4) return;
    for (std::size_t i = 0; i < decl::n_chars; ++i) {
        const model::chr& ch = decl::chars[i];
        if (!ch.enc || ch.size < 8) continue;
        bytes v = ch.mem ? g_state->shadow[i] : bytes(ch.fixed, ch.fixed + ch.size);
        // protected values carry unique patterns: look for any aligned 8 octet window of the value.  (A 4 octet window is not sound: the
        // thorough tier showed windows made of a PDU header octet, or of the first octet of a later write, followed by three octets of
        // another value that happened to agree with a protected value's window.)
        mon("C05").eval();
        for (std::size_t off = 0; off + 8 <= v.size(); off += 4) {
            if (std::search(pdu.begin(), pdu.end(), v.begin() + off, v.begin() + off + 8) != pdu.end()) {
                verif::violation("C05", std::string("C05:leak:protected_value_in_pdu_while_unencrypted:") + path,
                                 "decl=" + std::string(decl::declaration_name) + " conn=" + std::to_string(k) + " chr=" + std::to_string(i) + " pdu=" + verif::hex(pdu) + " last_request=" + verif::hex(g_last_request) + " protected_value=" + verif::hex(v), g_step);
                return;
            }
        }
    }
}

static bytes exchange(int k, const bytes& req, const char* prop = "C01") {
    verif::ctx_prop(prop); verif::ctx_step(g_step); verif::ctx_op("l2cap_input", req.data(), req.size());
    am::conn_state& c = g_state->conn[k];
    const unsigned cap = g_exact_mtu_buffers ? c.mtu() : decl::max_mtu;
    verif::exact_buffer in(req.data(), req.size());
    verif::exact_buffer out(cap);
    std::size_t out_size = cap;
    g_current_conn = k;
    g_cb_requested_chr = -1;
    verif::arm_hang_timer(20);
    g_srv->l2cap_input(in.data(), req.size(), out.data(), out_size, *g_conn[k]);
    verif::disarm_hang_timer();
    bytes rsp;
    if (out_size > cap) {
        verif::violation("C01", "C01:framing:out_size_larger_than_buffer", "decl=" + std::string(decl::declaration_name) + " req=" + verif::hex(req) + " out_size=" + std::to_string(out_size), g_step);
        out_size = cap;
    }
    rsp.assign(out.data(), out.data() + out_size);
    g_chk->step = g_step;
    g_chk->check(k, req, rsp, cap);
    const std::uint8_t op = req[0];
    check_memory((op == 0x16 || op == 0x18) ? "C07" : "C06", "req=" + verif::hex(req));
    g_last_request = req;
    leak_scan(k, rsp, "response");
    return rsp;
}

// ---------------------------------------------------------------------------------------------
// notifications / indications (C10, C11, C08)
static void request(int chr, bool indication, bool by_uuid) {
    const model::chr& c = decl::chars[chr];
    model::req_thunk t = indication ? (by_uuid ? c.indicate_uuid : c.indicate_value) : (by_uuid ? c.notify_uuid : c.notify_value);
    if (!t) return;
    verif::ctx_prop("C10"); verif::ctx_step(g_step); verif::ctx_op(by_uuid ? "request by uuid" : "request by value");
    g_cb_requested_chr = chr; g_cb_is_indication = indication;
    mon("C10").cls(std::string(indication ? "indicate_" : "notify_") + (by_uuid ? "by_uuid" : "by_value"));
    t(*g_srv);
    g_cb_requested_chr = -1;
}

static void poll(int k) {
    verif::ctx_prop("C10"); verif::ctx_step(g_step); verif::ctx_op("l2cap_output");
    am::conn_state& c = g_state->conn[k];
    const unsigned cap = g_exact_mtu_buffers ? c.mtu() : decl::max_mtu;
    verif::exact_buffer out(cap);
    std::size_t out_size = cap;
    g_current_conn = k;
    verif::arm_hang_timer(20);
    g_srv->l2cap_output(out.data(), out_size, *g_conn[k]);
    verif::disarm_hang_timer();
    const std::string where = "decl=" + std::string(decl::declaration_name) + " conn=" + std::to_string(k) + " mtu=" + std::to_string(c.mtu());
    if (out_size > cap) { verif::violation("C01", "C01:framing:out_size_larger_than_buffer", where + " l2cap_output out_size=" + std::to_string(out_size), g_step); out_size = cap; }
    const bytes pdu(out.data(), out.data() + out_size);
    mon("C10").eval(); mon("C11").eval(); mon("C08").eval();
    // eligible: subscribed pending entries that could be sent now
    std::set<int> eligN, eligI, unsubN, unsubI;
    // a value that requires encryption can not be sent on an unencrypted link: such an entry is treated like one of an
    // unsubscribed client (it may be dropped silently)
    for (int ch : c.pendN) ((c.cccd[decl::chars[ch].cccd_ord] & 1) && (!decl::chars[ch].enc || c.encrypted) ? eligN : unsubN).insert(ch);
    for (int ch : c.pendI) ((c.cccd[decl::chars[ch].cccd_ord] & 2) && (!decl::chars[ch].enc || c.encrypted) ? eligI : unsubI).insert(ch);
    if (pdu.empty()) {
        mon("C10").cls("poll_empty");
        // an entry of an unsubscribed client may have been consumed silently: all of them become uncertain
        for (int ch : unsubN) { c.pendN.erase(ch); c.maybeN.insert(ch); }
        if (c.outstanding < 0) for (int ch : unsubI) { c.pendI.erase(ch); c.maybeI.insert(ch); }
        const bool could_send = !eligN.empty() || (!eligI.empty() && c.outstanding < 0);
        if (could_send && unsubN.empty() && (unsubI.empty() || c.outstanding >= 0)) {
            // nothing could have been dropped instead: bounded progress
            if (++c.empty_polls_with_eligible > 2 * decl::n_chars + 2) {
                const bool ind = eligN.empty();
                verif::violation(ind ? "C11" : "C10", ind ? "C11:progress:accepted_indication_never_transmitted" : "C10:progress:accepted_notification_never_transmitted",
                                 where + " pending chr " + std::to_string(ind ? *eligI.begin() : *eligN.begin()) + " subscribed, no confirmation outstanding in the model", g_step);
                c.empty_polls_with_eligible = 0; c.pendN.clear(); c.pendI.clear();
            }
        }
        return;
    }
    c.empty_polls_with_eligible = 0;
    leak_scan(k, pdu, "notification");
    if (pdu.size() > c.mtu()) verif::violation("C08", "C08:notification:longer_than_negotiated_mtu", where + " pdu length " + std::to_string(pdu.size()) + " pdu=" + verif::hex(pdu), g_step);
    if (pdu.size() < 3 || (pdu[0] != 0x1B && pdu[0] != 0x1D)) { verif::violation("C10", "C10:output:not_a_notification_or_indication", where + " pdu=" + verif::hex(pdu), g_step); return; }
    const bool ind = pdu[0] == 0x1D;
    const std::uint16_t h = static_cast<std::uint16_t>(pdu[1] | (pdu[2] << 8));
    const int ch = chr_by_value_handle(h);
    mon("C10").cls(ind ? "poll_indication" : "poll_notification");
    if (ch < 0) { verif::violation("C10", "C10:output:handle_is_not_a_value_handle", where + " pdu=" + verif::hex(pdu), g_step); return; }
    std::set<int>& pend = ind ? c.pendI : c.pendN;
    std::set<int>& maybe = ind ? c.maybeI : c.maybeN;
    if (!pend.count(ch) && !maybe.count(ch)) {
        verif::violation("C10", std::string("C10:output:") + (ind ? "indication" : "notification") + "_for_characteristic_not_requested", where + " chr " + std::to_string(ch) + " pdu=" + verif::hex(pdu) +
                         " pending=" + std::to_string(pend.size()), g_step);
    }
    pend.erase(ch); maybe.erase(ch);
    const model::chr& mc = decl::chars[ch];
    if (!(c.cccd[mc.cccd_ord] & (ind ? 2 : 1)))
        verif::violation("C10", std::string("C10:output:sent_to_unsubscribed_client:") + (ind ? "indication" : "notification"), where + " chr " + std::to_string(ch) + " cccd=" + std::to_string(c.cccd[mc.cccd_ord]), g_step);
    if (mc.enc && !c.encrypted) verif::violation("C05", "C05:notification:protected_value_sent_unencrypted", where + " chr " + std::to_string(ch), g_step);
    // value: current value truncated to mtu - 3
    bytes v = mc.mem ? g_state->shadow[ch] : bytes(mc.fixed, mc.fixed + mc.size);
    if (v.size() > c.mtu() - 3) v.resize(c.mtu() - 3);
    const bytes got(pdu.begin() + 3, pdu.end());
    if (got != v) {
        if (got.size() > v.size() && std::equal(v.begin(), v.end(), got.begin())) { /* longer than the mtu allows: reported by C08 above */ }
        else verif::violation("C10", "C10:output:wrong_value", where + " chr " + std::to_string(ch) + " expected " + verif::hex(v) + " pdu=" + verif::hex(pdu), g_step);
    }
    if (ind) {
        if (c.outstanding >= 0) verif::violation("C11", "C11:indication_sent_while_previous_unconfirmed", where + " outstanding chr " + std::to_string(c.outstanding) + " new chr " + std::to_string(ch), g_step);
        c.outstanding = ch;
        mon("C11").nontrivial(verif::mix(verif::hstr(decl::declaration_name), ch * 7 + k));
    }
    mon("C10").nontrivial(verif::mix(verif::mix(verif::hstr(decl::declaration_name), ch), (ind ? 1 : 0) + 2 * k + 8 * (v.size() == c.mtu() - 3)));
    mon("C10").sample(where + " chr " + std::to_string(ch) + " cccd=" + std::to_string(c.cccd[mc.cccd_ord]) + " pdu=" + verif::hex(pdu), 3);
    if (ind) mon("C11").sample(where + " indication chr " + std::to_string(ch) + " pdu=" + verif::hex(pdu) + " (then held until confirmation)", 3);
    mon("C08").sample(where + " outgoing pdu length " + std::to_string(pdu.size()) + " negotiated mtu " + std::to_string(c.mtu()), 3);
    mon("C08").nontrivial(verif::mix(verif::hstr(decl::declaration_name), 0x1000 + c.mtu() * 4 + (pdu.size() == c.mtu())));
}

// ---------------------------------------------------------------------------------------------
static void reconnect(int k) {
    verif::ctx_prop("C07"); verif::ctx_op("reconnect");
    g_srv->client_disconnected(*g_conn[k]);
    g_conn[k]->~conn_t();
    new (g_conn[k]) conn_t();
    g_state->conn[k].reset();
    g_chk->release_queue(k);
    mon("C07").cls("disconnect"); mon("C09").cls("reconnect");
}

static void set_security(int k, bool enc, int pair) {
    using bluetoe::device_pairing_status;
    g_conn[k]->is_encrypted(enc);
    g_conn[k]->pairing_status(pair == am::P_NONE ? device_pairing_status::no_key : pair == am::P_UNAUTH ? device_pairing_status::unauthenticated_key : device_pairing_status::authenticated_key);
    g_state->conn[k].encrypted = enc; g_state->conn[k].pair = pair;
    mon("C05").cls(enc ? "state_encrypted" : (pair == am::P_NONE ? "state_unencrypted_no_key" : "state_unencrypted_with_key"));
}

// ---------------------------------------------------------------------------------------------
// generators
static std::uint16_t pick_handle() {
    const unsigned r = g_rng.below(100);
    const model::attr& a = decl::attrs[g_rng.below(decl::n_attrs)];
    if (r < 70) return a.handle;
    if (r < 78) return static_cast<std::uint16_t>(a.handle + 1);
    if (r < 86) return static_cast<std::uint16_t>(a.handle - 1);
    if (r < 90) return 0;
    if (r < 94) return 0xFFFF;
    if (r < 97) return static_cast<std::uint16_t>(am::last_handle() + 1 + g_rng.below(3));
    return static_cast<std::uint16_t>(g_rng.next());
}
static std::uint16_t pick_handle_of_kind(int kind) {
    std::vector<std::uint16_t> hs;
    for (std::size_t i = 0; i < decl::n_attrs; ++i) if (decl::attrs[i].kind == kind) hs.push_back(decl::attrs[i].handle);
    return hs.empty() ? pick_handle() : g_rng.pick(hs);
}
static void put16(bytes& b, std::uint16_t v) { b.push_back(v & 0xff); b.push_back(v >> 8); }
static bytes unique_bytes(std::size_t n) {
    bytes b(n);
    const unsigned id = g_unique++;
    // every aligned group of four octets carries the 16 low bits of the id and two octets that depend on id AND position, so that a value
    // that was partly overwritten by a later write does not look like the octets of a third write (that is what the C05 leak scan relies on)
    for (std::size_t i = 0; i < n; ++i) {
        const std::uint32_t m = (id * 2654435761u) ^ (static_cast<std::uint32_t>(i / 4) * 0x9E3779B1u + 0x7F4A7C15u);
        b[i] = static_cast<std::uint8_t>(i % 4 == 0 ? id : i % 4 == 1 ? id >> 8 : i % 4 == 2 ? (m >> 11) ^ (id >> 16) : (m >> 23));
    }
    return b;
}
static bytes pick_type() {
    const unsigned r = g_rng.below(100);
    if (r < 75) { const model::attr& a = decl::attrs[g_rng.below(decl::n_attrs)]; return bytes(a.type, a.type + a.type_len); }
    if (r < 90) { bytes t; put16(t, g_rng.chance(1, 2) ? 0x2800 : (g_rng.chance(1, 2) ? 0x2803 : 0x2801)); return t; }
    if (r < 95) {
        // boundary values of the 16 bit type space (values the implementation might use internally as markers), in 16 bit form or
        // as the equivalent 128 bit UUID built on the Bluetooth base UUID
        static const std::uint16_t edge[] = { 0x0000, 0x0001, 0x0002, 0x00ff, 0x0100, 0x27ff, 0x2804, 0x7fff, 0x8000, 0xfffe, 0xffff };
        const std::uint16_t v = edge[g_rng.below(sizeof edge / sizeof edge[0])];
        bytes t;
        if (g_rng.chance(2, 3)) { put16(t, v); return t; }
        static const std::uint8_t base[12] = { 0xfb, 0x34, 0x9b, 0x5f, 0x80, 0x00, 0x00, 0x80, 0x00, 0x10, 0x00, 0x00 };
        t.assign(base, base + 12); put16(t, v); put16(t, 0); return t;
    }
    bytes t(g_rng.chance(1, 2) ? 2 : 16); for (auto& x : t) x = g_rng.byte(); return t;
}
static void pick_range(std::uint16_t& s, std::uint16_t& e) {
    s = pick_handle();
    const unsigned r = g_rng.below(100);
    if (r < 35) e = 0xFFFF; else if (r < 85) e = pick_handle(); else e = s;
    if (e < s && g_rng.chance(9, 10)) std::swap(s, e);
}
static unsigned value_size_of(std::uint16_t handle) {
    const int ai = am::find_attr(handle);
    if (ai < 0) return 4;
    const model::attr& a = decl::attrs[ai];
    if (a.kind == model::A_VALUE) return decl::chars[a.chr].size;
    if (a.kind == model::A_CCCD) return 2;
    return a.value_len;
}

static bytes gen_pdu(int k) {
    const am::conn_state& c = g_state->conn[k];
    bytes p;
    const unsigned r = g_rng.below(1000);
    std::uint16_t s, e;
    if (r < 40) {           // exchange mtu
        p.push_back(0x02);
        static const unsigned vals[] = { 0, 22, 23, 24, 48, 0, 0, 0xFFFF, 0x100 };
        unsigned v = vals[g_rng.below(9)];
        if (v == 0) v = g_rng.chance(1, 2) ? decl::max_mtu : decl::max_mtu + g_rng.range(-1, 1);
        put16(p, static_cast<std::uint16_t>(v));
        if (g_rng.chance(1, 8)) { if (g_rng.chance(1, 2)) p.pop_back(); else p.push_back(0); }
    } else if (r < 120) {   // find information
        p.push_back(0x04); pick_range(s, e); put16(p, s); put16(p, e);
    } else if (r < 180) {   // find by type value (primary service)
        p.push_back(0x06); pick_range(s, e); put16(p, s); put16(p, e); put16(p, g_rng.chance(9, 10) ? 0x2800 : 0x2801);
        const model::svc& sv = decl::svcs[g_rng.below(decl::n_svcs)];
        if (g_rng.chance(8, 10)) p.insert(p.end(), sv.uuid, sv.uuid + sv.uuid_len); else { bytes t(g_rng.chance(1, 2) ? 2 : 16); for (auto& x : t) x = g_rng.byte(); p.insert(p.end(), t.begin(), t.end()); }
    } else if (r < 280) {   // read by type
        p.push_back(0x08); pick_range(s, e); put16(p, s); put16(p, e); const bytes t = pick_type(); p.insert(p.end(), t.begin(), t.end());
    } else if (r < 350) {   // read by group type
        p.push_back(0x10); pick_range(s, e); put16(p, s); put16(p, e);
        if (g_rng.chance(9, 10)) put16(p, 0x2800); else { const bytes t = pick_type(); p.insert(p.end(), t.begin(), t.end()); }
    } else if (r < 450) {   // read
        p.push_back(0x0A); put16(p, g_rng.chance(1, 2) ? pick_handle_of_kind(model::A_VALUE) : pick_handle());
    } else if (r < 530) {   // read blob
        p.push_back(0x0C); const std::uint16_t h = g_rng.chance(2, 3) ? pick_handle_of_kind(model::A_VALUE) : pick_handle(); put16(p, h);
        const unsigned n = value_size_of(h); static const int d[] = { 0, 1, -1, 0, 1, 2 };
        const unsigned rr = g_rng.below(8);
        put16(p, static_cast<std::uint16_t>(rr < 2 ? 0 : rr < 5 ? n + d[g_rng.below(6)] - 0 : rr < 7 ? g_rng.below(n + 1) : 0xFFFF));
    } else if (r < 570) {   // read multiple
        p.push_back(0x0E); const unsigned n = g_rng.range(1, 4); for (unsigned i = 0; i < n; ++i) put16(p, g_rng.chance(4, 5) ? pick_handle_of_kind(model::A_VALUE) : pick_handle());
    } else if (r < 720) {   // write request / command
        p.push_back(g_rng.chance(2, 3) ? 0x12 : 0x52);
        const unsigned w = g_rng.below(10);
        const std::uint16_t h = w < 5 ? pick_handle_of_kind(model::A_VALUE) : w < 8 ? pick_handle_of_kind(model::A_CCCD) : pick_handle();
        put16(p, h);
        const int ai = am::find_attr(h);
        if (ai >= 0 && decl::attrs[ai].kind == model::A_CCCD) {
            const unsigned q = g_rng.below(10);
            if (q < 6) { p.push_back(static_cast<std::uint8_t>(g_rng.below(4))); p.push_back(0); }
            else if (q < 7) { p.push_back(g_rng.byte()); p.push_back(g_rng.byte()); }
            else if (q < 8) { p.push_back(static_cast<std::uint8_t>(g_rng.below(4))); }
            else if (q < 9) { }
            else { p.push_back(1); p.push_back(0); p.push_back(0); }
        } else {
            const unsigned n = value_size_of(h); static const int d[] = { 0, 0, 0, -1, 1, 0 };
            int len = static_cast<int>(n) + d[g_rng.below(6)];
            if (g_rng.chance(1, 6)) len = g_rng.below(n + 2);
            len = std::max(0, std::min<int>(len, static_cast<int>(c.mtu()) - 3));
            const bytes v = unique_bytes(len); p.insert(p.end(), v.begin(), v.end());
        }
    } else if (r < 820) {   // prepare write
        p.push_back(0x16);
        const unsigned w = g_rng.below(10);
        const std::uint16_t h = w < 6 ? pick_handle_of_kind(model::A_VALUE) : w < 8 ? pick_handle_of_kind(model::A_CCCD) : pick_handle();
        put16(p, h);
        const unsigned n = value_size_of(h);
        const unsigned off = g_rng.chance(1, 2) ? 0 : (g_rng.chance(4, 5) ? g_rng.below(n + 2) : 0xFFFF);
        put16(p, static_cast<std::uint16_t>(off));
        int len = g_rng.chance(3, 4) ? static_cast<int>(n) - static_cast<int>(std::min(off, n)) + g_rng.range(-1, 1) : g_rng.below(n + 2);
        len = std::max(0, std::min<int>(len, static_cast<int>(c.mtu()) - 5));
        const bytes v = unique_bytes(len); p.insert(p.end(), v.begin(), v.end());
        if (g_rng.chance(1, 30)) p.resize(g_rng.range(1, 4));
    } else if (r < 870) {   // execute write
        p.push_back(0x18); p.push_back(g_rng.chance(7, 10) ? 1 : (g_rng.chance(5, 6) ? 0 : g_rng.byte()));
        if (g_rng.chance(1, 15)) { if (g_rng.chance(1, 2)) p.pop_back(); else p.push_back(0); }
    } else if (r < 900) {   // confirmation
        p.push_back(0x1E); if (g_rng.chance(1, 5)) p.push_back(g_rng.byte());
    } else if (r < 960) {   // opcode sweep with plausible bodies
        static const std::uint8_t ops[] = { 0x01, 0x03, 0x05, 0x07, 0x09, 0x0B, 0x0D, 0x0F, 0x11, 0x13, 0x17, 0x19, 0x1B, 0x1D, 0xD2, 0x52, 0x20, 0x22, 0x40, 0x7E, 0xFF, 0x00, 0x14, 0x1A };
        p.push_back(g_rng.chance(2, 3) ? ops[g_rng.below(sizeof ops)] : g_rng.byte());
        const unsigned n = g_rng.below(8); for (unsigned i = 0; i < n; ++i) p.push_back(g_rng.byte());
        if (g_rng.chance(1, 2) && p.size() >= 3) { const std::uint16_t h = pick_handle(); p[1] = h & 0xff; p[2] = h >> 8; }
    } else {                // truncations / extensions of a well formed PDU
        p = gen_pdu(k);
        const unsigned q = g_rng.below(4);
        if (q == 0 && p.size() > 1) p.resize(g_rng.range(1, static_cast<int>(p.size()) - 1));
        else if (q == 1) { const unsigned extra = g_rng.range(1, 3); for (unsigned i = 0; i < extra; ++i) p.push_back(g_rng.byte()); }
        else if (q == 2) { while (p.size() < c.mtu() + g_rng.below(3)) p.push_back(g_rng.byte()); }
    }
    if (p.empty()) p.push_back(0x0A);
    // a link layer never delivers more than the channel MTU (+2 to test the claim "reads only the bytes of the PDU")
    if (p.size() > decl::max_mtu + 2) p.resize(decl::max_mtu + 2);
    return p;
}

// ---------------------------------------------------------------------------------------------
// C09: after every CCCD write read all CCCDs of all connections back
static void cccd_sweep() {
    for (int k = 0; k < NCONN; ++k) {
        for (std::size_t i = 0; i < decl::n_chars; ++i) {
            const model::chr& c = decl::chars[i];
            if (!c.cccd_h) continue;
            if (c.enc && !g_state->conn[k].encrypted) continue;
            bytes req; req.push_back(0x0A); put16(req, c.cccd_h);
            const bytes rsp = exchange(k, req, "C09");
            mon("C09").eval();
            if (rsp.size() == 3 && rsp[0] == 0x0B) {
                if (rsp[1] != g_state->conn[k].cccd[c.cccd_ord] || rsp[2] != 0)
                    verif::violation("C09", "C09:readback:cccd_differs_from_last_write", "decl=" + std::string(decl::declaration_name) + " conn=" + std::to_string(k) + " chr=" + std::to_string(i) +
                                     " read " + verif::hex(rsp) + " expected " + std::to_string(g_state->conn[k].cccd[c.cccd_ord]), g_step);
                mon("C09").nontrivial(verif::mix(verif::mix(verif::hstr(decl::declaration_name), i * 4 + rsp[1]), k));
                if (rsp[1]) mon("C09").sample("decl=" + std::string(decl::declaration_name) + " conn=" + std::to_string(k) + " cccd handle " + std::to_string(c.cccd_h) + " read back " + verif::hex(rsp) + " model " + std::to_string(g_state->conn[k].cccd[c.cccd_ord]), 3);
            }
            // configured_for_* accessors
            if (c.conf_any) {
                const auto cfg = g_conn[k]->client_configurations();
                const std::uint8_t v = g_state->conn[k].cccd[c.cccd_ord];
                bool bad = c.conf_any(*g_srv, cfg) != ((v & 3) != 0);
                if (c.conf_notify) bad = bad || c.conf_notify(*g_srv, cfg) != ((v & 1) != 0);
                if (c.conf_indicate) bad = bad || c.conf_indicate(*g_srv, cfg) != ((v & 2) != 0);
                mon("C09").eval();
                if (bad) verif::violation("C09", "C09:configured_for:accessor_differs_from_cccd", "decl=" + std::string(decl::declaration_name) + " conn=" + std::to_string(k) + " chr=" + std::to_string(i) + " cccd=" + std::to_string(v), g_step);
            }
        }
    }
}

#include "att/att_static.hpp"

int main(int argc, char** argv) {
    verif::args a(argc, argv);
    verif::install_crash_handler();
    const unsigned long long seed = a.num("seed", 1), ops = a.num("ops", 20000);
    g_rng.reseed(seed * 0x9E3779B97F4A7C15ull + verif::hstr(decl::declaration_name));
    g_exact_mtu_buffers = a.num("exact", 0) != 0;
    {
        std::string sk = a.str("skip"); std::size_t pos = 0;
        while (pos < sk.size()) { g_skip.insert(std::strtoull(sk.c_str() + pos, nullptr, 10)); pos = sk.find(',', pos); if (pos == std::string::npos) break; ++pos; }
    }
    verif::run_config() = std::string(decl::declaration_name) + (g_exact_mtu_buffers ? "/exact" : "/max");
    verif::ctx_config(verif::run_config());

    // unique patterns in all arena values
    for (std::size_t r = 0; r < decl::n_regions; ++r) { const bytes v = unique_bytes(decl::regions[r].n); std::memcpy(decl::regions[r].p, v.data(), v.size()); }

    static server_t srv; g_srv = &srv;
    static typename std::aligned_storage<sizeof(conn_t), alignof(conn_t)>::type storage[NCONN];
    for (int k = 0; k < NCONN; ++k) g_conn[k] = new (&storage[k]) conn_t();
    am::state st; g_state = &st;
    am::checker chk(st); g_chk = &chk;
    srv.notification_callback(&notification_cb, nullptr);

    for (const char* p : { "C01", "C02", "C03", "C04", "C05", "C06", "C07", "C08", "C09", "C10", "C11", "C14" }) mon(p);

    if (!g_skip.count(0)) { g_step = 0; static_sweep(); }
    { g_step = 1; advertising_check(srv); }
    g_step = 2;
    if (!g_skip.count(2)) discovery_procedures(0);
    g_step = 3;
    if (!g_skip.count(3)) range_sweep(0);

    // bursts: number of requests issued before polling
    for (unsigned long long i = 0; i < ops; ++i) {
        g_step = 10 + i;
        const int k = g_rng.below(NCONN);
        const unsigned r = g_rng.below(1000);
        const bool skip = g_skip.count(g_step) != 0;
        if (r < 640) {
            const bytes pdu = gen_pdu(k);
            if (skip) continue;
            const bytes rsp = exchange(k, pdu);
            if (pdu[0] == 0x12 || pdu[0] == 0x52 || pdu[0] == 0x18) {
                const int ai = pdu.size() >= 3 ? am::find_attr(static_cast<std::uint16_t>(pdu[1] | (pdu[2] << 8))) : -1;
                if ((ai >= 0 && decl::attrs[ai].kind == model::A_CCCD) || pdu[0] == 0x18) { if (g_rng.chance(1, 3)) cccd_sweep(); }
            }
        } else if (r < 760) {      // notification / indication requests
            std::vector<int> cs; for (std::size_t c = 0; c < decl::n_chars; ++c) if (decl::chars[c].cccd_h) cs.push_back(static_cast<int>(c));
            const int burst = g_rng.range(1, 3);
            for (int b = 0; b < burst && !cs.empty(); ++b) {
                const int ch = g_rng.pick(cs);
                const model::chr& mc = decl::chars[ch];
                const bool ind = mc.indicate && (!mc.notify || g_rng.chance(1, 2));
                const bool by_uuid = g_rng.chance(1, 2);
                if (skip) continue;
                request(ch, ind, by_uuid);
            }
        } else if (r < 900) {      // poll
            if (skip) continue;
            const int n = g_rng.range(1, 3);
            for (int j = 0; j < n; ++j) poll(k);
        } else if (r < 940) {      // confirmation as the client would send it
            if (skip) continue;
            bytes c; c.push_back(0x1E); exchange(k, c, "C11");
        } else if (r < 975) {      // security state change
            static const int pairs[] = { am::P_NONE, am::P_UNAUTH, am::P_AUTH };
            const bool enc = g_rng.chance(1, 2);
            const int pr = enc ? pairs[g_rng.range(1, 2)] : pairs[g_rng.below(3)];
            if (skip) continue;
            set_security(k, enc, pr);
        } else if (r < 985) {
            if (skip) continue;
            reconnect(k);
        } else if (r < 993) {
            if (skip) continue;
            cccd_sweep();
        } else {
            if (skip) continue;
            discovery_procedures(k);
        }
    }
    // drain: every accepted request must come out within the bound while confirmations keep arriving
    g_step = 10 + ops;
    for (int k = 0; k < NCONN; ++k) {
        for (unsigned j = 0; j < 4 * decl::n_chars + 8; ++j) {
            poll(k);
            if (g_state->conn[k].outstanding >= 0) { bytes c; c.push_back(0x1E); exchange(k, c, "C11"); }
        }
    }
    mon("C01").sample("decl=" + std::string(decl::declaration_name) + " ops=" + std::to_string(ops) + " seed=" + std::to_string(seed) + " attrs=" + std::to_string(decl::n_attrs) + " chars=" + std::to_string(decl::n_chars) + " cccds=" + std::to_string(decl::n_cccd));
    for (const char* p : { "C02", "C03", "C05", "C06", "C07", "C08", "C09", "C10", "C11" }) mon(p).count("declarations", 1);
    mon("C01").count("declarations", 1);
    verif::finish();
    return 0;
}
