// Included by att_harness.cpp: static handle sweep (C04), complete GATT discovery procedures (C02, C03, C04)
// and the advertising data check (C14).

// ---------------------------------------------------------------------------------------------
// C04: the handle <-> index mapping of the server against the model handle table
static void static_sweep() {
    verif::ctx_prop("C04"); verif::ctx_op("handle mapping sweep");
    verif::monitor& M = mon("C04");
    typedef server_t::handle_mapping mapping;
    const std::string d = "decl=" + std::string(decl::declaration_name);
    std::uint16_t prev = 0;
    for (std::size_t i = 0; i < decl::n_attrs; ++i) {
        const std::uint16_t h = mapping::handle_by_index(i);
        M.eval();
        if (h == 0) verif::violation("C04", "C04:mapping:zero_handle", d + " index " + std::to_string(i), 0);
        if (h <= prev && i) verif::violation("C04", "C04:mapping:handles_not_increasing", d + " index " + std::to_string(i) + " handle " + std::to_string(h) + " previous " + std::to_string(prev), 0);
        if (h != decl::attrs[i].handle) verif::violation("C04", std::string("C04:mapping:handle_by_index_differs_from_declaration:") + am::checker::attr_class(decl::attrs[i]),
                                                         d + " index " + std::to_string(i) + " got " + std::to_string(h) + " expected " + std::to_string(decl::attrs[i].handle), 0);
        if (mapping::index_by_handle(h) != i) verif::violation("C04", "C04:mapping:index_by_handle_not_inverse", d + " index " + std::to_string(i) + " handle " + std::to_string(h), 0);
        // attribute type at that index
        const bluetoe::details::attribute at = server_t::attribute_at(i);
        const model::attr& ma = decl::attrs[i];
        const std::uint16_t t16 = static_cast<std::uint16_t>(ma.type[0] | (ma.type[1] << 8));
        if (ma.type_len == 2 ? at.uuid != t16 : at.uuid != 0x0001 /* internal marker for 128 bit */ && at.uuid == t16) { /* type is checked through Find Information below */ }
        prev = h;
        M.nontrivial(verif::mix(verif::hstr(decl::declaration_name), i * 65536 + h));
    }
    // first_index_by_handle: lowest index with handle >= h
    const std::uint16_t last = am::last_handle();
    for (unsigned h = 1; h <= static_cast<unsigned>(last) + 2 && h <= 0xFFFF; ++h) {
        std::size_t expect = bluetoe::details::invalid_attribute_index;
        for (std::size_t i = 0; i < decl::n_attrs; ++i) if (decl::attrs[i].handle >= h) { expect = i; break; }
        M.eval();
        const std::size_t got = mapping::first_index_by_handle(static_cast<std::uint16_t>(h));
        if (got != expect) verif::violation("C04", "C04:mapping:first_index_by_handle", d + " handle " + std::to_string(h) + " got " + std::to_string(got) + " expected " + std::to_string(expect), 0);
        const std::size_t exact = mapping::index_by_handle(static_cast<std::uint16_t>(h));
        const int ai = am::find_attr(static_cast<std::uint16_t>(h));
        if ((ai < 0) != (exact == bluetoe::details::invalid_attribute_index) || (ai >= 0 && static_cast<std::size_t>(ai) != exact))
            verif::violation("C04", "C04:mapping:index_by_handle", d + " handle " + std::to_string(h) + " got " + std::to_string(exact) + " expected " + std::to_string(ai), 0);
    }
    M.cls("static_sweep");
    M.sample(d + " handles: " + [&]{ std::string s; for (std::size_t i = 0; i < decl::n_attrs && i < 40; ++i) s += std::to_string(decl::attrs[i].handle) + (i + 1 < decl::n_attrs ? "," : ""); return s; }());
}

// ---------------------------------------------------------------------------------------------
// complete GATT procedures through the protocol, judged against the model (run on connection k)
static void discovery_procedures(int k) {
    const std::string d = "decl=" + std::string(decl::declaration_name) + " conn=" + std::to_string(k) + " mtu=" + std::to_string(g_state->conn[k].mtu());
    // --- Find Information over 1..0xFFFF
    {
        std::vector<std::uint16_t> seen;
        std::uint16_t start = 1; unsigned guard = 0;
        while (guard++ < 2 * decl::n_attrs + 4) {
            bytes req; req.push_back(0x04); put16(req, start); put16(req, 0xFFFF);
            const bytes rsp = exchange(k, req, "C02");
            if (rsp.size() < 4 || rsp[0] != 0x05) break;
            const unsigned esz = rsp[1] == 1 ? 4 : 18;
            std::uint16_t last = 0;
            for (std::size_t p = 2; p + esz <= rsp.size(); p += esz) { last = static_cast<std::uint16_t>(rsp[p] | (rsp[p + 1] << 8)); seen.push_back(last); }
            if (last == 0xFFFF || last < start) break;
            start = last + 1;
        }
        mon("C02").eval(); mon("C04").eval();
        std::vector<std::uint16_t> want; for (std::size_t i = 0; i < decl::n_attrs; ++i) want.push_back(decl::attrs[i].handle);
        if (seen != want) {
            std::string miss; for (auto h : want) if (!std::count(seen.begin(), seen.end(), h)) miss += " " + std::to_string(h);
            std::string dup; for (std::size_t i = 1; i < seen.size(); ++i) if (seen[i] <= seen[i - 1]) dup += " " + std::to_string(seen[i]);
            verif::violation("C02", miss.empty() ? "C02:iterate:findinfo_repeats_or_invents_attributes" : "C02:iterate:findinfo_misses_attributes", d + " missing:" + miss + " not ascending:" + dup, g_step);
        }
        mon("C02").cls("iterate_findinfo");
    }
    // --- Discover all primary services
    {
        std::vector<std::pair<std::uint16_t, std::uint16_t>> seen;
        std::uint16_t start = 1; unsigned guard = 0;
        while (guard++ < decl::n_svcs + 3) {
            bytes req; req.push_back(0x10); put16(req, start); put16(req, 0xFFFF); put16(req, 0x2800);
            const bytes rsp = exchange(k, req, "C03");
            if (rsp.size() < 8 || rsp[0] != 0x11 || rsp[1] < 6) break;
            std::uint16_t last_end = 0;
            for (std::size_t p = 2; p + rsp[1] <= rsp.size(); p += rsp[1]) {
                seen.push_back(std::make_pair(static_cast<std::uint16_t>(rsp[p] | (rsp[p + 1] << 8)), static_cast<std::uint16_t>(rsp[p + 2] | (rsp[p + 3] << 8))));
                last_end = seen.back().second;
            }
            if (last_end == 0xFFFF || last_end < start) break;
            start = last_end + 1;
        }
        std::vector<std::pair<std::uint16_t, std::uint16_t>> want;
        for (std::size_t i = 0; i < decl::n_svcs; ++i) if (decl::svcs[i].primary) want.push_back(std::make_pair(decl::svcs[i].first, decl::svcs[i].last));
        mon("C03").eval();
        if (seen != want) {
            std::string sw, ss; for (auto& p : want) sw += " " + std::to_string(p.first) + "-" + std::to_string(p.second); for (auto& p : seen) ss += " " + std::to_string(p.first) + "-" + std::to_string(p.second);
            bool secondary = false; for (auto& p : seen) for (std::size_t i = 0; i < decl::n_svcs; ++i) if (!decl::svcs[i].primary && decl::svcs[i].first == p.first) secondary = true;
            verif::violation("C03", secondary ? "C03:iterate:discover_all_primary_reports_secondary" : (seen.size() < want.size() ? "C03:iterate:discover_all_primary_misses_services" : "C03:iterate:discover_all_primary_wrong_list"),
                             d + " expected:" + sw + " got:" + ss, g_step);
        }
        mon("C03").cls("iterate_primary_services");
        mon("C03").nontrivial(verif::mix(verif::hstr(decl::declaration_name), 0x5000 + g_state->conn[k].mtu()));
    }
    // --- Discover primary service by UUID, for every service uuid (primary and secondary) and an absent one
    for (std::size_t si = 0; si <= decl::n_svcs; ++si) {
        bytes uuid; if (si < decl::n_svcs) uuid.assign(decl::svcs[si].uuid, decl::svcs[si].uuid + decl::svcs[si].uuid_len); else { uuid.push_back(0xEE); uuid.push_back(0xEE); }
        std::vector<std::pair<std::uint16_t, std::uint16_t>> seen;
        std::uint16_t start = 1; unsigned guard = 0;
        while (guard++ < decl::n_svcs + 3) {
            bytes req; req.push_back(0x06); put16(req, start); put16(req, 0xFFFF); put16(req, 0x2800); req.insert(req.end(), uuid.begin(), uuid.end());
            const bytes rsp = exchange(k, req, "C03");
            if (rsp.size() < 5 || rsp[0] != 0x07) break;
            std::uint16_t last_end = 0;
            for (std::size_t p = 1; p + 4 <= rsp.size(); p += 4) {
                seen.push_back(std::make_pair(static_cast<std::uint16_t>(rsp[p] | (rsp[p + 1] << 8)), static_cast<std::uint16_t>(rsp[p + 2] | (rsp[p + 3] << 8))));
                last_end = seen.back().second;
            }
            if (last_end == 0xFFFF || last_end < start) break;
            start = last_end + 1;
        }
        std::vector<std::pair<std::uint16_t, std::uint16_t>> want;
        for (std::size_t i = 0; i < decl::n_svcs; ++i)
            if (decl::svcs[i].primary && bytes(decl::svcs[i].uuid, decl::svcs[i].uuid + decl::svcs[i].uuid_len) == uuid) want.push_back(std::make_pair(decl::svcs[i].first, decl::svcs[i].last));
        mon("C03").eval();
        if (seen != want) {
            std::string sw, ss; for (auto& p : want) sw += " " + std::to_string(p.first) + "-" + std::to_string(p.second); for (auto& p : seen) ss += " " + std::to_string(p.first) + "-" + std::to_string(p.second);
            verif::violation("C03", seen.size() > want.size() ? "C03:iterate:discover_by_uuid_reports_wrong_service" : "C03:iterate:discover_by_uuid_misses_service", d + " uuid " + verif::hex(uuid) + " expected:" + sw + " got:" + ss, g_step);
        }
        mon("C03").cls(si < decl::n_svcs ? (decl::svcs[si].primary ? "iterate_by_uuid_primary" : "iterate_by_uuid_secondary") : "iterate_by_uuid_absent");
    }
    // --- Read By Type iteration for every attribute type whose attributes are all readable on this connection
    {
        std::set<bytes> types;
        for (std::size_t i = 0; i < decl::n_attrs; ++i) types.insert(bytes(decl::attrs[i].type, decl::attrs[i].type + decl::attrs[i].type_len));
        for (const bytes& t : types) {
            std::vector<std::uint16_t> want; bool all_readable = true;
            for (std::size_t i = 0; i < decl::n_attrs; ++i) if (bytes(decl::attrs[i].type, decl::attrs[i].type + decl::attrs[i].type_len) == t) {
                want.push_back(decl::attrs[i].handle);
                if (!am::read_outcome(*g_state, k, decl::attrs[i], 0, 1).ok) all_readable = false;
            }
            if (!all_readable) continue;
            std::vector<std::uint16_t> seen;
            std::uint16_t start = 1; unsigned guard = 0;
            while (guard++ < want.size() + 3) {
                bytes req; req.push_back(0x08); put16(req, start); put16(req, 0xFFFF); req.insert(req.end(), t.begin(), t.end());
                const bytes rsp = exchange(k, req, "C02");
                if (rsp.size() < 4 || rsp[0] != 0x09 || rsp[1] < 2) break;
                std::uint16_t last = 0;
                for (std::size_t p = 2; p + rsp[1] <= rsp.size(); p += rsp[1]) { last = static_cast<std::uint16_t>(rsp[p] | (rsp[p + 1] << 8)); seen.push_back(last); }
                if (last == 0xFFFF || last < start) break;
                start = last + 1;
            }
            mon("C02").eval();
            if (seen != want) {
                std::string miss; for (auto h : want) if (!std::count(seen.begin(), seen.end(), h)) miss += " " + std::to_string(h);
                verif::violation("C02", miss.empty() ? "C02:iterate:read_by_type_repeats_or_invents_attributes" : "C02:iterate:read_by_type_misses_attributes", d + " type " + verif::hex(t) + " missing:" + miss, g_step);
            }
            mon("C02").cls("iterate_read_by_type");
            // C04: characteristic declarations name their value handle; reading it gives the value of that characteristic
            mon("C02").nontrivial(verif::mix(verif::hstr(decl::declaration_name), verif::fnv(t.data(), t.size()) ^ g_state->conn[k].mtu()));
        }
    }
    // --- C04: every declaration attribute read through the protocol names the model's handles
    for (std::size_t i = 0; i < decl::n_attrs; ++i) {
        const model::attr& a = decl::attrs[i];
        if (a.kind != model::A_CHAR_DECL && a.kind != model::A_INCLUDE) continue;
        bytes req; req.push_back(0x0A); put16(req, a.handle);
        const bytes rsp = exchange(k, req, "C04");
        mon("C04").eval();
        const std::size_t n = std::min<std::size_t>(a.value_len, g_state->conn[k].mtu() - 1);
        if (rsp.size() != 1 + n || rsp[0] != 0x0B || std::memcmp(&rsp[1], a.value, n) != 0)
            verif::violation("C04", a.kind == model::A_INCLUDE ? "C04:declaration:include_names_wrong_handles_or_uuid" : "C04:declaration:characteristic_declaration_wrong",
                             d + " handle " + std::to_string(a.handle) + " got " + verif::hex(rsp) + " expected 0b" + verif::hex(a.value, n), g_step);
        mon("C04").cls(a.kind == model::A_INCLUDE ? "include_declaration" : "characteristic_declaration");
        if (a.kind == model::A_CHAR_DECL && rsp.size() >= 4 && rsp[0] == 0x0B) {
            // the handle the declaration reports must be the handle under which the value is accessed
            const std::uint16_t vh = static_cast<std::uint16_t>(rsp[2] | (rsp[3] << 8));
            const model::chr& c = decl::chars[a.chr];
            const int vi = am::find_attr(vh);
            if (vi >= 0 && am::read_outcome(*g_state, k, decl::attrs[vi], 0, 1).ok && c.readable && (!c.enc || g_state->conn[k].encrypted)) {
                bytes r2; r2.push_back(0x0A); put16(r2, vh);
                const bytes v = exchange(k, r2, "C04");
                bytes want = c.mem ? g_state->shadow[a.chr] : bytes(c.fixed, c.fixed + c.size);
                if (want.size() > g_state->conn[k].mtu() - 1) want.resize(g_state->conn[k].mtu() - 1);
                mon("C04").eval();
                if (v.size() < 1 || v[0] != 0x0B || bytes(v.begin() + 1, v.end()) != want)
                    verif::violation("C04", "C04:declaration:reported_value_handle_does_not_address_the_value", d + " declaration " + std::to_string(a.handle) + " value handle " + std::to_string(vh) + " read " + verif::hex(v), g_step);
            }
        }
        mon("C04").nontrivial(verif::mix(verif::hstr(decl::declaration_name), 0x9000 + a.handle));
    }
}

// ---------------------------------------------------------------------------------------------
// all (start, end) pairs over the "interesting" handles (every attribute handle and its neighbours, 1, 0xFFFF) for the
// discovery requests; every response is judged by the per-request oracle in att_check.hpp (C02, C03)
static void range_sweep(int k) {
    std::set<std::uint16_t> hs;
    hs.insert(1); hs.insert(0xFFFF); hs.insert(0xFFFE);
    for (std::size_t i = 0; i < decl::n_attrs; ++i) {
        const std::uint16_t h = decl::attrs[i].handle;
        hs.insert(h); if (h > 1) hs.insert(h - 1); if (h < 0xFFFF) hs.insert(h + 1);
    }
    std::vector<std::uint16_t> v(hs.begin(), hs.end());
    // bound the quadratic cost: keep at most 48 handles (all around service boundaries, evenly spaced others)
    if (v.size() > 48) {
        std::set<std::uint16_t> keep; keep.insert(1); keep.insert(0xFFFF);
        for (std::size_t i = 0; i < decl::n_svcs; ++i) { keep.insert(decl::svcs[i].first); if (decl::svcs[i].first > 1) keep.insert(decl::svcs[i].first - 1); keep.insert(decl::svcs[i].last); keep.insert(decl::svcs[i].last + 1); }
        for (std::size_t i = 0; keep.size() < 48 && i < v.size(); i += std::max<std::size_t>(1, v.size() / 24)) keep.insert(v[i]);
        v.assign(keep.begin(), keep.end());
    }
    std::vector<bytes> types;
    { bytes t; put16(t, 0x2800); types.push_back(t); } { bytes t; put16(t, 0x2803); types.push_back(t); } { bytes t; put16(t, 0x2902); types.push_back(t); }
    for (std::size_t i = 0; i < decl::n_chars && types.size() < 6; i += 2) types.push_back(bytes(decl::chars[i].uuid, decl::chars[i].uuid + decl::chars[i].uuid_len));
    unsigned long n = 0;
    for (std::size_t a = 0; a < v.size(); ++a) for (std::size_t b = a; b < v.size(); ++b) {
        const std::uint16_t s = v[a], e = v[b];
        { bytes r; r.push_back(0x04); put16(r, s); put16(r, e); exchange(k, r, "C02"); ++n; }
        { bytes r; r.push_back(0x10); put16(r, s); put16(r, e); put16(r, 0x2800); exchange(k, r, "C03"); ++n; }
        for (std::size_t si = 0; si < decl::n_svcs; ++si) {
            bytes r; r.push_back(0x06); put16(r, s); put16(r, e); put16(r, 0x2800); r.insert(r.end(), decl::svcs[si].uuid, decl::svcs[si].uuid + decl::svcs[si].uuid_len); exchange(k, r, "C03"); ++n;
        }
        for (const bytes& t : types) { bytes r; r.push_back(0x08); put16(r, s); put16(r, e); r.insert(r.end(), t.begin(), t.end()); exchange(k, r, "C02"); ++n; }
    }
    mon("C02").cls("range_sweep"); mon("C03").cls("range_sweep");
    mon("C02").count("range_sweep_requests", n);
}

// ---------------------------------------------------------------------------------------------
// C14
struct ad_item { std::uint8_t type; bytes data; };

static bool parse_ad(const bytes& p, std::vector<ad_item>& items, std::string& why) {
    std::size_t i = 0;
    while (i < p.size()) {
        const unsigned len = p[i];
        if (len == 0) {
            // early termination / padding: everything that follows must be zero
            for (std::size_t j = i; j < p.size(); ++j) if (p[j] != 0) { why = "non zero octets after a zero length AD structure"; return false; }
            return true;
        }
        if (i + 1 + len > p.size()) { why = "AD structure at offset " + std::to_string(i) + " with length " + std::to_string(len) + " exceeds the payload"; return false; }
        ad_item it; it.type = p[i + 1]; it.data.assign(p.begin() + i + 2, p.begin() + i + 1 + len);
        items.push_back(it);
        i += 1 + len;
    }
    return true;
}

static bool contains_uuid(const std::uint8_t* list, int n, unsigned w, const std::uint8_t* u) { for (int i = 0; i < n; ++i) if (std::memcmp(list + i * w, u, w) == 0) return true; return false; }

template <class Server>
static void advertising_check(Server& srv) {
    verif::ctx_prop("C14");
    verif::monitor& M = mon("C14");
    const model::adv& am_ = decl::adv_model;
    const std::string d = "decl=" + std::string(decl::declaration_name);
    for (int which = 0; which < 2; ++which) {
        for (unsigned n = 0; n <= 31; ++n) {
            verif::ctx_op(which ? "scan_response_data" : "advertising_data"); verif::ctx_step(1000 + which * 100 + n);
            if (g_skip.count(1000 + which * 100 + n)) continue;
            verif::exact_buffer buf(n, 0xEE);
            const std::size_t got = which ? srv.scan_response_data(buf.data(), n) : srv.advertising_data(buf.data(), n);
            M.eval();
            const std::string w = d + (which ? " scan_response_data" : " advertising_data") + " buffer=" + std::to_string(n) + " returned=" + std::to_string(got);
            if (got > n || got > 31) { verif::violation("C14", which ? "C14:scan:returns_more_than_buffer" : "C14:adv:returns_more_than_buffer", w, n); continue; }
            const bytes p(buf.data(), buf.data() + got);
            std::vector<ad_item> items; std::string why;
            const bool custom_data = which ? am_.has_custom_scan : am_.has_custom_adv;
            // user supplied data is copied verbatim (cut to the buffer): its structure is the user's business
            if (custom_data) parse_ad(p, items, why);
            else if (!parse_ad(p, items, why)) { verif::violation("C14", which ? "C14:scan:ad_structures_do_not_tile" : "C14:adv:ad_structures_do_not_tile", w + " " + why + " payload=" + verif::hex(p), n); continue; }
            M.nontrivial(verif::mix(verif::hstr(decl::declaration_name), which * 64 + n + 1000 * items.size()));
            const bool custom = which ? am_.has_custom_scan : am_.has_custom_adv;
            if (custom) {
                const std::uint8_t* c = which ? am_.custom_scan : am_.custom_adv; const unsigned cl = which ? am_.custom_scan_len : am_.custom_adv_len;
                const unsigned e = std::min<unsigned>(cl, n);
                M.cls("custom_data");
                if (got != e || (e && std::memcmp(p.data(), c, e) != 0)) verif::violation("C14", "C14:custom:data_not_copied_verbatim", w + " payload=" + verif::hex(p), n);
                continue;
            }
            if (which) { M.cls("auto_scan_response"); continue; }
            M.cls("auto_advertising");
            // flags
            bool flags = false;
            for (const ad_item& it : items) if (it.type == 0x01 && it.data.size() == 1) flags = true;
            if (n >= 3 && !flags) verif::violation("C14", "C14:adv:flags_missing", w + " payload=" + verif::hex(p), n);
            for (const ad_item& it : items) {
                if (it.type == 0x08 || it.type == 0x09) {
                    M.cls(it.type == 0x09 ? "name_complete" : "name_shortened");
                    if (am_.name_len < 0) { verif::violation("C14", "C14:adv:name_without_configured_name", w, n); continue; }
                    const std::string nm(am_.name, am_.name + am_.name_len);
                    const std::string gotn(it.data.begin(), it.data.end());
                    if (it.type == 0x09 && gotn != nm) verif::violation("C14", "C14:adv:complete_name_is_not_the_full_name", w + " name='" + gotn + "'", n);
                    if (it.type == 0x08 && (gotn.size() > nm.size() || nm.compare(0, gotn.size(), gotn) != 0)) verif::violation("C14", "C14:adv:shortened_name_is_not_a_prefix", w + " name='" + gotn + "'", n);
                } else if (it.type == 0x02 || it.type == 0x03 || it.type == 0x06 || it.type == 0x07) {
                    const unsigned uw = (it.type <= 0x03) ? 2 : 16;
                    const bool complete = it.type == 0x03 || it.type == 0x07;
                    M.cls(std::string(uw == 2 ? "uuid16_" : "uuid128_") + (complete ? "complete" : "incomplete"));
                    if (it.data.size() % uw != 0 || it.data.empty()) { verif::violation("C14", "C14:adv:service_list_malformed", w + " payload=" + verif::hex(p), n); continue; }
                    const int cnt = static_cast<int>(it.data.size() / uw);
                    const std::uint8_t* may = uw == 2 ? am_.may16 : am_.may128; const int nmay = uw == 2 ? am_.n_may16 : am_.n_may128;
                    const std::uint8_t* must = uw == 2 ? am_.must16 : am_.must128; const int nmust = uw == 2 ? am_.n_must16 : am_.n_must128;
                    for (int i = 0; i < cnt; ++i) if (!contains_uuid(may, nmay, uw, &it.data[i * uw])) verif::violation("C14", "C14:adv:service_list_names_unknown_service", w + " payload=" + verif::hex(p), n);
                    if (complete) for (int i = 0; i < nmust; ++i) if (!contains_uuid(it.data.data(), cnt, uw, must + i * uw)) { verif::violation("C14", uw == 2 ? "C14:adv:complete_16bit_list_is_incomplete" : "C14:adv:complete_128bit_list_is_incomplete", w + " payload=" + verif::hex(p), n); break; }
                } else if (it.type == 0x19) {
                    M.cls("appearance");
                    if (!am_.has_appearance || it.data.size() != 2 || (it.data[0] | (it.data[1] << 8)) != am_.appearance) verif::violation("C14", "C14:adv:appearance_wrong", w + " payload=" + verif::hex(p), n);
                } else if (it.type == 0x12) {
                    M.cls("interval_range");
                    if (!am_.has_interval || it.data.size() != 4 || (it.data[0] | (it.data[1] << 8)) != am_.interval_min || (it.data[2] | (it.data[3] << 8)) != am_.interval_max)
                        verif::violation("C14", "C14:adv:interval_range_wrong", w + " payload=" + verif::hex(p), n);
                }
            }
            if (n == 31) {
                M.sample_json("{\"decl\":\"" + std::string(decl::declaration_name) + "\",\"advertising_data_31\":\"" + verif::hex(p) + "\"}");
                // with the full 31 octets: a configured name must appear (complete or shortened) if there is room left for at least 3 octets after what precedes it
            }
        }
    }
}
