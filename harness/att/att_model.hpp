// Reference ATT/GATT server state over the generated model database (decl::attrs/chars/svcs).
// Nothing in here looks at Bluetoe internals: values of memory bound characteristics are tracked in a
// shadow copy that only the model's own accepted writes change.
#ifndef VERIF_ATT_MODEL_HPP
#define VERIF_ATT_MODEL_HPP

#include "common/verif.hpp"
#include <vector>
#include <set>
#include <map>
#include <string>
#include <algorithm>

namespace am {

typedef std::vector<std::uint8_t> bytes;

static const int NCONN = 3;

enum pairing { P_NONE = 0, P_UNAUTH = 1, P_AUTH = 2 };

struct conn_state {
    unsigned client_mtu;                 // last valid client rx mtu (23 initially)
    bool encrypted;
    int  pair;
    std::vector<std::uint8_t> cccd;      // by model cccd ordinal
    std::set<int> pendN, pendI;          // characteristic indexes with a request accepted and not yet sent
    std::set<int> maybeN, maybeI;        // may or may not still be pending (possibly dropped while unsubscribed)
    int  outstanding;                    // characteristic index of an unconfirmed indication, -1 none
    unsigned empty_polls_with_eligible;  // bounded progress counter
    conn_state() { reset(); }
    void reset() {
        client_mtu = 23; encrypted = false; pair = P_NONE; cccd.assign(decl::n_cccd ? decl::n_cccd : 1, 0);
        pendN.clear(); pendI.clear(); maybeN.clear(); maybeI.clear(); outstanding = -1; empty_polls_with_eligible = 0;
    }
    unsigned mtu() const { return std::min<unsigned>(decl::max_mtu, client_mtu); }
};

struct prepared { std::uint16_t handle, offset; bytes value; };

struct state {
    conn_state conn[NCONN];
    std::vector<bytes> shadow;           // per characteristic: expected bytes of arena-backed values
    int queue_owner;
    std::vector<prepared> queue;
    std::size_t queue_used;
    unsigned long expected_cccd_callbacks;
    state() : queue_owner(-1), queue_used(0), expected_cccd_callbacks(0) {
        shadow.resize(decl::n_chars);
        for (std::size_t i = 0; i < decl::n_chars; ++i)
            if (decl::chars[i].mem) shadow[i].assign(decl::chars[i].mem, decl::chars[i].mem + decl::chars[i].size);
    }
};

inline int find_attr(std::uint16_t handle) {
    for (std::size_t i = 0; i < decl::n_attrs; ++i) if (decl::attrs[i].handle == handle) return static_cast<int>(i);
    return -1;
}
inline std::uint16_t last_handle() { return decl::attrs[decl::n_attrs - 1].handle; }

inline bytes type_of(const model::attr& a) { return bytes(a.type, a.type + a.type_len); }

// error codes
enum { E_INVALID_HANDLE = 0x01, E_READ_NP = 0x02, E_WRITE_NP = 0x03, E_INVALID_PDU = 0x04, E_INSUFF_AUTH = 0x05, E_NOT_SUPP = 0x06,
       E_INVALID_OFFSET = 0x07, E_PREP_QUEUE_FULL = 0x09, E_NOT_FOUND = 0x0A, E_NOT_LONG = 0x0B, E_INVALID_LEN = 0x0D, E_INSUFF_ENC = 0x0F,
       E_UNSUPP_GROUP = 0x10 };

struct outcome {
    bool ok;
    bytes data;                  // for reads
    std::set<int> errs;          // acceptable error codes when !ok
    bool security;               // refusal is (also) due to missing encryption
    outcome() : ok(true), security(false) {}
};

inline int security_error(const conn_state& c) { return c.pair == P_NONE ? E_INSUFF_AUTH : E_INSUFF_ENC; }

inline bytes current_value(const state& s, int k, const model::attr& a) {
    if (a.kind == model::A_VALUE) {
        const model::chr& c = decl::chars[a.chr];
        if (c.mem) return s.shadow[a.chr];
        return bytes(c.fixed, c.fixed + c.size);
    }
    if (a.kind == model::A_CCCD) {
        const model::chr& c = decl::chars[a.chr];
        bytes v(2, 0); v[0] = s.conn[k].cccd[c.cccd_ord]; return v;
    }
    return bytes(a.value, a.value + a.value_len);
}

// what a read of attribute a at offset with room for max_len bytes must produce
inline outcome read_outcome(const state& s, int k, const model::attr& a, unsigned offset, unsigned max_len) {
    outcome o;
    const conn_state& c = s.conn[k];
    const bool is_value = a.kind == model::A_VALUE, is_cccd = a.kind == model::A_CCCD;
    if (is_value || is_cccd) {
        const model::chr& ch = decl::chars[a.chr];
        if (ch.enc && !c.encrypted) { o.ok = false; o.security = true; o.errs.insert(security_error(c)); }
        if (is_value && !ch.readable) { o.ok = false; o.errs.insert(E_READ_NP); o.errs.insert(E_NOT_SUPP); }
        if (!o.ok) return o;
        if (is_value && offset > 0 && !ch.blob) { o.ok = false; o.errs.insert(E_NOT_LONG); return o; }
    }
    const bytes v = current_value(s, k, a);
    if (offset > v.size()) { o.ok = false; o.errs.insert(E_INVALID_OFFSET); return o; }
    const std::size_t n = std::min<std::size_t>(max_len, v.size() - offset);
    o.data.assign(v.begin() + offset, v.begin() + offset + n);
    return o;
}

struct write_effect { int chr; unsigned offset; bytes value; bool is_cccd; std::uint8_t new_cccd; write_effect() : chr(-1), offset(0), is_cccd(false), new_cccd(0) {} };

// is a write to this attribute permitted at all on this connection (permission + security, not offset/length)
inline outcome write_permitted(const state& s, int k, const model::attr& a) {
    outcome o;
    const conn_state& c = s.conn[k];
    if (a.kind == model::A_VALUE || a.kind == model::A_CCCD) {
        const model::chr& ch = decl::chars[a.chr];
        if (ch.enc && !c.encrypted) { o.ok = false; o.security = true; o.errs.insert(security_error(c)); }
        if (a.kind == model::A_VALUE && !ch.writable) { o.ok = false; o.errs.insert(E_WRITE_NP); o.errs.insert(E_NOT_SUPP); o.errs.insert(E_READ_NP); }
    } else {
        o.ok = false; o.errs.insert(E_WRITE_NP); o.errs.insert(E_NOT_SUPP);
    }
    return o;
}

inline outcome write_outcome(const state& s, int k, const model::attr& a, unsigned offset, const bytes& v, write_effect& eff) {
    outcome o = write_permitted(s, k, a);
    if (!o.ok) return o;
    const model::chr& ch = decl::chars[a.chr];
    if (a.kind == model::A_VALUE) {
        if (offset > 0 && !ch.blob) { o.ok = false; o.errs.insert(E_NOT_LONG); return o; }
        if (offset > ch.size) { o.ok = false; o.errs.insert(E_INVALID_OFFSET); return o; }
        if (offset + v.size() > ch.size) { o.ok = false; o.errs.insert(E_INVALID_LEN); return o; }
        eff.chr = a.chr; eff.offset = offset; eff.value = v;
    } else { // CCCD
        if (offset > 2) { o.ok = false; o.errs.insert(E_INVALID_OFFSET); return o; }
        if (offset + v.size() > 2) { o.ok = false; o.errs.insert(E_INVALID_LEN); return o; }
        eff.chr = a.chr; eff.is_cccd = true;
        std::uint8_t lo = s.conn[k].cccd[ch.cccd_ord];
        if (offset == 0 && v.size() >= 1) lo = v[0];
        eff.new_cccd = lo & 0x03;
    }
    return o;
}

inline void apply(state& s, int k, const write_effect& e) {
    if (e.chr < 0) return;
    const model::chr& ch = decl::chars[e.chr];
    if (e.is_cccd) {
        if (s.conn[k].cccd[ch.cccd_ord] != e.new_cccd) ++s.expected_cccd_callbacks;
        s.conn[k].cccd[ch.cccd_ord] = e.new_cccd;
    } else {
        std::copy(e.value.begin(), e.value.end(), s.shadow[e.chr].begin() + e.offset);
    }
}

} // namespace am
#endif
