// C15 / C16 / C17 (family B2): the real bluetoe::link_layer::ll_data_pdu_buffer, inherited by a harness class in the
// CRTP Radio position, against
//   * an independently written central implementing the acknowledgement / flow control scheme of Bluetooth Core
//     Vol 6 Part B 4.5.9 (transmitSeqNum / nextExpectedSeqNum), packet counters per Vol 6 Part E 2.1
//     (one counter per direction, incremented for every new non-empty PDU, never for retransmissions / empty PDUs),
//   * a channel that applies a per PDU outcome in both directions: ok / lost / CRC error / (C17) CRC ok but MIC bad,
//   * radio glue that routes the outcomes exactly as the nRF52 ISR does (nrf52.hpp radio_interrupt_handler):
//       nothing received                         -> nothing transmitted in this event
//       no receive buffer available or CRC error -> next_transmit()
//       CRC ok, MIC ok (or link unencrypted)     -> received( buffer )
//       CRC ok, MIC bad                          -> acknowledge( buffer )
//     On an encrypted link "MIC bad" is not only an injected fault: a retransmission of a non-empty PDU that the
//     peripheral already accepted is decrypted with an advanced packet counter and therefore always fails its MIC.
//     The harness emulates CCM by stamping the sender's packet counter on every non-empty PDU at first transmission
//     (a retransmission is the identical cipher text) and comparing it with the receiver's counter.
// A share of the central's non-empty PDUs carries the reserved LLID 0b00 (Core Vol 6 Part B 2.4): such a PDU must never
// reach the upper layer; if it is acknowledged its nonce is used up, so the receive packet counter has to advance with
// the acknowledgement (the end to end counter stamps of all later PDUs show a miss).
// Every payload carries a unique id.  The oracle never looks at the buffer's sequence number state; it only uses what
// was fed into the radio interface and what came out of it.
#include <bluetoe/nrf.hpp>
#include <bluetoe/ll_data_pdu_buffer.hpp>
#include "common/verif.hpp"

#include <vector>
#include <deque>
#include <string>
#include <algorithm>

namespace ll = bluetoe::link_layer;
using verif::mon;

// ---------------------------------------------------------------------------------------------------------------
// real code behind a thin adapter (one instantiation per TransmitSize x ReceiveSize x layout)
struct lock_probe {
    static int depth, max_depth; static unsigned long taken;
    lock_probe() { ++depth; ++taken; if (depth > max_depth) max_depth = depth; }
    ~lock_probe() { --depth; }
};
int lock_probe::depth = 0; int lock_probe::max_depth = 0; unsigned long lock_probe::taken = 0;

template <std::size_t TX, std::size_t RX, bool NrfLayout> struct radio_h;

namespace bluetoe { namespace link_layer {
    template <std::size_t TX, std::size_t RX>
    struct pdu_layout_by_radio< ::radio_h<TX, RX, true> > { using pdu_layout = bluetoe::nrf_details::encrypted_pdu_layout; };
}}

template <std::size_t TX, std::size_t RX, bool NrfLayout>
struct radio_h : ll::ll_data_pdu_buffer<TX, RX, radio_h<TX, RX, NrfLayout> > {
    typedef lock_probe lock_guard;
    unsigned long rx_ctr, tx_ctr;
    radio_h() : rx_ctr(0), tx_ctr(0) {}
    void increment_receive_packet_counter() { ++rx_ctr; }
    void increment_transmit_packet_counter() { ++tx_ctr; }
    // the protected radio interface
    ll::read_buffer  r_alloc() { return this->allocate_receive_buffer(); }
    ll::write_buffer r_received(ll::read_buffer b) { return this->received(b); }
    ll::write_buffer r_acknowledge(ll::read_buffer b) { return this->acknowledge(b); }
    ll::write_buffer r_next() { return this->next_transmit(); }
};

struct buf_iface {
    std::size_t TX, RX, GAP; const char* layout_name;
    virtual ~buf_iface() {}
    virtual void fresh() = 0;                       // new object on the heap (exact size: ASan red zones around it)
    virtual void reset() = 0;                       // reset_pdu_buffer() on the existing object
    virtual std::uint8_t* raw() = 0;
    virtual const std::uint8_t* obj() = 0; virtual std::size_t obj_size() = 0;
    virtual std::size_t max_max_rx() = 0; virtual std::size_t max_max_tx() = 0;
    virtual void set_max(std::size_t rx, std::size_t tx) = 0;
    virtual std::size_t max_rx() = 0; virtual std::size_t max_tx() = 0;
    virtual ll::read_buffer alloc_tx(std::size_t size) = 0; virtual ll::read_buffer alloc_tx_max() = 0;
    virtual void commit(ll::read_buffer b) = 0;
    virtual ll::write_buffer next_received() = 0; virtual void free_received() = 0;
    virtual ll::read_buffer alloc_rx() = 0;
    virtual ll::write_buffer received(ll::read_buffer b) = 0;
    virtual ll::write_buffer acknowledge(ll::read_buffer b) = 0;
    virtual ll::write_buffer next_transmit() = 0;
    virtual unsigned long rx_ctr() = 0; virtual unsigned long tx_ctr() = 0;
    virtual bool pending_outgoing() = 0;
};

template <std::size_t TXS, std::size_t RXS, bool NrfLayout>
struct buf_adapter : buf_iface {
    typedef radio_h<TXS, RXS, NrfLayout> R;
    R* r;
    buf_adapter() : r(nullptr) { TX = TXS; RX = RXS; GAP = NrfLayout ? 1 : 0; layout_name = NrfLayout ? "nrf_encrypted" : "default"; }
    ~buf_adapter() { delete r; }
    void fresh() { delete r; r = new R(); }
    void reset() { r->reset_pdu_buffer(); }
    std::uint8_t* raw() { return r->raw_pdu_buffer(); }
    const std::uint8_t* obj() { return reinterpret_cast<const std::uint8_t*>(r); } std::size_t obj_size() { return sizeof(R); }
    std::size_t max_max_rx() { return r->max_max_rx_size(); } std::size_t max_max_tx() { return r->max_max_tx_size(); }
    void set_max(std::size_t rx, std::size_t tx) { r->max_rx_size(rx); r->max_tx_size(tx); }
    std::size_t max_rx() { return r->max_rx_size(); } std::size_t max_tx() { return r->max_tx_size(); }
    ll::read_buffer alloc_tx(std::size_t size) { return r->allocate_transmit_buffer(size); }
    ll::read_buffer alloc_tx_max() { return r->allocate_transmit_buffer(); }
    void commit(ll::read_buffer b) { r->commit_transmit_buffer(b); }
    ll::write_buffer next_received() { return r->next_received(); } void free_received() { r->free_received(); }
    ll::read_buffer alloc_rx() { return r->r_alloc(); }
    ll::write_buffer received(ll::read_buffer b) { return r->r_received(b); }
    ll::write_buffer acknowledge(ll::read_buffer b) { return r->r_acknowledge(b); }
    ll::write_buffer next_transmit() { return r->r_next(); }
    unsigned long rx_ctr() { return r->rx_ctr; } unsigned long tx_ctr() { return r->tx_ctr; }
    bool pending_outgoing() { return r->pending_outgoing_data_available(); }
};

// ---------------------------------------------------------------------------------------------------------------
enum { O_OK = 0, O_LOST = 1, O_CRC = 2, O_MIC = 3 };
enum { RT_NONE = 0, RT_RECEIVED = 1, RT_ACK = 2, RT_NEXT_CRC = 3, RT_NEXT_FULL = 4 };
static const char* oname(int o) { static const char* n[] = { "ok", "lost", "crc", "mic" }; return n[o]; }
static const char* rname(int r) { static const char* n[] = { "-", "received()", "acknowledge()", "next_transmit()[crc]", "next_transmit()[no rx buffer]" }; return n[r]; }

struct pdu_rec { std::uint8_t llid, len; };
struct region { const std::uint8_t* p; std::size_t n; };

static inline std::uint8_t pbyte(std::uint32_t idx, std::size_t i, std::uint8_t dir) {
    if (i == 0) return static_cast<std::uint8_t>(idx);
    if (i == 1) return static_cast<std::uint8_t>(idx >> 8);
    return static_cast<std::uint8_t>(idx * 29u + i * 13u + dir);
}
static const std::uint8_t DIR_C = 0x11, DIR_P = 0x77;

struct evlog {
    std::uint8_t kind;                  // 0 exchange, 1 commit, 2 commit failed (no memory), 3 consumed, 4 drain marker, 5/6 bracket: consumed between rx allocation and ISR
    std::uint8_t c2p, p2c, route;
    bool c_empty, c_sn, c_nesn, c_retx, c_res; std::uint32_t c_idx; std::uint8_t c_len;
    bool t_valid, t_empty, t_sn, t_nesn; std::int32_t t_idx; std::uint8_t t_len;
    std::uint32_t a, b;
};

static unsigned long long g_step = 0;

// class histogram without building a std::string per call: cache the counter by (monitor, literal address)
#include <unordered_map>
static inline void fcls(verif::monitor& M, const char* name) {
    static std::unordered_map<std::uint64_t, unsigned long long*> cache;
    const std::uint64_t key = reinterpret_cast<std::uintptr_t>(name) * 0x9e3779b97f4a7c15ull ^ reinterpret_cast<std::uintptr_t>(&M);
    std::unordered_map<std::uint64_t, unsigned long long*>::iterator it = cache.find(key);
    if (it == cache.end()) it = cache.insert(std::make_pair(key, &M.classes[name])).first;
    ++*it->second;
}

struct settings {
    std::size_t max_rx, max_tx;     // max_rx_size / max_tx_size given to the buffer (header + payload)
    bool link_enc;                  // link encrypted: MIC emulation by packet counter stamps
    bool mic_faults;                // C17 mode: the channel may also deliver "CRC ok, MIC bad"
};

static std::string pattern_str(const std::vector<int>& codes, int shape);
struct world {
    buf_iface& B;
    settings S;
    std::string cfg;
    bool bad, bad16;
    std::vector<evlog> log;
    std::string pattern;            // description of the random run, or (lazily, see pattern_text) of the enumerated pattern
    std::vector<int> pat_codes; int pat_shape;
    std::string pattern_text() const;

    // ---- central (Core Vol 6 Part B 4.5.9) ----
    std::vector<pdu_rec> c_sent;    // data PDUs in order of first transmission
    bool c_sn, c_nesn;              // transmitSeqNum, nextExpectedSeqNum
    bool c_out;                     // a PDU is unacknowledged
    bool cur_empty, cur_sn; std::uint32_t cur_idx; unsigned long long cur_stamp;
    bool cur_accepted, cur_mic_new, cur_mic_fault_seen, cur_res_acked;
    unsigned long long c_txctr, c_rxctr;
    std::size_t c_acked_data, c_accept_cnt;
    // ---- what the harness fed into / saw from the peripheral ----
    std::vector<pdu_rec> p_commits; std::vector<region> p_regions;
    std::size_t p_ackconv;          // data commits whose acknowledgement reached the peripheral
    bool out_valid, out_empty, out_sn; std::uint32_t out_idx;
    std::size_t delivered, accepted_data;    // indices into c_sent: next PDU the upper layer must get / next not yet handed to received()
    void skip_reserved() { while (delivered < c_sent.size() && c_sent[delivered].llid == 0) ++delivered; }   // reserved LLID: never delivered
    std::deque<region> rx_live;
    unsigned long rx_seen, tx_seen, rx_base, tx_base;
    unsigned long prx() { return B.rx_ctr() - rx_base; }    // packet counters since the start of this connection
    unsigned long ptx() { return B.tx_ctr() - tx_base; }
    verif::exact_buffer fallback;   // stands for the ISR's 3 byte empty_receive_ buffer
    unsigned events;

    world(buf_iface& b, const settings& s) : B(b), S(s), bad(false), bad16(false), fallback(3) {
        m15 = &mon(s.mic_faults ? "C17" : "C15"); m16 = &mon(s.mic_faults ? "C17" : "C16"); m17 = &mon("C17");
        pat_shape = -1;
        cfg = std::string("ll_data_pdu_buffer<") + std::to_string(B.TX) + "," + std::to_string(B.RX) + "," + B.layout_name + "> max_rx=" +
              std::to_string(S.max_rx) + " max_tx=" + std::to_string(S.max_tx) + (S.link_enc ? " link=encrypted" : " link=plain") + (S.mic_faults ? " +mic_faults" : "");
    }

    std::size_t mem(std::size_t payload) const { return 2 + B.GAP + payload; }
    std::size_t max_c_payload() const { return S.max_rx - 2; }
    std::size_t max_p_payload() const { return S.max_tx - 2; }

    void start(bool fresh_object, const std::string& pat) {
        verif::ctx_step(++g_step); verif::ctx_op(fresh_object ? "construct" : "reset_pdu_buffer");
        if (fresh_object) B.fresh(); else B.reset();
        if (S.max_rx != 29 || S.max_tx != 29) B.set_max(S.max_rx, S.max_tx);
        bad = false; bad16 = false; log.clear(); pattern = pat; pend_valid = false;
        c_sent.clear(); c_sn = c_nesn = false; c_out = false; cur_empty = true; cur_sn = false; cur_idx = 0; cur_stamp = 0;
        cur_accepted = cur_mic_new = cur_mic_fault_seen = cur_res_acked = false; c_txctr = c_rxctr = 0; c_acked_data = c_accept_cnt = 0;
        p_commits.clear(); p_regions.clear(); p_ackconv = 0; out_valid = false; out_empty = true; out_sn = false; out_idx = 0;
        delivered = accepted_data = 0; rx_live.clear(); rx_seen = rx_base = B.rx_ctr(); tx_seen = tx_base = B.tx_ctr(); events = 0;
    }

    // ---------------------------------------------------------------------------------------------------- reporting
    std::string trace() const {
        std::string s = cfg + " | pattern: " + pattern_text() + " | trace:";
        std::size_t from = log.size() > 120 ? log.size() - 120 : 0;
        if (from) s += " ...(" + std::to_string(from) + " earlier records)";
        unsigned ev = 0;
        for (std::size_t i = 0; i < log.size(); ++i) {
            const evlog& e = log[i];
            if (e.kind == 0) ++ev;
            if (i < from) continue;
            if (e.kind == 1) s += " commit(P#" + std::to_string(e.a) + ",len=" + std::to_string(e.b) + ")";
            else if (e.kind == 2) s += " commit_failed(no tx memory)";
            else if (e.kind == 3) s += " upper_layer_took(C#" + std::to_string(e.a) + ")";
            else if (e.kind == 4) s += " [drain: all ok, no new data]";
            else if (e.kind == 5) s += " [radio of the next event already owns its receive buffer:";
            else if (e.kind == 6) s += " ]";
            else {
                s += " ev" + std::to_string(ev) + "{C->P ";
                s += e.c_empty ? "empty" : ("C#" + std::to_string(e.c_idx) + (e.c_res ? "(LLID=0)" : "") + " len=" + std::to_string(e.c_len));
                s += std::string(" sn=") + (e.c_sn ? "1" : "0") + " nesn=" + (e.c_nesn ? "1" : "0") + (e.c_retx ? " retx" : " new") + " [" + oname(e.c2p) + "]";
                if (e.c2p != O_LOST) {
                    s += std::string(" -> ") + rname(e.route) + "; P->C ";
                    if (!e.t_valid) s += "?";
                    else { s += e.t_empty ? "empty" : ("P#" + std::to_string(e.t_idx) + " len=" + std::to_string(e.t_len)); s += std::string(" sn=") + (e.t_sn ? "1" : "0") + " nesn=" + (e.t_nesn ? "1" : "0"); }
                    s += std::string(" [") + oname(e.p2c) + "]";
                }
                s += "}";
            }
        }
        return s;
    }

    // in C17 mode (MIC faults in the pattern) everything observed belongs to C17; otherwise counter findings go to C16
    void viol(const char* family, const std::string& key, const std::string& what) {
        const std::string prop = S.mic_faults ? "C17" : family;
        if (prop == "C16") { if (bad16) return; bad16 = true; }     // counters are not checked further in this run, delivery still is
        else bad = true;
        const std::string full = prop + ":" + key;
        verif::monitor& m = mon(prop);
        std::map<std::string, unsigned long long>::const_iterator it = m.viol_count.find(full);
        const bool printed = it != m.viol_count.end() && it->second >= 2;       // only the first two per key are printed
        verif::violation(prop, full, printed ? std::string() : what + " | " + trace(), g_step);
    }
    verif::monitor *m15, *m16, *m17;
    verif::monitor& M15() { return *m15; }
    verif::monitor& M16() { return *m16; }
    verif::monitor& M17() { return *m17; }

    // ---------------------------------------------------------------------------------------------------- helpers
    bool inside(const std::uint8_t* p, std::size_t n, const std::uint8_t* base, std::size_t size) const { return p >= base && p + n <= base + size; }

    void write_pdu(std::uint8_t* dst, std::uint8_t hdr0, const pdu_rec& r, std::uint32_t idx, std::uint8_t dir) const {
        dst[0] = hdr0; dst[1] = r.len;
        if (B.GAP) dst[2] = 0xC3;
        for (std::size_t i = 0; i < r.len; ++i) dst[2 + B.GAP + i] = pbyte(idx, i, dir);
    }
    bool same_pdu(const std::uint8_t* p, const pdu_rec& r, std::uint32_t idx, std::uint8_t dir) const {
        if ((p[0] & 3) != r.llid || p[1] != r.len) return false;
        for (std::size_t i = 0; i < r.len; ++i) if (p[2 + B.GAP + i] != pbyte(idx, i, dir)) return false;
        return true;
    }
    int find_pdu(const std::uint8_t* p, const std::vector<pdu_rec>& v, std::uint8_t dir) const {
        for (std::size_t i = 0; i < v.size(); ++i) if (same_pdu(p, v[i], static_cast<std::uint32_t>(i), dir)) return static_cast<int>(i);
        return -1;
    }

    // ---------------------------------------------------------------------------------------------------- link layer side
    // returns true when a PDU was committed
    // The link layer assembles a PDU in an allocated buffer; radio interrupts (acknowledgements that empty the transmit
    // ring) can happen before it commits.  begin_commit allocates and writes, finish_commit commits.
    bool pend_valid; ll::read_buffer pend_rb; pdu_rec pend_rec; std::vector<std::uint8_t> pend_img, rx_img;
    bool commit(std::size_t len, std::uint8_t llid, bool alloc_max, std::uint8_t junk) { return begin_commit(len, llid, alloc_max, junk) && finish_commit(); }
    bool begin_commit(std::size_t len, std::uint8_t llid, bool alloc_max, std::uint8_t junk) {
        verif::monitor& M = M15();
        if (pend_valid) return false;
        if (len < 1) len = 1;
        if (len > max_p_payload()) len = max_p_payload();
        const std::size_t want = alloc_max ? S.max_tx + B.GAP : mem(len);
        verif::ctx_step(++g_step); verif::ctx_op("allocate_transmit_buffer");
        const ll::read_buffer b = alloc_max ? B.alloc_tx_max() : B.alloc_tx(want);
        M.eval();
        if (b.size == 0) {
            evlog e = evlog(); e.kind = 2; log.push_back(e);
            if (p_ackconv == p_commits.size()) M.count("tx_allocation_failed_with_empty_transmit_buffer");
            fcls(M, "tx_alloc_no_memory");
            return false;
        }
        if (b.size != want) { viol("C15", "tx_alloc:wrong_size", "allocate_transmit_buffer returned size " + std::to_string(b.size) + " requested " + std::to_string(want)); return false; }
        if (!inside(b.buffer, b.size, B.raw(), B.TX)) { viol("C15", "tx_alloc:outside_transmit_memory", "allocate_transmit_buffer returned memory outside the transmit part of the buffer"); return false; }
        for (std::size_t i = p_ackconv; i < p_regions.size(); ++i)
            if (b.buffer < p_regions[i].p + p_regions[i].n && p_regions[i].p < b.buffer + b.size) {
                viol("C15", "tx_alloc:overlaps_unacknowledged_pdu", "allocate_transmit_buffer returned memory overlapping committed, unacknowledged PDU P#" + std::to_string(i)); return false;
            }
        std::memset(b.buffer, junk, b.size);
        pdu_rec r = { llid, static_cast<std::uint8_t>(len) };
        const std::uint32_t idx = static_cast<std::uint32_t>(p_commits.size());
        write_pdu(b.buffer, llid, r, idx, DIR_P);
        pend_valid = true; pend_rb = b; pend_rec = r; pend_img.assign(b.buffer, b.buffer + b.size);
        return true;
    }
    bool finish_commit() {
        verif::monitor& M = M15();
        if (!pend_valid) return false;
        pend_valid = false;
        const ll::read_buffer b = pend_rb; const pdu_rec r = pend_rec; const std::size_t len = r.len;
        const std::uint32_t idx = static_cast<std::uint32_t>(p_commits.size());
        M.eval();
        // memory handed out by allocate_transmit_buffer belongs to the link layer until it is committed
        if (std::memcmp(b.buffer, pend_img.data(), b.size) != 0) {
            std::size_t d = 0; while (b.buffer[d] == pend_img[d]) ++d;
            viol("C15", "tx_alloc:allocated_buffer_modified_before_commit", "the buffer returned by allocate_transmit_buffer (offset " + std::to_string(static_cast<long>(b.buffer - B.raw())) +
                 " of the transmit memory) was modified at byte " + std::to_string(d) + " while the link layer was assembling P#" + std::to_string(idx) + ": " + verif::hex(b.buffer, std::min<std::size_t>(b.size, 8)) + " expected " + verif::hex(pend_img.data(), std::min<std::size_t>(b.size, 8)));
            return false;
        }
        verif::ctx_step(++g_step); verif::ctx_op("commit_transmit_buffer", b.buffer, std::min<std::size_t>(b.size, 8));
        B.commit(b);
        p_commits.push_back(r);
        region g = { b.buffer, mem(len) }; p_regions.push_back(g);
        evlog e = evlog(); e.kind = 1; e.a = idx; e.b = static_cast<std::uint32_t>(len); log.push_back(e);
        fcls(M, out_valid && out_empty ? "commit_while_empty_pdu_unacknowledged" : "commit");
        return true;
    }

    // upper layer takes one received PDU; returns false when nothing is available
    bool consume_one() {
        verif::monitor& M = M15();
        verif::ctx_step(++g_step); verif::ctx_op("next_received");
        const ll::write_buffer w = B.next_received();
        M.eval();
        if (w.size == 0) return false;
        if (!inside(w.buffer, w.size, B.raw() + B.TX, B.RX)) { viol("C15", "c2p:delivered_from_outside_receive_memory", "next_received() points outside the receive part of the buffer"); return false; }
        if (w.size < mem(0) || w.size != mem(w.buffer[1])) { viol("C15", "c2p:delivered_wrong_size", "next_received().size = " + std::to_string(w.size) + " for length field " + std::to_string(w.buffer[1])); return false; }
        skip_reserved();
        if (delivered < c_sent.size() && same_pdu(w.buffer, c_sent[delivered], static_cast<std::uint32_t>(delivered), DIR_C)) {
            if (delivered >= accepted_data) { viol("C15", "c2p:delivered_but_never_received", "upper layer got C#" + std::to_string(delivered) + " which was never handed to received()"); return false; }
            evlog e = evlog(); e.kind = 3; e.a = static_cast<std::uint32_t>(delivered); log.push_back(e);
            ++delivered;
            fcls(M, "delivered_to_upper_layer");
        } else {
            const std::string hexs = verif::hex(w.buffer, std::min<std::size_t>(w.size, 16));
            const int j = find_pdu(w.buffer, c_sent, DIR_C);
            if (j >= 0 && c_sent[j].llid == 0) viol("C15", "c2p:reserved_llid_pdu_delivered", "upper layer got C#" + std::to_string(j) + " which carries the reserved LLID 0");
            else if (j >= 0 && static_cast<std::size_t>(j) < delivered) viol("C15", "c2p:delivered_twice", "upper layer got C#" + std::to_string(j) + " again, expected C#" + std::to_string(delivered) + " bytes " + hexs);
            else if (j >= 0) viol("C15", "c2p:skipped_or_reordered", "upper layer got C#" + std::to_string(j) + " but C#" + std::to_string(delivered) + " was not delivered yet");
            else viol("C15", "c2p:altered_or_unknown", "upper layer got a PDU that the central never sent (expected C#" + std::to_string(delivered) + "): " + hexs);
            return false;
        }
        if (!rx_live.empty()) rx_live.pop_front();
        verif::ctx_step(++g_step); verif::ctx_op("free_received");
        B.free_received();
        return true;
    }
    unsigned consume(unsigned max) { unsigned n = 0; while (n < max && !bad && consume_one()) ++n; return n; }

    // ---------------------------------------------------------------------------------------------------- central receives
    bool central_receive(bool t_sn, bool t_nesn, bool t_empty, int t_idx, unsigned long long stamp, bool busy) {
        verif::monitor& M = M15();
        const bool is_new = (t_sn == c_nesn);
        bool undecryptable = false;
        M.eval();
        if (is_new && !busy) {
            if (!t_empty) {
                M16().eval();
                if (S.link_enc && stamp != c_rxctr) {
                    viol("C16", "nonce:peripheral_to_central_counter_mismatch", "new non-empty PDU P#" + std::to_string(t_idx) + " was encrypted with transmit packet counter " +
                         std::to_string(stamp) + " but the central decrypts with " + std::to_string(c_rxctr) + " (nonce skipped or reused)");
                    if (bad) return false;
                    undecryptable = true;       // the central cannot decrypt it: the payload is ignored, the header still counts
                }
                if (undecryptable) goto header_only;
                if (t_idx < 0) { viol("C15", "p2c:unknown_pdu_delivered", "central accepted a new PDU that was never committed"); return false; }
                if (static_cast<std::size_t>(t_idx) < c_accept_cnt) { viol("C15", "p2c:delivered_twice", "central accepted P#" + std::to_string(t_idx) + " as new a second time"); return false; }
                if (static_cast<std::size_t>(t_idx) > c_accept_cnt) { viol("C15", "p2c:skipped_or_reordered", "central accepted P#" + std::to_string(t_idx) + " but P#" + std::to_string(c_accept_cnt) + " never arrived"); return false; }
                ++c_accept_cnt; ++c_rxctr;
                fcls(M, "central_accepted_data");
            }
            c_nesn = !c_nesn;
            header_only: ;
        } else if (!is_new) fcls(M, t_empty ? "central_ignored_retransmitted_empty" : "central_ignored_retransmitted_data");
        else fcls(M, "central_busy_nak");
        if (c_out && t_nesn != c_sn) {
            if (!cur_empty) {
                if (!cur_accepted && c_sent[cur_idx].llid != 0) {
                    if (cur_mic_new) viol("C17", "ack:central_saw_ack_for_mic_failed_pdu", "central received an acknowledgement for C#" + std::to_string(cur_idx) + " which failed its MIC and was never delivered");
                    else viol("C15", "ack:central_saw_ack_for_pdu_never_stored", "central received an acknowledgement for C#" + std::to_string(cur_idx) + " which was never handed to received()");
                    return false;
                }
                ++c_txctr; ++c_acked_data;
                fcls(M, "central_data_acknowledged");
            }
            c_sn = !c_sn; c_out = false;
        }
        return true;
    }

    // ---------------------------------------------------------------------------------------------------- one exchange
    // central_has_data is only used when the central has no unacknowledged PDU
    bool exchange(int c2p, int p2c, bool central_has_data, std::size_t c_len, bool central_busy, std::uint8_t junk, bool reserved_llid = false, unsigned take_between = 0) {
        verif::monitor& M = M15();
        ++events;
        evlog e = evlog(); e.kind = 0; e.c2p = static_cast<std::uint8_t>(c2p); e.p2c = static_cast<std::uint8_t>(p2c);
        // ---- central chooses what to send
        const bool retx = c_out;
        if (!c_out) {
            if (central_has_data) {
                if (c_len < 1) c_len = 1;
                if (c_len > max_c_payload()) c_len = max_c_payload();
                pdu_rec r = { static_cast<std::uint8_t>(reserved_llid ? 0 : 1 + c_sent.size() % 3), static_cast<std::uint8_t>(c_len) };
                cur_idx = static_cast<std::uint32_t>(c_sent.size()); c_sent.push_back(r); cur_empty = false; cur_stamp = c_txctr;
            } else cur_empty = true;
            cur_sn = c_sn; c_out = true; cur_accepted = cur_mic_new = cur_mic_fault_seen = cur_res_acked = false;
        }
        pdu_rec cur = { 1, 0 }; if (!cur_empty) cur = c_sent[cur_idx];
        const bool hdr_nesn = c_nesn;
        const std::uint8_t hdr0 = static_cast<std::uint8_t>(cur.llid | (hdr_nesn ? 4 : 0) | (cur_sn ? 8 : 0) | ((events & 1) ? 0x10 : 0));
        const bool cur_res = !cur_empty && cur.llid == 0;
        e.c_res = cur_res; e.c_empty = cur_empty; e.c_sn = cur_sn; e.c_nesn = hdr_nesn; e.c_retx = retx; e.c_idx = cur_idx; e.c_len = cur.len;
        if (c2p == O_MIC && (cur_empty || !S.link_enc)) c2p = O_OK;      // an empty PDU has no MIC; the radio never reports a MIC failure for it
        e.c2p = static_cast<std::uint8_t>(c2p);
        if (c2p == O_LOST) { log.push_back(e); fcls(M, "c2p_lost"); return true; }

        // ---- radio ISR
        verif::ctx_step(++g_step); verif::ctx_op("allocate_receive_buffer");
        ll::read_buffer rb = B.alloc_rx();
        M.eval();
        const bool have_buffer = rb.size != 0;
        if (have_buffer) {
            const std::size_t want = mem(S.max_rx - 2);
            if (rb.size != want) { log.push_back(e); viol("C15", "rx_alloc:wrong_size", "allocate_receive_buffer returned size " + std::to_string(rb.size) + " expected " + std::to_string(want)); return false; }
            if (!inside(rb.buffer, rb.size, B.raw() + B.TX, B.RX)) { log.push_back(e); viol("C15", "rx_alloc:outside_receive_memory", "allocate_receive_buffer returned memory outside the receive part of the buffer"); return false; }
            for (std::size_t i = 0; i < rx_live.size(); ++i)
                if (rb.buffer < rx_live[i].p + rx_live[i].n && rx_live[i].p < rb.buffer + rb.size) {
                    log.push_back(e); viol("C15", "rx_alloc:overlaps_unconsumed_pdu", "allocate_receive_buffer returned memory overlapping a received PDU the upper layer did not take yet"); return false;
                }
            // the radio DMA owns all of the buffer
            std::memset(rb.buffer, junk, rb.size);
            write_pdu(rb.buffer, hdr0, cur, cur_idx, DIR_C);
            if (take_between) {
                // the upper layer runs (free_received) after the radio got its buffer and before the radio interrupt is served
                rx_img.assign(rb.buffer, rb.buffer + rb.size);
                evlog mk = evlog(); mk.kind = 5; log.push_back(mk);
                const unsigned took = consume(take_between);
                evlog mk2 = evlog(); mk2.kind = 6; log.push_back(mk2);
                if (bad) { log.push_back(e); return false; }
                if (took) fcls(M, "upper_layer_took_pdu_while_radio_owned_receive_buffer");
                if (std::memcmp(rb.buffer, rx_img.data(), rb.size) != 0) {
                    std::size_t d = 0; while (rb.buffer[d] == rx_img[d]) ++d;
                    log.push_back(e);
                    viol("C15", "rx_alloc:buffer_modified_while_owned_by_radio", "the buffer returned by allocate_receive_buffer (offset " + std::to_string(static_cast<long>(rb.buffer - B.raw() - B.TX)) +
                         " of the receive memory) was modified at byte " + std::to_string(d) + " by free_received() before the radio handed it to received(): " + verif::hex(rb.buffer, std::min<std::size_t>(rb.size, 8)) + " expected " + verif::hex(rx_img.data(), std::min<std::size_t>(rb.size, 8)));
                    return false;
                }
            }
        } else {
            skip_reserved(); if (delivered >= accepted_data) M.count("rx_allocation_failed_with_empty_receive_buffer");
        }
        const bool mic_bad = S.link_enc && !cur_empty && (c2p == O_MIC || cur_stamp != prx());
        int route;
        ll::write_buffer t;
        if (!have_buffer) { route = RT_NEXT_FULL; verif::ctx_step(++g_step); verif::ctx_op("next_transmit (no receive buffer)"); t = B.next_transmit(); }
        else if (c2p == O_CRC) {
            // corrupted copy in memory: payload and header bits are garbage
            for (std::size_t i = 0; i < std::min<std::size_t>(rb.size, 6); ++i) rb.buffer[i] ^= static_cast<std::uint8_t>(0x1c + 7 * i + junk);
            route = RT_NEXT_CRC; verif::ctx_step(++g_step); verif::ctx_op("next_transmit (crc error)"); t = B.next_transmit();
        } else if (mic_bad) {
            // CCM wrote garbage plain text; the header is not encrypted
            for (std::size_t i = 0; i < cur.len; ++i) rb.buffer[2 + B.GAP + i] ^= static_cast<std::uint8_t>(0x5f + i);
            route = RT_ACK; verif::ctx_step(++g_step); verif::ctx_op("acknowledge", rb.buffer, std::min<std::size_t>(rb.size, 8)); t = B.acknowledge(rb);
        } else { route = RT_RECEIVED; verif::ctx_step(++g_step); verif::ctx_op("received", rb.buffer, std::min<std::size_t>(rb.size, 8)); t = B.received(rb); }
        e.route = static_cast<std::uint8_t>(route);
        M.eval();

        const unsigned long rxd = B.rx_ctr() - rx_seen, txd = B.tx_ctr() - tx_seen;
        rx_seen = B.rx_ctr(); tx_seen = B.tx_ctr();
        // a first look at the response (validated further down)
        const bool t_ok = t.buffer != nullptr && t.size >= mem(0);
        const bool pk_empty = t_ok && t.buffer[1] == 0, pk_sn = t_ok && (t.buffer[0] & 8) != 0, pk_nesn = t_ok && (t.buffer[0] & 4) != 0;
        const bool t_same_as_out = t_ok && out_valid && pk_sn == out_sn && (pk_empty ? out_empty :
            (!out_empty && out_idx < p_commits.size() && t.size >= mem(t.buffer[1]) && same_pdu(t.buffer, p_commits[out_idx], out_idx, DIR_P)));
        // A MIC failed PDU with the reserved LLID may be ignored as a whole ("may acknowledge the central's earlier data"):
        // whether its NESN was used is taken from what the peripheral does next.
        const bool optional_ack = route == RT_ACK && cur_res;
        const bool conveyed = route == RT_RECEIVED || (route == RT_ACK && (!optional_ack || !t_same_as_out));
        const bool ack_conv = conveyed && out_valid && (hdr_nesn != out_sn);
        const bool first_accept = route == RT_RECEIVED && !cur_accepted;
        // reserved LLID: the nonce is used up when (and only when) the PDU is acknowledged for the first time
        const bool res_ack_now = cur_res && route == RT_RECEIVED && t_ok && pk_nesn != cur_sn && !cur_res_acked;
        if (res_ack_now) cur_res_acked = true;

        // ---- C16: packet counters
        {
            verif::monitor& K = M16();
            K.eval(2);
            const unsigned long exp_rx = cur_res ? (res_ack_now ? 1 : 0) : ((first_accept && !cur_empty) ? 1 : 0);
            const unsigned long exp_tx = (ack_conv && !out_empty) ? 1 : 0;
            std::uint64_t h = verif::mix(verif::hstr("C16"), route); h = verif::mix(h, cur_empty); h = verif::mix(h, retx); h = verif::mix(h, cur_accepted);
            h = verif::mix(h, out_valid ? (out_empty ? 1 : 2) : 0); h = verif::mix(h, ack_conv); h = verif::mix(h, rxd); h = verif::mix(h, txd); h = verif::mix(h, S.link_enc); h = verif::mix(h, B.GAP); h = verif::mix(h, cur_res);
            if (!cur_empty || (out_valid && !out_empty) || retx) K.nontrivial(h);
            if (cur_res) fcls(K, route == RT_RECEIVED ? (res_ack_now ? "rx_reserved_llid_acknowledged_increment" : "rx_reserved_llid_retransmission_no_increment") : "rx_reserved_llid_not_received_no_increment");
            else if (route == RT_RECEIVED) fcls(K, cur_empty ? (first_accept ? "rx_new_empty_no_increment" : "rx_retransmitted_empty_no_increment") : (first_accept ? "rx_new_data_increment" : "rx_retransmitted_data_no_increment"));
            else if (route == RT_ACK) fcls(K, cur_accepted ? "rx_mic_failed_retransmission_no_increment" : "rx_mic_failed_new_no_increment");
            else fcls(K, route == RT_NEXT_CRC ? "rx_crc_error_no_increment" : "rx_no_buffer_no_increment");
            if (out_valid) fcls(K, ack_conv ? (out_empty ? "tx_empty_acknowledged_no_increment" : "tx_data_acknowledged_increment") : (out_empty ? "tx_empty_not_acknowledged" : "tx_data_not_acknowledged_no_increment"));
            // a C16 finding must not end the run for C15 (each check reads only its own property's events); in C17 mode it does
#define C16_VIOL(KEY, WHAT) do { log.push_back(e); viol("C16", KEY, WHAT); log.pop_back(); if (bad) { log.push_back(e); return false; } } while (0)
            if (!bad16 && rxd != exp_rx) {
                if (rxd > exp_rx) C16_VIOL(std::string("rx_counter:extra_increment:") + (route == RT_RECEIVED ? (cur_empty ? "empty_pdu" : "retransmission") : route == RT_ACK ? "mic_failed_pdu" : "nothing_received"),
                                       "increment_receive_packet_counter called " + std::to_string(rxd) + " times, expected " + std::to_string(exp_rx));
                else C16_VIOL(cur_res ? "rx_counter:missing_increment:acknowledged_reserved_llid_pdu" : "rx_counter:missing_increment", cur_res ? "a new non-empty PDU with the reserved LLID 0 is acknowledged (its nonce is used up, the central advances its packet counter) but increment_receive_packet_counter was not called" : "a new non-empty PDU was accepted but increment_receive_packet_counter was not called");
            }
            if (!bad16 && txd != exp_tx) {
                if (txd > exp_tx) C16_VIOL(std::string("tx_counter:extra_increment:") + (!out_valid ? "nothing_outstanding" : !ack_conv ? "not_acknowledged" : "empty_pdu"),
                                       "increment_transmit_packet_counter called " + std::to_string(txd) + " times, expected " + std::to_string(exp_tx));
                else C16_VIOL("tx_counter:missing_increment", "a non-empty PDU was acknowledged by the central but increment_transmit_packet_counter was not called");
            }
            // end to end: a new non-empty PDU that arrives undamaged must decrypt, i.e. both counters agree
            if (!bad16 && S.link_enc && !cur_empty && !cur_accepted && c2p == O_OK && have_buffer && route == RT_ACK)
                C16_VIOL("nonce:central_to_peripheral_counter_mismatch", "new non-empty PDU C#" + std::to_string(cur_idx) + " was encrypted with packet counter " + std::to_string(cur_stamp) +
                     " but the peripheral's receive packet counter is " + std::to_string(prx()) + " (nonce skipped or reused)");
#undef C16_VIOL
        }

        // ---- bookkeeping of what was fed in
        if (route == RT_RECEIVED) {
            if (first_accept) {
                cur_accepted = true;
                if (cur_res) { ++accepted_data; fcls(M, "c2p_reserved_llid_pdu_received"); }
                else if (!cur_empty) { ++accepted_data; region g = { rb.buffer, mem(cur.len) }; rx_live.push_back(g); fcls(M, "c2p_new_data_received"); if (cur_mic_fault_seen) fcls(M17(), "mic_failed_pdu_later_retransmitted_and_received"); }
                else fcls(M, "c2p_new_empty_received");
            } else fcls(M, cur_empty ? "c2p_retransmitted_empty_received" : cur_res ? "c2p_reserved_llid_pdu_retransmission_received" : "c2p_retransmitted_data_received");
        } else if (route == RT_ACK) {
            if (!cur_accepted) cur_mic_new = true;
            if (c2p == O_MIC) cur_mic_fault_seen = true;
            fcls(M, cur_accepted ? "c2p_mic_failure_on_retransmission" : "c2p_mic_failure_on_new_pdu");
        } else fcls(M, route == RT_NEXT_CRC ? "c2p_crc_error" : "c2p_dropped_no_receive_buffer");

        if (ack_conv) {
            if (!out_empty) {
                if (c_accept_cnt <= out_idx) {
                    log.push_back(e);
                    viol("C15", "tx:considered_delivered_but_central_never_received", "peripheral was told that P#" + std::to_string(out_idx) + " is acknowledged but the central never accepted it");
                    return false;
                }
                ++p_ackconv;
                fcls(M, "ack_for_data_reached_peripheral");
            } else fcls(M, "ack_for_empty_reached_peripheral");
        }

        // ---- the PDU handed to the radio for transmission
        if (t.size < mem(0) || t.buffer == nullptr) { log.push_back(e); viol("C15", "tx:no_pdu_to_transmit", "radio interface returned an empty buffer to transmit"); return false; }
        const std::size_t t_len = t.buffer[1];
        const bool t_empty = t_len == 0;
        const bool t_sn = (t.buffer[0] & 8) != 0, t_nesn = (t.buffer[0] & 4) != 0;
        if (!inside(t.buffer, mem(t_len), B.obj(), B.obj_size()) || (!t_empty && !inside(t.buffer, mem(t_len), B.raw(), B.TX))) {
            log.push_back(e); viol("C15", "tx:pdu_outside_transmit_memory", "PDU to transmit does not lie in the transmit memory"); return false;
        }
        if (t.size < mem(t_len)) { log.push_back(e); viol("C15", "tx:buffer_shorter_than_pdu", "transmit buffer size " + std::to_string(t.size) + " shorter than PDU with length field " + std::to_string(t_len)); return false; }
        e.t_valid = true; e.t_empty = t_empty; e.t_sn = t_sn; e.t_nesn = t_nesn; e.t_len = static_cast<std::uint8_t>(t_len); e.t_idx = -1;
        int t_idx = -1;
        const bool must_repeat = out_valid && !ack_conv;
        if (!t_empty) {
            const std::size_t expect = must_repeat && !out_empty ? out_idx : p_ackconv;
            if (expect < p_commits.size() && same_pdu(t.buffer, p_commits[expect], static_cast<std::uint32_t>(expect), DIR_P)) t_idx = static_cast<int>(expect);
            else t_idx = find_pdu(t.buffer, p_commits, DIR_P);
            e.t_idx = t_idx;
        }
        log.push_back(e);
        M.eval();
        if (!t_empty && t_idx < 0) { viol("C15", "tx:altered_or_unknown_pdu", "PDU to transmit matches no committed PDU: " + verif::hex(t.buffer, std::min<std::size_t>(mem(t_len), 16))); return false; }
        if (must_repeat) {
            // transmitted until acknowledged: same PDU, same sequence number
            const bool same = (t_empty == out_empty) && (t_empty || static_cast<std::uint32_t>(t_idx) == out_idx);
            if (!same) { viol("C15", "tx:moved_on_without_acknowledgement", std::string("previous PDU (") + (out_empty ? "empty" : "P#" + std::to_string(out_idx)) + ") was not acknowledged but a different PDU is transmitted"); return false; }
            if (t_sn != out_sn) { viol("C15", "tx:retransmission_with_different_sn", "retransmission carries a different sequence number"); return false; }
            fcls(M, t_empty ? "tx_retransmit_empty" : "tx_retransmit_data");
        } else {
            if (!t_empty && static_cast<std::size_t>(t_idx) != p_ackconv) {
                viol("C15", static_cast<std::size_t>(t_idx) < p_ackconv ? "tx:acknowledged_pdu_transmitted_again" : "tx:out_of_order", "expected P#" + std::to_string(p_ackconv) + " to be transmitted next, got P#" + std::to_string(t_idx)); return false;
            }
            fcls(M, t_empty ? "tx_new_empty" : "tx_new_data");
        }
        out_valid = true; out_empty = t_empty; out_sn = t_sn; out_idx = t_empty ? 0 : static_cast<std::uint32_t>(t_idx);

        // ---- acknowledging what was not stored (wire level): NESN must still ask for the central's current PDU
        if (!cur_empty && !cur_accepted && (!cur_res || route == RT_ACK)) {
            if (route == RT_ACK) {
                verif::monitor& K = M17(); K.eval();
                std::uint64_t h = verif::mix(verif::hstr("C17"), retx); h = verif::mix(h, c2p); h = verif::mix(h, out_empty); h = verif::mix(h, ack_conv); h = verif::mix(h, std::min(events, 6u)); h = verif::mix(h, t_nesn != cur_sn); h = verif::mix(h, B.GAP); h = verif::mix(h, p2c);
                K.nontrivial(h);
                fcls(K, ack_conv ? "mic_failed_new_pdu_carrying_ack_for_peripheral" : "mic_failed_new_pdu");
            }
            if (t_nesn != cur_sn) {
                if (route == RT_ACK || cur_mic_new) viol("C17", "nesn:mic_failed_new_pdu_acknowledged", "C#" + std::to_string(cur_idx) + " (new, MIC failed, never delivered) is acknowledged: response carries NESN=" + (t_nesn ? "1" : "0") + " while the PDU's SN=" + (cur_sn ? "1" : "0"));
                else if (route == RT_NEXT_FULL) viol("C15", "nesn:pdu_dropped_for_full_receive_buffer_acknowledged", "C#" + std::to_string(cur_idx) + " was not stored (no receive buffer) but the response acknowledges it");
                else viol("C15", "nesn:pdu_with_crc_error_acknowledged", "C#" + std::to_string(cur_idx) + " had a CRC error but the response acknowledges it");
                return false;
            }
        } else if (route == RT_ACK && cur_accepted) {
            // retransmission of a delivered PDU fails its MIC: re-acknowledging is fine, the ack for the peripheral counts
            verif::monitor& K = M17(); K.eval();
            std::uint64_t h = verif::mix(verif::hstr("C17r"), c2p); h = verif::mix(h, out_empty); h = verif::mix(h, ack_conv); h = verif::mix(h, std::min(events, 6u)); h = verif::mix(h, t_nesn != cur_sn); h = verif::mix(h, B.GAP); h = verif::mix(h, p2c);
            K.nontrivial(h);
            fcls(K, ack_conv ? "mic_failed_retransmission_carrying_ack_for_peripheral" : "mic_failed_retransmission_of_delivered_pdu");
        }

        // ---- non-trivial case accounting for C15
        {
            std::uint64_t h = verif::mix(verif::hstr("C15"), c2p * 4 + p2c); h = verif::mix(h, route); h = verif::mix(h, cur_empty); h = verif::mix(h, retx); h = verif::mix(h, first_accept);
            h = verif::mix(h, must_repeat); h = verif::mix(h, t_empty); h = verif::mix(h, ack_conv); h = verif::mix(h, std::min<std::size_t>(p_commits.size() - p_ackconv, 3));
            h = verif::mix(h, std::min<std::size_t>(rx_live.size(), 3)); h = verif::mix(h, B.GAP); h = verif::mix(h, S.link_enc); h = verif::mix(h, central_busy);
            if (c2p != O_OK || p2c != O_OK || !cur_empty || !t_empty || retx || must_repeat) M.nontrivial(h);
        }

        // ---- peripheral -> central
        fcls(M, p2c == O_OK ? "p2c_ok" : p2c == O_LOST ? "p2c_lost" : "p2c_crc_error");
        if (p2c != O_OK) return true;
        return central_receive(t_sn, t_nesn, t_empty, t_idx, ptx(), central_busy);
    }

    // ---------------------------------------------------------------------------------------------------- end of a run
    void drain_and_check() {
        verif::monitor& M = M15();
        if (bad) return;
        if (pend_valid) finish_commit();
        if (bad) return;
        evlog mk = evlog(); mk.kind = 4; log.push_back(mk);
        const unsigned n = static_cast<unsigned>(p_commits.size() - c_accept_cnt) + 5;
        for (unsigned i = 0; i < n && !bad; ++i) { consume(1000); if (!bad) exchange(O_OK, O_OK, false, 0, false, 0xEE); }
        if (!bad) consume(1000);
        if (bad) return;
        M.eval(3); M16().eval(4);
        skip_reserved();
        if (c_acked_data > delivered) { viol("C15", "c2p:acknowledged_but_never_delivered", "central has " + std::to_string(c_acked_data) + " PDUs acknowledged but the upper layer got only " + std::to_string(delivered)); return; }
        {
            verif::ctx_step(++g_step); verif::ctx_op("allocate_receive_buffer (final)");
            const bool no_mem = B.alloc_rx().size == 0;
            if (no_mem && delivered >= accepted_data && S.mic_faults) { M.count("runs_ending_with_blocked_receive_allocation"); return; }   // not a MIC matter: reported by C15/C18
            if (no_mem && delivered >= accepted_data) {
                viol("C15", "progress:receive_allocation_fails_although_receive_buffer_is_empty", std::string("the upper layer took every PDU, the receive buffer is empty, but allocate_receive_buffer() keeps returning no memory: ") +
                     (c_out && !cur_empty && !cur_accepted ? "C#" + std::to_string(cur_idx) + " is retransmitted for ever" : "nothing can be received any more") +
                     "; the radio glue never hands a header to the buffer again, so acknowledgements for the peripheral's PDUs are lost too");
                return;
            }
            if (c_out && !cur_empty && !cur_accepted) { viol("C15", "progress:central_pdu_not_accepted_on_perfect_channel", "C#" + std::to_string(cur_idx) + " still not accepted after " + std::to_string(n) + " fault free events with an idle upper layer"); return; }
        }
        if (delivered != c_sent.size()) { viol("C15", "c2p:sent_but_not_delivered_after_drain", "central sent " + std::to_string(c_sent.size()) + " data PDUs, upper layer got " + std::to_string(delivered)); return; }
        if (c_accept_cnt != p_commits.size()) { viol("C15", "progress:committed_pdu_not_delivered_on_perfect_channel", std::to_string(p_commits.size()) + " PDUs committed, central got " + std::to_string(c_accept_cnt) + " after " + std::to_string(n) + " fault free events"); return; }
        // a peripheral that never acknowledges a PDU with the reserved LLID keeps the central retransmitting: not judged here
        if (c_out && !cur_empty && c_sent[cur_idx].llid == 0) { fcls(M, "run_ended_reserved_llid_pdu_never_acknowledged"); return; }
        // conservation of the packet counters at quiescence
        if (prx() != c_txctr || prx() != c_sent.size()) { viol("C16", "conservation:receive_counter", "receive packet counter " + std::to_string(prx()) + ", central's transmit counter " + std::to_string(c_txctr) + ", data PDUs sent " + std::to_string(c_sent.size())); return; }
        if (ptx() != c_rxctr || ptx() != p_commits.size()) { viol("C16", "conservation:transmit_counter", "transmit packet counter " + std::to_string(ptx()) + ", central's receive counter " + std::to_string(c_rxctr) + ", PDUs committed " + std::to_string(p_commits.size())); return; }
        fcls(M, "run_completed_everything_delivered");
    }
};

// ---------------------------------------------------------------------------------------------------------------
// traffic shapes for the enumerated part (deterministic functions of the event index)
static const int NSHAPES = 9;
static const char* shape_name(int s) {
    static const char* n[] = { "idle", "central_data", "central_data_slow_consumer", "peripheral_data", "both", "alternating", "commit_after_empty_pdu", "bursts_slow_consumer", "reserved_llid_mix" };
    return n[s];
}
static unsigned g_len_phase = 0;   // derived from the seed: different seeds enumerate the same fault patterns over different PDU lengths
static std::size_t len_of(unsigned n, std::size_t maxp, unsigned phase) {
    static const int t[8] = { 27, 1, -1, 5, 2, -1, 13, -2 };     // -1: maximum, -2: maximum - 1
    const int v = t[(n + phase + g_len_phase) % 8];
    std::size_t l = v == -1 ? maxp : v == -2 ? (maxp > 1 ? maxp - 1 : 1) : static_cast<std::size_t>(v);
    return std::max<std::size_t>(1, std::min(l, maxp));
}

struct shape_driver {
    world& W; int shape; unsigned ncommit, ncentral;
    shape_driver(world& w, int s) : W(w), shape(s), ncommit(0), ncentral(0) {}
    void do_commit() { const std::size_t l = len_of(ncommit, W.max_p_payload(), 3); W.commit(l, static_cast<std::uint8_t>(1 + (ncommit + 1) % 3), (ncommit & 1) != 0, (ncommit & 2) ? 0x00 : 0xEE); ++ncommit; }
    bool step(unsigned i, int c2p, int p2c) {
        int before = 0, after = 0; bool cdata = false; unsigned take = 1000;
        switch (shape) {
        case 0: break;
        case 1: cdata = true; break;
        case 2: cdata = true; take = (i % 3 == 2) ? 1000 : 0; break;
        case 3: before = (i % 2 == 0) ? 2 : 1; break;
        case 4: cdata = true; before = 1; break;
        case 5: cdata = (i % 2 == 0); before = (i % 2 == 1) ? 1 : 0; break;
        case 6: cdata = (i % 3 == 1); after = (i % 2 == 0) ? 1 : 0; break;
        case 7: cdata = true; before = (i % 4 == 0) ? 3 : 0; take = (i % 4 == 3) ? 1000 : 0; break;
        default: cdata = true; before = (i % 2 == 0) ? 1 : 0; break;      // every second central PDU carries the reserved LLID
        }
        // a small share of reserved-LLID PDUs in every shape, a large one in the last
        const bool reserved = shape == 8 ? (ncentral % 2 == 1) : (ncentral % 5 == 2);
        // interleavings of link layer and radio interrupt: in some shapes the upper layer frees received PDUs while the radio
        // already owns the next receive buffer, and the link layer assembles a PDU while the interrupt acknowledges others
        // (not in C17 mode: these interleavings are not a MIC matter, C15 reports them)
        const bool take_in_between = !W.S.mic_faults && (shape == 2 || shape == 7 || (shape == 8 && (i & 1)));
        const bool split_commit = !W.S.mic_faults && (shape == 5 || shape == 8 || shape == 3) && before > 0;
        for (int k = 0; k < before - (split_commit ? 1 : 0) && !W.bad; ++k) do_commit();
        if (split_commit && !W.bad) { const std::size_t l = len_of(ncommit, W.max_p_payload(), 3); if (W.begin_commit(l, static_cast<std::uint8_t>(1 + (ncommit + 1) % 3), (ncommit & 1) == 0, (ncommit & 2) ? 0x00 : 0xEE)) ++ncommit; }
        if (W.bad) return false;
        const bool was_out = W.c_out;
        const bool ok = W.exchange(c2p, p2c, cdata, len_of(ncentral, W.max_c_payload(), 0), false, (i & 1) ? 0x00 : 0xEE, reserved, take_in_between ? take : 0);
        if (!was_out && cdata) ++ncentral;
        if (!ok) return false;
        if (W.pend_valid) { if (W.finish_commit()) fcls(W.M15(), "commit_finished_after_radio_interrupt"); if (W.bad) return false; }
        for (int k = 0; k < after && !W.bad; ++k) do_commit();
        if (!W.bad && take && !take_in_between) W.consume(take);
        return !W.bad;
    }
};

// outcome alphabet per event: 0 = c2p lost; 1..3 = c2p crc x p2c {ok,lost,crc}; 4..6 = c2p ok x ...; 7..9 = c2p mic x ...
static void decode(int code, int& c2p, int& p2c) {
    if (code == 0) { c2p = O_LOST; p2c = O_OK; return; }
    static const int p[3] = { O_OK, O_LOST, O_CRC };
    const int g = (code - 1) / 3;
    c2p = g == 0 ? O_CRC : g == 1 ? O_OK : O_MIC; p2c = p[(code - 1) % 3];
}
std::string world::pattern_text() const { return pat_shape < 0 ? pattern : pattern_str(pat_codes, pat_shape); }
static std::string pattern_str(const std::vector<int>& codes, int shape) {
    std::string s = std::string("shape=") + shape_name(shape) + " outcomes(c2p/p2c)=";
    for (std::size_t i = 0; i < codes.size(); ++i) { int a, b; decode(codes[i], a, b); s += (i ? "," : ""); s += oname(a); if (a != O_LOST) { s += "/"; s += oname(b); } }
    return s;
}

static unsigned long long enumerate(world& W, int k, int shape, unsigned long long& obj_toggle) {
    const int base = W.S.mic_faults ? 10 : 7;
    unsigned long long total = 1; for (int i = 0; i < k; ++i) total *= base;
    std::vector<int> codes(k, 0);
    for (unsigned long long n = 0; n < total; ++n) {
        unsigned long long v = n; bool has_mic = false;
        for (int i = 0; i < k; ++i) { codes[i] = static_cast<int>(v % base); v /= base; if (codes[i] >= 7) has_mic = true; }
        if (W.S.mic_faults && !has_mic) continue;        // patterns without a MIC fault are C15's
        W.pat_codes = codes; W.pat_shape = shape;
        W.start((obj_toggle++ & 15) == 0, std::string());
        shape_driver D(W, shape);
        for (int i = 0; i < k && !W.bad; ++i) { int a, b; decode(codes[i], a, b); D.step(static_cast<unsigned>(i), a, b); }
        W.drain_and_check();
    }
    return total;
}

// random long runs
static void random_runs(world& W, verif::prng& r, unsigned long long events_total, unsigned run_len, unsigned long long& obj_toggle) {
    unsigned long long done = 0;
    while (done < events_total) {
        // loss profile of this run (per mille)
        static const unsigned prof[6][4] = { { 0, 0, 0, 0 }, { 50, 50, 50, 50 }, { 300, 300, 100, 100 }, { 100, 100, 300, 300 }, { 600, 200, 600, 200 }, { 20, 400, 20, 400 } };
        const unsigned* p = prof[r.below(6)];
        const unsigned mic_pm = W.S.mic_faults ? (r.chance(1, 2) ? 150 : 30) : 0;
        const unsigned c_data_pm = r.below(4) * 333, p_data_pm = r.below(4) * 333, take_pm = 200 + r.below(5) * 200, busy_pm = r.chance(1, 3) ? 150 : 0;
        W.pat_shape = -1;
        W.start((obj_toggle++ & 3) == 0, "random run: c2p lost/crc=" + std::to_string(p[0]) + "/" + std::to_string(p[1]) + " p2c lost/crc=" + std::to_string(p[2]) + "/" + std::to_string(p[3]) +
                " mic=" + std::to_string(mic_pm) + " per mille, central data " + std::to_string(c_data_pm) + ", peripheral data " + std::to_string(p_data_pm) + ", upper layer " + std::to_string(take_pm) + ", central busy " + std::to_string(busy_pm));
        for (unsigned i = 0; i < run_len && !W.bad; ++i) {
            while (!W.bad && r.below(1000) < p_data_pm / 2) {
                std::size_t l; switch (r.below(5)) { case 0: l = 1; break; case 1: l = W.max_p_payload(); break; case 2: l = std::min<std::size_t>(27, W.max_p_payload()); break; default: l = 1 + r.below(static_cast<std::uint32_t>(W.max_p_payload())); }
                if (!W.commit(l, static_cast<std::uint8_t>(1 + r.below(3)), r.chance(1, 2), r.byte())) break;
            }
            if (W.bad) break;
            int c2p = O_OK, p2c = O_OK;
            unsigned x = r.below(1000); if (x < p[0]) c2p = O_LOST; else if (x < p[0] + p[1]) c2p = O_CRC; else if (x < p[0] + p[1] + mic_pm) c2p = O_MIC;
            x = r.below(1000); if (x < p[2]) p2c = O_LOST; else if (x < p[2] + p[3]) p2c = O_CRC;
            std::size_t cl; switch (r.below(5)) { case 0: cl = 1; break; case 1: cl = W.max_c_payload(); break; case 2: cl = std::min<std::size_t>(27, W.max_c_payload()); break; default: cl = 1 + r.below(static_cast<std::uint32_t>(W.max_c_payload())); }
            const bool inter = !W.S.mic_faults;
            if (!W.bad && inter && r.below(1000) < p_data_pm / 3) W.begin_commit(1 + r.below(static_cast<std::uint32_t>(W.max_p_payload())), static_cast<std::uint8_t>(1 + r.below(3)), r.chance(1, 2), r.byte());
            if (W.bad) break;
            W.exchange(c2p, p2c, r.below(1000) < c_data_pm, cl, r.below(1000) < busy_pm, r.byte(), r.below(100) < 8, (inter && r.chance(1, 3)) ? 1 + r.below(3) : 0);
            if (!W.bad && W.pend_valid && W.finish_commit()) fcls(W.M15(), "commit_finished_after_radio_interrupt");
            ++done;
            if (!W.bad && r.below(1000) < p_data_pm / 3) W.commit(1 + r.below(static_cast<std::uint32_t>(W.max_p_payload())), static_cast<std::uint8_t>(1 + r.below(3)), r.chance(1, 2), r.byte());
            if (!W.bad && r.below(1000) < take_pm) W.consume(1 + r.below(3));
        }
        W.drain_and_check();
    }
}

// ---------------------------------------------------------------------------------------------------------------
struct job { buf_iface* b; };

int main(int argc, char** argv) {
    verif::args a(argc, argv);
    verif::install_crash_handler();
    const unsigned long long seed = a.num("seed", 1);
    const bool mic = a.num("mic", 0) != 0;
    const int k = static_cast<int>(a.num("k", 4));
    const int kbig = static_cast<int>(a.num("kbig", k));     // enumeration depth for the six base buffer configurations
    g_len_phase = static_cast<unsigned>((seed - 1) % 8);
    const unsigned long long ops = a.num("ops", 20000);
    const unsigned run_len = static_cast<unsigned>(a.num("runlen", 200));
    const unsigned part = static_cast<unsigned>(a.num("part", 0)), parts = static_cast<unsigned>(a.num("parts", 1));
    const unsigned grid = static_cast<unsigned>(a.num("grid", 0));      // 0: all buffer sizes, 1: reduced set
    verif::ctx_prop(mic ? "C17" : "C15");
    verif::prng r(seed * 7919 + part);
    verif::run_config() = std::string("llbuf mic=") + (mic ? "1" : "0") + " k=" + std::to_string(k) + " kbig=" + std::to_string(kbig) + " ops=" + std::to_string(ops) + " part=" + std::to_string(part) + "/" + std::to_string(parts) + " seed=" + std::to_string(seed);

    std::vector<buf_iface*> bufs;
    bufs.push_back(new buf_adapter<29, 29, false>());
    bufs.push_back(new buf_adapter<61, 61, false>());
    bufs.push_back(new buf_adapter<100, 100, false>());
    bufs.push_back(new buf_adapter<30, 30, true>());
    bufs.push_back(new buf_adapter<61, 61, true>());
    bufs.push_back(new buf_adapter<100, 100, true>());
    if (grid == 0) {
        bufs.push_back(new buf_adapter<40, 58, false>());
        bufs.push_back(new buf_adapter<29, 256, false>());
        bufs.push_back(new buf_adapter<256, 29, false>());
        bufs.push_back(new buf_adapter<512, 512, false>());
        bufs.push_back(new buf_adapter<59, 40, true>());
        bufs.push_back(new buf_adapter<256, 256, true>());
        bufs.push_back(new buf_adapter<520, 520, true>());
    }

    // work items: buffer x maximum PDU size x link encryption x shape; distributed round robin over the parts
    unsigned item = 0; unsigned long long obj_toggle = 0, patterns = 0, combos = 0;
    for (std::size_t bi = 0; bi < bufs.size(); ++bi) {
        buf_iface& B = *bufs[bi];
        B.fresh();
        const std::size_t big_rx = std::min<std::size_t>(251, B.max_max_rx()), big_tx = std::min<std::size_t>(251, B.max_max_tx());
        for (int big = 0; big < 2; ++big) {
            if (big && big_rx == 29 && big_tx == 29) continue;
            for (int enc = (mic ? 1 : 0); enc < 2; ++enc) {
                settings s = { big ? big_rx : 29, big ? big_tx : 29, enc != 0, mic };
                world W(B, s);
                verif::ctx_config(W.cfg.substr(0, 90));
                for (int shape = 0; shape < NSHAPES; ++shape) {
                    if (mic && (shape == 0 || shape == 3)) continue;       // no central data: no MIC to fail
                    { const unsigned it = item++; if (((it + it / NSHAPES) % parts) != part) continue; }   // rotate the shapes over the parts
                    ++combos;
                    const int kk = bi < 6 ? kbig : k;
                    if (kk > 0) {
                        const unsigned long long n = enumerate(W, kk, shape, obj_toggle);
                        patterns += n;
                        const std::string js = "{\"config\":\"" + W.cfg + "\",\"shape\":\"" + shape_name(shape) + "\",\"enumerated_events\":" + std::to_string(kk) + ",\"patterns\":" + std::to_string(n) + ",\"last_pattern\":\"" + W.pattern_text() + "\"}";
                        if (mic) mon("C17").sample_json(js); else { mon("C15").sample_json(js); mon("C16").sample_json(js); }
                    }
                }
                if (ops > 0 && ((bi * 4 + big * 2 + enc) % parts) == part % parts) {
                    random_runs(W, r, ops, run_len, obj_toggle);
                    if (!mic) { mon("C15").sample("random: " + W.pattern + " | " + W.cfg); mon("C16").sample("random: " + W.pattern + " | " + W.cfg); } else mon("C17").sample("random: " + W.pattern + " | " + W.cfg);
                }
            }
        }
    }
    const char* props[3] = { "C15", "C16", "C17" };
    for (int i = 0; i < 3; ++i) {
        if ((i == 2) != mic) continue;
        mon(props[i]).count("enumerated_patterns_k" + std::to_string(k), patterns);
        mon(props[i]).count("enumerated_patterns", patterns);
        mon(props[i]).count("config_shape_combinations", combos);
        mon(props[i]).count("lock_guard_taken", lock_probe::taken);
        mon(props[i]).exhaustive = false;   // exhaustive only for the first k events of each combination
    }
    if (lock_probe::max_depth > 1) verif::violation(mic ? "C17" : "C15", std::string(mic ? "C17" : "C15") + ":lock_guard:nested", "Radio::lock_guard taken recursively", g_step);
    for (std::size_t i = 0; i < bufs.size(); ++i) delete bufs[i];
    verif::finish();
    return 0;
}
