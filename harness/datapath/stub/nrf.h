/* Minimal host stub of Nordic's <nrf.h>, just enough for bluetoe/bindings/nordic/include/bluetoe/nrf.hpp to
 * compile on the host so that the datapath harnesses can instantiate the real
 * bluetoe::nrf_details::encrypted_pdu_layout.  No register is ever accessed by the harnesses: the inline
 * clock start functions of nrf.hpp are compiled but never called.  (Family E owns the full register-file
 * emulation under /verif/stubs; this stub is private to harness/datapath.) */
#ifndef VERIF_DATAPATH_STUB_NRF_H
#define VERIF_DATAPATH_STUB_NRF_H

#include <stdint.h>

#define __NVIC_PRIO_BITS 3

typedef struct { volatile uint32_t dummy; } NRF_RADIO_Type;
typedef struct { volatile uint32_t dummy; } NRF_TIMER_Type;
typedef struct {
    volatile uint32_t TASKS_HFCLKSTART, TASKS_HFCLKSTOP, TASKS_LFCLKSTART;
    volatile uint32_t EVENTS_HFCLKSTARTED, EVENTS_LFCLKSTARTED;
    volatile uint32_t LFCLKSRC;
} NRF_CLOCK_Type;
typedef struct { volatile uint32_t dummy; } NRF_TEMP_Type;
typedef struct { volatile uint32_t TASKS_START, TASKS_STOP, EVTEN; } NRF_RTC_Type;
typedef struct { volatile uint32_t dummy; } NRF_CCM_Type;
typedef struct { volatile uint32_t dummy; } NRF_AAR_Type;
typedef struct { volatile uint32_t dummy; } NRF_PPI_Type;
typedef struct { volatile uint32_t dummy; } NRF_RNG_Type;
typedef struct { volatile uint32_t dummy; } NRF_ECB_Type;
typedef struct { volatile uint32_t dummy; } NRF_GPIOTE_Type;
typedef struct { volatile uint32_t dummy; } NVIC_Type;

#ifdef __cplusplus
extern "C" {
#endif
static NRF_RADIO_Type  verif_dp_stub_radio;
static NRF_TIMER_Type  verif_dp_stub_timer0, verif_dp_stub_timer1;
static NRF_CLOCK_Type  verif_dp_stub_clock;
static NRF_TEMP_Type   verif_dp_stub_temp;
static NRF_RTC_Type    verif_dp_stub_rtc0;
static NRF_CCM_Type    verif_dp_stub_ccm;
static NRF_AAR_Type    verif_dp_stub_aar;
static NRF_PPI_Type    verif_dp_stub_ppi;
static NRF_RNG_Type    verif_dp_stub_rng;
static NRF_ECB_Type    verif_dp_stub_ecb;
static NRF_GPIOTE_Type verif_dp_stub_gpiote;
static NVIC_Type       verif_dp_stub_nvic;
#ifdef __cplusplus
}
#endif

#define NRF_RADIO   (&verif_dp_stub_radio)
#define NRF_TIMER0  (&verif_dp_stub_timer0)
#define NRF_TIMER1  (&verif_dp_stub_timer1)
#define NRF_CLOCK   (&verif_dp_stub_clock)
#define NRF_TEMP    (&verif_dp_stub_temp)
#define NRF_RTC0    (&verif_dp_stub_rtc0)
#define NRF_CCM     (&verif_dp_stub_ccm)
#define NRF_AAR     (&verif_dp_stub_aar)
#define NRF_PPI     (&verif_dp_stub_ppi)
#define NRF_RNG     (&verif_dp_stub_rng)
#define NRF_ECB     (&verif_dp_stub_ecb)
#define NRF_GPIOTE  (&verif_dp_stub_gpiote)
#define NVIC        (&verif_dp_stub_nvic)

#define RTC_EVTEN_COMPARE0_Enabled 1u
#define RTC_EVTEN_COMPARE0_Pos     16
#define RTC_EVTEN_COMPARE1_Enabled 1u
#define RTC_EVTEN_COMPARE1_Pos     17
#define RTC_EVTEN_OVRFLW_Enabled   1u
#define RTC_EVTEN_OVRFLW_Pos       1

#define CLOCK_LFCLKSRCCOPY_SRC_RC    0u
#define CLOCK_LFCLKSRCCOPY_SRC_Xtal  1u
#define CLOCK_LFCLKSRCCOPY_SRC_Synth 2u
#define CLOCK_LFCLKSRCCOPY_SRC_Pos   0

#endif
