// C18 (family B1): bluetoe::link_layer::pdu_ring_buffer on exact-size heap storage against a reference deque and a
// reference allocator written from the ring's documentation:
//   * elements are inserted at the front and removed from the end (FIFO in commit order),
//   * a PDU occupies Layout::data_channel_pdu_memory_size( length field ) contiguous bytes,
//   * an allocation is placed behind the newest PDU if the space up to the end of the storage is sufficient,
//     otherwise at the beginning of the storage, strictly before the oldest PDU (one byte is always kept free),
//   * "When the ring buffer is empty it is garantied that the buffer can store one elemente of at least Size - 1 in size".
// Layout expectations (independent of the code): default layout = 2 byte header + payload; nRF encrypted layout =
// 2 byte header + 1 byte gap (S1 field of the nRF radio RAM layout) + payload, header little endian at bytes 0/1.
//
// Workload: exhaustive DFS over operation sequences (snapshot/restore of ring object + storage) and long random
// histories.  After every operation: next_end() (pointer, size, bytes), more_than_one(), bytes of every live PDU, and
// alloc_front() probes at the boundaries computed by the reference allocator.
#include <bluetoe/nrf.hpp>
#include <bluetoe/ring_buffer.hpp>
#include "common/verif.hpp"

#include <vector>
#include <string>
#include <algorithm>

namespace ll = bluetoe::link_layer;
using verif::mon;

static const char* const PROP = "C18";
static unsigned long long g_step = 0;

template <class Layout> struct layout_info;
template <> struct layout_info<ll::default_pdu_layout> { static const std::size_t gap = 0; static const char* name() { return "default"; } };
template <> struct layout_info<bluetoe::nrf_details::encrypted_pdu_layout> { static const std::size_t gap = 1; static const char* name() { return "nrf_encrypted"; } };

struct live_pdu {
    std::size_t off, mem;       // offset into the storage, bytes occupied
    std::uint32_t id;
    std::uint8_t hdr0, len;     // first header byte, payload length
};

static inline std::uint8_t body_byte(std::uint32_t id, std::size_t i) {
    return static_cast<std::uint8_t>(id * 131u + i * 17u + (i >> 3) + 1u);
}


// The checker below is compiled once; the real class templates sit behind this thin adapter (one per Size x Layout).
struct ring_iface {
    virtual ~ring_iface() {}
    virtual ll::read_buffer alloc(std::uint8_t* base, std::size_t s) const = 0;
    virtual void push(std::uint8_t* base, const ll::read_buffer& b) = 0;
    virtual ll::read_buffer next_end() const = 0;
    virtual void pop(std::uint8_t* base) = 0;
    virtual bool more_than_one() const = 0;
    virtual void reset(std::uint8_t* base) = 0;
    virtual void save() = 0;            // push a copy of the ring object on a stack
    virtual void load() = 0;            // restore the ring object from the top of the stack
    virtual void drop() = 0;            // pop the stack
    virtual void set_header(const ll::read_buffer& b, std::uint16_t v) const = 0;
    virtual std::uint16_t get_header(const std::uint8_t* p) const = 0;
    virtual std::pair<std::uint8_t*, std::uint8_t*> body(const ll::read_buffer& b) const = 0;
    virtual std::size_t mem_size(std::size_t payload) const = 0;
};

template <std::size_t Size, class Layout>
struct ring_adapter : ring_iface {
    typedef ll::pdu_ring_buffer<Size, ll::read_buffer, Layout> ring_t;
    ring_t ring;
    std::vector<ring_t> stack;
    explicit ring_adapter(std::uint8_t* base) : ring(base) {}
    ll::read_buffer alloc(std::uint8_t* base, std::size_t s) const { return ring.alloc_front(base, s); }
    void push(std::uint8_t* base, const ll::read_buffer& b) { ring.push_front(base, b); }
    ll::read_buffer next_end() const { return ring.next_end(); }
    void pop(std::uint8_t* base) { ring.pop_end(base); }
    bool more_than_one() const { return ring.more_than_one(); }
    void reset(std::uint8_t* base) { ring.reset(base); }
    void save() { stack.push_back(ring); }
    void load() { ring = stack.back(); }
    void drop() { stack.pop_back(); }
    void set_header(const ll::read_buffer& b, std::uint16_t v) const { Layout::header(b, v); }
    std::uint16_t get_header(const std::uint8_t* p) const { return Layout::header(p); }
    std::pair<std::uint8_t*, std::uint8_t*> body(const ll::read_buffer& b) const { return Layout::body(b); }
    std::size_t mem_size(std::size_t payload) const { return Layout::data_channel_pdu_memory_size(payload); }
};

struct op_rec { char kind; std::uint16_t a, b; };   // 'P' alloc+push(len=a, requested=b)  'F' failed alloc  'O' pop  'H' alloc only (held)  'C' commit the held allocation

struct world {
    const std::size_t Size, GAP;
    std::size_t mem(std::size_t payload) const { return 2 + GAP + payload; }      // independent expectation
    std::size_t max_payload() const { return std::min<std::size_t>(251, Size - 2 - GAP); }

    verif::exact_buffer store;
    ring_iface* ringp;
    std::vector<live_pdu> q;        // oldest first
    std::uint32_t next_id;
    std::vector<op_rec> hist;
    std::string cfg;
    bool bad;                       // a violation was reported on the current path
    // an allocation that is held by its owner (radio DMA / link layer assembling a PDU) while pops happen, then committed
    struct held { bool active; std::size_t off, req, len; unsigned pops; bool emptied; };
    held hold;

    world(std::size_t size, std::size_t gap, const char* layout_name) : Size(size), GAP(gap), store(size, 0xA5), ringp(nullptr), next_id(1), bad(false), hold() {
        cfg = std::string("ring<") + std::to_string(Size) + "," + layout_name + ">";
    }

    void restart() {
        std::memset(store.data(), 0x5A, Size);
        verif::ctx_step(++g_step); verif::ctx_op("reset");
        ringp->reset(store.data());
        q.clear(); hist.clear(); bad = false; hold.active = false;
    }

    std::string history() const {
        std::string s = cfg + " ops:";
        std::size_t from = hist.size() > 200 ? hist.size() - 200 : 0;
        if (from) s += " ...(" + std::to_string(from) + " earlier)";
        for (std::size_t i = from; i < hist.size(); ++i) {
            const op_rec& o = hist[i];
            if (o.kind == 'P') s += " push(len=" + std::to_string(o.a) + ",req=" + std::to_string(o.b) + ")";
            else if (o.kind == 'F') s += " push_failed(len=" + std::to_string(o.a) + ",req=" + std::to_string(o.b) + ")";
            else if (o.kind == 'H') s += " alloc_hold(len=" + std::to_string(o.a) + ",req=" + std::to_string(o.b) + ")";
            else if (o.kind == 'C') s += " commit_held";
            else s += " pop";
        }
        s += " | model:";
        for (const live_pdu& p : q) s += " [" + std::to_string(p.off) + "," + std::to_string(p.off + p.mem) + ")";
        return s;
    }

    void viol(const std::string& key, const std::string& what) {
        bad = true;
        const std::string full = std::string(PROP) + ":" + key;
        verif::monitor& m = mon(PROP);
        std::map<std::string, unsigned long long>::const_iterator it = m.viol_count.find(full);
        const bool printed = it != m.viol_count.end() && it->second >= 2;       // only the first two per key are printed
        verif::violation(PROP, full, printed ? std::string() : what + " | " + history(), g_step);
    }

    // ---- reference allocator -------------------------------------------------------------------------------
    // returns: 0 does not fit, 1 fits behind the newest PDU, 2 fits at the beginning (wrap), 3 fits in the split gap,
    // 4 ring empty and size <= Size - 1 (documented guarantee), 5 ring empty and size == Size (not specified)
    int ref_fit(std::size_t s) const {
        if (s > Size) return 0;
        if (q.empty()) return s <= Size - 1 ? 4 : 5;
        const std::size_t e = q.front().off;
        const std::size_t w = q.back().off + q.back().mem;
        const bool split = q.back().off < q.front().off;
        if (split) return s < e - w ? 3 : 0;
        if (s <= Size - w) return 1;
        if (s < e) return 2;
        return 0;
    }

    bool region_ok(const ll::read_buffer& b, const char* what) {
        std::uint8_t* const base = store.data();
        if (b.buffer < base || b.buffer + b.size > base + Size) {
            viol("alloc:outside_storage", std::string(what) + " returned a buffer outside the ring storage: offset " +
                 std::to_string(static_cast<long>(b.buffer - base)) + " size " + std::to_string(b.size));
            return false;
        }
        const std::size_t off = static_cast<std::size_t>(b.buffer - base);
        for (const live_pdu& p : q) {
            if (off < p.off + p.mem && p.off < off + b.size) {
                viol("alloc:overlaps_live_pdu", std::string(what) + " returned [" + std::to_string(off) + "," + std::to_string(off + b.size) +
                     ") overlapping live PDU [" + std::to_string(p.off) + "," + std::to_string(p.off + p.mem) + ")");
                return false;
            }
        }
        return true;
    }

    // compare alloc_front(s) with the reference; returns the buffer
    ll::read_buffer checked_alloc(std::size_t s, bool probe) {
        verif::monitor& M = mon(PROP);
        verif::ctx_step(++g_step);
        verif::ctx_op(probe ? "alloc_front probe" : "alloc_front");
        const ll::read_buffer b = ringp->alloc(store.data(), s);
        const ll::read_buffer b2 = ringp->alloc(store.data(), s);
        M.eval(2);
        if (b.buffer != b2.buffer || b.size != b2.size) viol("alloc:not_idempotent", "two identical alloc_front(" + std::to_string(s) + ") calls differ");
        const int fit = ref_fit(s);
        if (b.size != 0 && b.size != s) { viol("alloc:wrong_size", "alloc_front(" + std::to_string(s) + ") returned size " + std::to_string(b.size)); return b; }
        if (b.size == 0) {
            if (fit == 1 || fit == 2 || fit == 3)
                viol(std::string("alloc:fails_but_space_free:") + (fit == 1 ? "behind_newest" : fit == 2 ? "at_beginning" : "split_gap"),
                     "alloc_front(" + std::to_string(s) + ") failed although contiguous space is free under the ring's rules");
            else if (fit == 4)
                viol("alloc:fails_on_empty_ring", "alloc_front(" + std::to_string(s) + ") failed on an EMPTY ring of " + std::to_string(Size) +
                     " bytes (documented: an empty ring can store one element of at least Size - 1)");
        } else {
            if (fit == 0 && s <= Size) viol("alloc:succeeds_without_space", "alloc_front(" + std::to_string(s) + ") succeeded at offset " +
                     std::to_string(static_cast<long>(b.buffer - store.data())) + " although the reference allocator has no contiguous free space (one byte must stay free)");
            region_ok(b, "alloc_front");
        }
        return b;
    }

    // ---- observers ------------------------------------------------------------------------------------------
    bool pdu_bytes_ok(const live_pdu& p, std::string& why) const {
        const std::uint8_t* m = const_cast<verif::exact_buffer&>(store).data() + p.off;
        if (m[0] != p.hdr0 || m[1] != p.len) { why = "header"; return false; }
        if (GAP && m[2] != static_cast<std::uint8_t>(p.id * 7u + 3u)) { why = "gap byte"; return false; }
        for (std::size_t i = 0; i < p.len; ++i)
            if (m[2 + GAP + i] != body_byte(p.id, i)) { why = "payload byte " + std::to_string(i); return false; }
        return true;
    }

    void observe(bool probes) {
        verif::monitor& M = mon(PROP);
        verif::ctx_step(++g_step); verif::ctx_op("next_end/more_than_one");
        const ll::read_buffer ne = ringp->next_end();
        M.eval(2);
        if (q.empty()) {
            if (ne.size != 0) viol("next_end:not_empty", "next_end() returns size " + std::to_string(ne.size) + " but no PDU is stored");
        } else {
            const live_pdu& f = q.front();
            if (ne.size == 0) viol("next_end:empty_but_pdu_stored", "next_end() is empty but " + std::to_string(q.size()) + " PDUs are stored");
            else if (ne.buffer != store.data() + f.off) viol("next_end:wrong_pdu", "next_end() points to offset " + std::to_string(static_cast<long>(ne.buffer - store.data())) + " expected " + std::to_string(f.off));
            else if (ne.size != f.mem) viol("next_end:wrong_size", "next_end().size " + std::to_string(ne.size) + " expected " + std::to_string(f.mem));
        }
        if (ringp->more_than_one() != (q.size() > 1))
            viol("more_than_one", std::string("more_than_one() = ") + (ringp->more_than_one() ? "true" : "false") + " with " + std::to_string(q.size()) + " PDUs stored");
        for (const live_pdu& p : q) {
            std::string why; M.eval();
            if (!pdu_bytes_ok(p, why)) { viol("bytes_changed", "live PDU id " + std::to_string(p.id) + " at [" + std::to_string(p.off) + "," + std::to_string(p.off + p.mem) + ") changed: " + why); break; }
        }
        if (!probes || bad) return;
        // allocation probes at the reference allocator's boundaries
        std::size_t cand[10]; int n = 0;
        const std::size_t lo = mem(1);
        if (q.empty()) { cand[n++] = Size - 1; cand[n++] = Size / 2 + 2; cand[n++] = lo; cand[n++] = Size + 1; }
        else {
            const std::size_t e = q.front().off, w = q.back().off + q.back().mem;
            if (q.back().off < q.front().off) { cand[n++] = e - w; if (e - w > 0) cand[n++] = e - w - 1; cand[n++] = e - w + 1; }
            else { cand[n++] = Size - w; cand[n++] = Size - w + 1; cand[n++] = e; if (e > 0) cand[n++] = e - 1; cand[n++] = std::max(Size - w, e) + 1; }
            cand[n++] = lo;
        }
        for (int i = 0; i < n && !bad; ++i) {
            if (cand[i] < lo || cand[i] > Size + 1) continue;
            const int fit = ref_fit(cand[i]);
            checked_alloc(cand[i], true);
            M.cls(fit == 0 ? "probe_no_fit" : fit == 1 ? "probe_fit_behind_newest" : fit == 2 ? "probe_fit_at_beginning" : fit == 3 ? "probe_fit_split_gap" : fit == 4 ? "probe_fit_empty_ring" : "probe_empty_ring_full_size");
        }
    }

    // ---- operations -----------------------------------------------------------------------------------------
    // writes a PDU into an allocated buffer (through the Layout API, as the link layer does), checks the layout
    // against the independent expectation, pushes it and records it in the model
    bool fill_and_push(const ll::read_buffer& b, std::size_t len, std::uint8_t junk) {
        verif::monitor& M = mon(PROP);
        const std::size_t m = mem(len);
        const std::uint32_t id = next_id++;
        // the owner of an allocated buffer may write all of it (radio DMA): junk first, then the PDU
        std::memset(b.buffer, junk, b.size);
        const std::uint8_t hdr0 = static_cast<std::uint8_t>((1 + id % 3) | ((id * 5u) & 0x1c));
        verif::ctx_step(++g_step); verif::ctx_op("Layout::header/body + push_front");
        ringp->set_header(b, static_cast<std::uint16_t>(hdr0 | (len << 8)));
        const std::pair<std::uint8_t*, std::uint8_t*> body = ringp->body(b);
        M.eval(4);
        if (body.first != b.buffer + 2 + GAP) viol("layout:body_offset", "Layout::body().first at +" + std::to_string(static_cast<long>(body.first - b.buffer)) + " expected +" + std::to_string(2 + GAP));
        if (body.second != b.buffer + b.size) viol("layout:body_end", "Layout::body().second at +" + std::to_string(static_cast<long>(body.second - b.buffer)) + " expected +" + std::to_string(b.size));
        if (b.buffer[0] != hdr0 || b.buffer[1] != len) viol("layout:header_write", "Layout::header(pdu, v) did not store v little endian at bytes 0/1");
        if (ringp->get_header(static_cast<const std::uint8_t*>(b.buffer)) != static_cast<std::uint16_t>(hdr0 | (len << 8))) viol("layout:header_read", "Layout::header(pdu) does not read back the header");
        if (ringp->mem_size(len) != m) viol("layout:memory_size", "data_channel_pdu_memory_size(" + std::to_string(len) + ") = " + std::to_string(ringp->mem_size(len)) + " expected " + std::to_string(m));
        if (bad) return false;
        if (GAP) b.buffer[2] = static_cast<std::uint8_t>(id * 7u + 3u);
        for (std::size_t i = 0; i < len; ++i) b.buffer[2 + GAP + i] = body_byte(id, i);
        ringp->push(store.data(), b);
        live_pdu p = { static_cast<std::size_t>(b.buffer - store.data()), m, id, hdr0, static_cast<std::uint8_t>(len) };
        q.push_back(p);
        if (b.size > m) M.cls("push_shorter_than_allocated");
        if (p.off + m == Size) M.cls("push_ends_exactly_at_storage_end");
        if (p.off + m + 1 == Size) M.cls("push_leaves_one_byte_at_storage_end");
        return true;
    }

    // alloc_front + (unless hold_only) fill + push_front; returns true when the state changed
    bool push(std::size_t len, std::size_t req, std::uint8_t junk, bool hold_only = false) {
        verif::monitor& M = mon(PROP);
        if (hold_only && hold.active) return false;
        hold.active = false;             // a new allocation abandons an allocation that was never committed
        const std::size_t m = mem(len);
        if (req < m) req = m;
        const int fit = ref_fit(req);
        const bool was_empty = q.empty();
        const std::size_t qn = q.size();
        const ll::read_buffer b = checked_alloc(req, false);
        std::uint64_t h = verif::hstr(cfg);
        h = verif::mix(h, std::min<std::size_t>(qn, 4)); h = verif::mix(h, fit); h = verif::mix(h, b.size != 0); h = verif::mix(h, hold_only);
        h = verif::mix(h, len == 1 ? 0 : len == max_payload() ? 2 : 1); h = verif::mix(h, req == m);
        if (!q.empty()) { h = verif::mix(h, q.back().off < q.front().off); h = verif::mix(h, std::min<std::size_t>(q.front().off, 3)); h = verif::mix(h, std::min<std::size_t>(Size - (q.back().off + q.back().mem), 3)); }
        M.nontrivial(h);
        if (b.size == 0 || bad) {
            op_rec o = { 'F', static_cast<std::uint16_t>(len), static_cast<std::uint16_t>(req) }; hist.push_back(o);
            M.cls(fit == 0 ? "push_rejected_full" : "push_rejected_other");
            return false;
        }
        const std::size_t off = static_cast<std::size_t>(b.buffer - store.data());
        M.cls(was_empty ? (off == 0 ? "alloc_on_empty_at_start" : "alloc_on_empty_elsewhere") : fit == 1 ? "alloc_behind_newest" : fit == 2 ? "alloc_wrapped_to_beginning" : "alloc_in_split_gap");
        if (hold_only) {
            std::memset(b.buffer, junk, b.size);     // the owner starts writing right away
            held hd = { true, off, req, len, 0, false }; hold = hd;
            op_rec o = { 'H', static_cast<std::uint16_t>(len), static_cast<std::uint16_t>(req) }; hist.push_back(o);
            M.cls("alloc_held");
            return true;
        }
        op_rec o = { 'P', static_cast<std::uint16_t>(len), static_cast<std::uint16_t>(req) }; hist.push_back(o);
        return fill_and_push(b, len, junk);
    }

    bool commit_held(std::uint8_t junk) {
        verif::monitor& M = mon(PROP);
        if (!hold.active) return false;
        hold.active = false;
        const ll::read_buffer b = { store.data() + hold.off, hold.req };
        // the held region was free when it was allocated and pops only free memory: it must still be free
        if (!region_ok(b, "held allocation")) return false;
        op_rec o = { 'C', 0, 0 }; hist.push_back(o);
        M.cls(hold.emptied ? "commit_held_after_pop_to_empty" : hold.pops ? "commit_held_after_pop" : "commit_held_plain");
        std::uint64_t h = verif::hstr(cfg); h = verif::mix(h, 99); h = verif::mix(h, std::min<std::size_t>(q.size(), 4)); h = verif::mix(h, std::min(hold.pops, 3u)); h = verif::mix(h, hold.emptied); h = verif::mix(h, hold.off == 0);
        M.nontrivial(h);
        return fill_and_push(b, hold.len, junk);
    }

    bool pop() {
        verif::monitor& M = mon(PROP);
        if (q.empty()) return false;     // documented precondition: there is a PDU to free
        const bool wrap_next = q.size() > 1 && q[1].off < q[0].off;
        verif::ctx_step(++g_step); verif::ctx_op("pop_end");
        ringp->pop(store.data());
        M.eval();
        q.erase(q.begin());
        if (hold.active) { ++hold.pops; if (q.empty()) hold.emptied = true; }
        op_rec o = { 'O', 0, 0 }; hist.push_back(o);
        M.cls(q.empty() ? "pop_to_empty" : wrap_next ? "pop_then_wrap" : "pop_plain");
        std::uint64_t h = verif::hstr(cfg); h = verif::mix(h, 77); h = verif::mix(h, std::min<std::size_t>(q.size(), 4)); h = verif::mix(h, wrap_next);
        M.nontrivial(h);
        return true;
    }

    // ---- exhaustive DFS ---------------------------------------------------------------------------------------
    struct snap { std::vector<std::uint8_t> bytes; std::vector<live_pdu> q; std::uint32_t next_id; std::size_t hist; held hold; };
    std::vector<snap> snaps;
    void save(snap& s) { ringp->save(); s.bytes.assign(store.data(), store.data() + Size); s.q = q; s.next_id = next_id; s.hist = hist.size(); s.hold = hold; }
    void load(const snap& s) { ringp->load(); std::memcpy(store.data(), s.bytes.data(), Size); q = s.q; next_id = s.next_id; hist.resize(s.hist); bad = false; hold = s.hold; }

    // operation alphabet: 4 payload size classes requested exactly, 2 of them requested with the maximum PDU size
    // (allocate max, commit less: the way ll_data_pdu_buffer uses the ring), pop, allocate-only (2 variants) and commit of
    // the held allocation (so that pops happen between allocation and commit, as between radio ISR and link layer)
    enum { NOPS = 10 };
    std::size_t class_len(int c) const {
        const std::size_t mp = max_payload();
        switch (c) { case 0: return 1; case 1: return std::max<std::size_t>(1, mp / 4); case 2: return std::max<std::size_t>(1, mp / 2); default: return mp; }
    }
    std::size_t max_request() const { return std::min<std::size_t>(Size, mem(std::min<std::size_t>(251, Size > 60 ? 27 : max_payload()))); }

    bool apply(int op, unsigned salt) {
        const std::uint8_t junk = (salt & 1) ? 0x00 : 0xEE;
        if (op < 4) return push(class_len(op), 0, junk);
        if (op == 4) return push(class_len(0), max_request(), junk);
        if (op == 5) return push(class_len(1), max_request(), junk);
        if (op == 6) return pop();
        if (op == 7) return push(class_len(1), max_request(), junk, true);     // allocate only, keep the buffer (radio / link layer owns it)
        if (op == 8) return push(class_len(2), 0, junk, true);
        return commit_held(junk);
    }

    void dfs(int depth, unsigned long long& nodes, unsigned long long& leaves) {
        if (depth == 0) { ++leaves; return; }
        if (snaps.size() <= static_cast<std::size_t>(depth)) snaps.resize(depth + 1);
        snap& s = snaps[depth]; save(s);
        for (int op = 0; op < NOPS; ++op) {
            const bool changed = apply(op, static_cast<unsigned>(depth + op));
            ++nodes;
            if (changed && !bad) { observe(true); if (!bad) dfs(depth - 1, nodes, leaves); else ++leaves; }
            else ++leaves;      // rejected push / pop on empty / diverged: same state as the parent, not followed
            load(s);
        }
        ringp->drop();
    }

    void run_exhaustive(int depth) {
        // iterative deepening: the first witness of a violation is a shortest one
        unsigned long long nodes = 0, leaves = 0;
        for (int d = 1; d <= depth; ++d) {
            restart();
            observe(true);
            nodes = 0; leaves = 0;
            dfs(d, nodes, leaves);
        }
        mon(PROP).count("exhaustive_nodes", nodes);
        mon(PROP).count("exhaustive_sequences", leaves);
        mon(PROP).sample_json("{\"config\":\"" + cfg + "\",\"exhaustive_depth\":" + std::to_string(depth) + ",\"nodes\":" + std::to_string(nodes) +
                              ",\"alphabet\":\"push(len in {1," + std::to_string(class_len(1)) + "," + std::to_string(class_len(2)) + "," + std::to_string(class_len(3)) +
                              "} exact), push(len {1," + std::to_string(class_len(1)) + "} requesting " + std::to_string(max_request()) + " bytes), pop, alloc-only x2, commit-held\"}");
    }

    // ---- random histories ---------------------------------------------------------------------------------------
    void run_random(verif::prng& r, unsigned long long ops) {
        restart();
        const std::size_t mp = max_payload();
        unsigned since = 0;
        // a few regimes: mostly small PDUs, mostly large, mixed; fill level is steered by the push/pop ratio
        for (unsigned long long i = 0; i < ops; ++i) {
            if (bad || since > 400) { restart(); since = 0; }
            ++since;
            const unsigned regime = static_cast<unsigned>((i / 257) % 4);
            const bool do_push = r.chance(regime == 3 ? 2 : 3, 5);
            if (do_push) {
                std::size_t len;
                switch (r.below(8)) {
                case 0: len = 1; break;
                case 1: len = mp; break;
                case 2: len = mp > 1 ? mp - 1 : 1; break;
                case 3: len = std::min<std::size_t>(mp, 27); break;
                default: len = regime == 1 ? static_cast<std::size_t>(r.range(static_cast<int>(mp / 2 + 1), static_cast<int>(mp)))
                             : regime == 0 ? static_cast<std::size_t>(r.range(1, static_cast<int>(std::max<std::size_t>(1, mp / 4))))
                             : static_cast<std::size_t>(r.range(1, static_cast<int>(mp)));
                }
                std::size_t req = 0;
                if (r.chance(1, 3)) req = std::min<std::size_t>(Size, mem(len) + r.below(40));
                else if (r.chance(1, 4)) req = max_request();
                // make the boundary cases frequent: request exactly what the reference says is the limit
                if (!q.empty() && r.chance(1, 6)) {
                    const std::size_t e = q.front().off, w = q.back().off + q.back().mem;
                    std::size_t lim = (q.back().off < q.front().off) ? (e - w) : (r.chance(1, 2) ? Size - w : e);
                    lim = lim + r.below(3);
                    if (lim >= 1 && lim - 1 >= mem(1) && lim - 1 <= mem(mp)) { req = lim - 1; len = std::min<std::size_t>(len, req - 2 - GAP); if (r.chance(1, 2)) len = req - 2 - GAP; }
                }
                if (hold.active && r.chance(3, 4)) commit_held(r.byte());
                else push(len, req, r.byte(), r.chance(1, 4));
            } else pop();
            if (!bad) observe((i & 3) == 0);
        }
    }
};

template <std::size_t Size, class Layout>
static void run_config(int depth, unsigned long long ops, verif::prng& r) {
    world* w = new world(Size, layout_info<Layout>::gap, layout_info<Layout>::name());
    ring_adapter<Size, Layout> adapter(w->store.data());
    w->ringp = &adapter;
    verif::ctx_config(w->cfg);
    if (depth > 0) w->run_exhaustive(depth);
    if (ops > 0) w->run_random(r, ops);
    mon(PROP).count("configurations", 1);
    delete w;
}

typedef ll::default_pdu_layout D;
typedef bluetoe::nrf_details::encrypted_pdu_layout E;

int main(int argc, char** argv) {
    verif::args a(argc, argv);
    verif::install_crash_handler();
    verif::ctx_prop(PROP);
    const unsigned long long seed = a.num("seed", 1);
    verif::prng r(seed);
    const int depth = static_cast<int>(a.num("depth", 6));
    const unsigned long long ops = a.num("ops", 100000);
    const std::string only = a.str("config", "all");
    verif::run_config() = "ring config=" + only + " depth=" + std::to_string(depth) + " ops=" + std::to_string(ops) + " seed=" + std::to_string(seed);

#define CFG(N, SZ, L) if (only == "all" || only == #N) run_config<SZ, L>(depth, ops, r);
    CFG(0, 12, D)  CFG(1, 27, D)  CFG(2, 29, D)  CFG(3, 50, D)  CFG(4, 61, D)  CFG(5, 100, D)  CFG(6, 255, D)  CFG(7, 300, D)
    CFG(8, 13, E)  CFG(9, 30, E)  CFG(10, 31, E) CFG(11, 50, E) CFG(12, 61, E) CFG(13, 100, E) CFG(14, 256, E) CFG(15, 300, E)
#undef CFG
    mon(PROP).exhaustive = false;   // exhaustive only up to the stated depth (see counters), random beyond
    verif::finish();
    return 0;
}
