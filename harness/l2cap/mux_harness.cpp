// C31: details::l2cap<> (channel multiplexer) with recording mock channels, and the signaling_channel
// automaton, stand-alone and behind the multiplexer.
//
// Multiplexer oracle (frame predicate, Core Vol 3 Part A 3.1: Length = size of the information payload,
// CID = destination channel): a frame is handed to a channel iff it has a complete header, its length field
// equals the number of payload octets and its CID is the channel_id of a configured channel - then to exactly
// that channel, once, with exactly the payload.  A committed reply is the allocated buffer, carries the CID of
// the request and the length of what the channel produced and is not larger than what was allocated; nothing is
// committed for other frames.  Unsolicited output (transmit_pending_l2cap_output) carries the CID of the channel
// that produced it, nothing a channel produced is lost or duplicated.
//
// Signaling oracle (Vol 3 Part A 4, 4.1, 4.20-4.21): reference automaton idle -> queued -> transmitted(id) ->
// idle.  The state of the real channel is observed on a *copy* of the object (a copy that accepts a new
// request is idle, a copy that emits a request is queued), so observation never disturbs the object.
#include <bluetoe/l2cap.hpp>
#include <bluetoe/l2cap_signaling_channel.hpp>
#include "common/verif.hpp"

#include <deque>
#include <memory>
#include <algorithm>

using verif::mon;
typedef std::vector<std::uint8_t> bytes;

static std::string g_cfg;
static unsigned long long g_case = 0;

// rolling history of the case (cheap: one append per operation)
static std::string g_hist_text;
static std::vector<std::size_t> g_hist_marks;    // start offsets of the last operations (for pop)
static std::string hist_tail(std::size_t max_chars) {
    if (g_hist_text.size() <= max_chars) return g_hist_text;
    std::size_t cut = g_hist_text.size() - max_chars;
    const std::size_t sp = g_hist_text.find(' ', cut);
    if (sp != std::string::npos) cut = sp + 1;
    return "... " + g_hist_text.substr(cut);
}
static void hist_clear() { g_hist_text.clear(); g_hist_marks.clear(); }
static void hist_pop() {
    if (g_hist_marks.empty()) return;
    g_hist_text.erase(g_hist_marks.back()); g_hist_marks.pop_back();
}
static void note(const std::string& op) {
    if (g_hist_text.size() > 6000) { g_hist_text.erase(0, g_hist_text.size() - 2000); g_hist_marks.clear(); }
    g_hist_marks.push_back(g_hist_text.size());
    if (g_hist_marks.size() > 64) g_hist_marks.erase(g_hist_marks.begin(), g_hist_marks.begin() + 32);
    if (!g_hist_text.empty()) g_hist_text += ' ';
    g_hist_text += op;
}
// crash context: first word = the call into the code under test that is executing (stable, becomes part of
// the crash key), then the tail of the history
static void api(const char* call) {
    static char buf[400];
    const std::size_t n = g_hist_text.size();
    std::snprintf(buf, sizeof buf, "%s after: %s", call, g_hist_text.c_str() + (n > 330 ? n - 330 : 0));
    verif::ctx_op(buf);
}
static void viol(const std::string& key, const std::string& what) {
    verif::violation("C31", key, g_cfg + " case=" + std::to_string(g_case) + " " + what + " | history: " + hist_tail(1200), g_case);
}

// =================================================================================================
// signaling automaton
// =================================================================================================
typedef bluetoe::l2cap::signaling_channel<> sig_channel;
struct no_connection {};

enum sig_state { st_idle, st_queued, st_transmitted };
static const char* st_name(sig_state s) { return s == st_idle ? "idle" : s == st_queued ? "queued" : "transmitted"; }

// observation on a copy
static sig_state observe(const sig_channel& c) {
    {
        sig_channel copy = c;
        if (copy.connection_parameter_update_request(6, 6, 0, 100)) return st_idle;
    }
    sig_channel copy = c;
    verif::exact_buffer out(23);
    std::size_t n = 23; no_connection nc;
    copy.l2cap_output(out.data(), n, nc);
    return n != 0 ? st_queued : st_transmitted;
}

static bool is_response_code(unsigned code) {
    switch (code) { case 0x01: case 0x03: case 0x05: case 0x07: case 0x09: case 0x0B: case 0x0D: case 0x0F: case 0x11: case 0x13: case 0x15: case 0x18: case 0x1A: return true; }
    return false;
}

struct sig_model {
    sig_state st = st_idle;
    std::uint16_t p[4] = { 0, 0, 0, 0 };
    unsigned id = 0;                 // identifier of the outstanding request
    unsigned last_completed = 0;     // identifier of the last completed request, 0: none
    unsigned long completed = 0;
    bool wrapped = false;
    bool lost = false;               // model and object diverged: the rest of the case is not judged

    void diverged(const std::string& key, const std::string& what) { viol(key, what); lost = true; }

    // --- queue a request
    void request(bool accepted, const std::uint16_t q[4], sig_state after) {
        mon("C31").eval();
        if (accepted && st != st_idle) { diverged("C31:sig:request_queued_while_another_is_pending", std::string("connection_parameter_update_request() returned true in state ") + st_name(st)); return; }
        if (accepted) { st = st_queued; for (int i = 0; i < 4; ++i) p[i] = q[i]; mon("C31").cls("sig_request_queued"); }
        else mon("C31").cls(st == st_idle ? "sig_request_refused_idle" : "sig_request_refused_pending");
        if (after != st) diverged(std::string("C31:sig:state_after_queue:expected_") + st_name(st) + "_observed_" + st_name(after), "after connection_parameter_update_request()");
    }

    // --- l2cap_output
    void output(const bytes& o, sig_state after) {
        verif::monitor& M = mon("C31");
        M.eval();
        if (st != st_queued) {
            if (!o.empty()) { diverged(st == st_transmitted ? "C31:sig:request_emitted_again" : "C31:sig:output_without_queued_request", "l2cap_output produced " + verif::hex(o) + " in state " + st_name(st)); return; }
            M.cls("sig_output_nothing_pending");
        } else {
            if (o.empty()) { diverged("C31:sig:queued_request_not_emitted", "l2cap_output produced nothing although a request is queued"); return; }
            bool ok = o.size() == 12 && o[0] == 0x12 && o[2] == 8 && o[3] == 0;
            for (int i = 0; ok && i < 4; ++i) ok = o[4 + 2 * i] == (p[i] & 0xff) && o[5 + 2 * i] == (p[i] >> 8);
            if (!ok) { diverged("C31:sig:request_malformed", "emitted " + verif::hex(o) + " for parameters " + std::to_string(p[0]) + "," + std::to_string(p[1]) + "," + std::to_string(p[2]) + "," + std::to_string(p[3])); return; }
            if (o[1] == 0) { diverged("C31:sig:identifier_zero", "request emitted with identifier 0 after " + std::to_string(completed) + " completed requests: " + verif::hex(o)); return; }
            if (last_completed != 0 && o[1] == last_completed) { diverged("C31:sig:identifier_not_advanced", "request reuses identifier " + std::to_string(last_completed) + " of the request completed just before"); return; }
            if (last_completed == 255) { wrapped = true; M.cls("sig_identifier_wrapped_255"); }
            id = o[1]; st = st_transmitted;
            M.cls("sig_request_emitted");
            std::uint64_t h = verif::mix(verif::hstr("emit"), id);
            M.nontrivial(h);
        }
        if (after != st) diverged(std::string("C31:sig:state_after_output:expected_") + st_name(st) + "_observed_" + st_name(after), "after l2cap_output()");
    }

    // a well formed Command Reject echoing the identifier of `in`
    static bool is_reject_for(const bytes& in, const bytes& r) {
        if (in.size() < 2 || in[1] == 0) return false;
        if (r.size() < 6 || r.size() > 23) return false;
        if (r[0] != 0x01 || r[1] != in[1]) return false;
        if (static_cast<std::size_t>(r[2] | (r[3] << 8)) != r.size() - 4) return false;
        const unsigned reason = r[4] | (r[5] << 8);
        return reason <= 2;
    }

    // --- l2cap_input
    void input(const bytes& in, const bytes& reply, sig_state after) {
        verif::monitor& M = mon("C31");
        M.eval();
        const unsigned code = in.empty() ? 0x100 : in[0];
        const bool has_id = in.size() >= 2;
        const bool wellformed = in.size() >= 4 && static_cast<std::size_t>(in[2] | (in[3] << 8)) == in.size() - 4;
        std::uint64_t h = verif::mix(verif::hstr("in"), st);
        h = verif::mix(h, code == 0x13 ? 1 : (is_response_code(code) ? 2 : (code == 0x12 ? 3 : 4)));
        h = verif::mix(h, !has_id ? 0 : (in[1] == 0 ? 1 : (st == st_transmitted && in[1] == id ? 2 : 3)));
        h = verif::mix(h, in.size() < 4 ? in.size() : (wellformed ? 4 : 5));
        h = verif::mix(h, reply.empty() ? 0 : 1); h = verif::mix(h, after);

        if (reply.size() > 23) { diverged("C31:sig:reply_larger_than_signaling_mtu", std::to_string(reply.size()) + " octets in reply to " + verif::hex(in)); return; }

        // the one input that changes the state: the response to the outstanding request
        if (code == 0x13 && st == st_transmitted && has_id && in[1] == id) {
            const bool proper = in.size() == 6 && wellformed;
            if (proper) {
                M.cls("sig_matching_response");
                if (after != st_idle) { diverged("C31:sig:matching_response_ignored", "response " + verif::hex(in) + " to request " + std::to_string(id) + " left the channel " + st_name(after)); return; }
                last_completed = id; ++completed; st = st_idle;
                M.nontrivial(h);
                return;
            }
            // right identifier, wrong length: the statement does not decide; follow the object
            M.cls("sig_response_right_identifier_wrong_length");
            if (after == st_idle) { last_completed = id; ++completed; st = st_idle; }
            else if (after != st) diverged(std::string("C31:sig:state_after_input:expected_") + st_name(st) + "_observed_" + st_name(after), "input " + verif::hex(in));
            M.nontrivial(h);
            return;
        }

        // everything else must leave the state alone
        if (after != st) {
            if (code == 0x13 && st == st_transmitted && after == st_idle)
                diverged(std::string("C31:sig:response_accepted:") + (has_id ? "identifier_mismatch" : "no_identifier"),
                         "outstanding request has identifier " + std::to_string(id) + ", input " + verif::hex(in) + " completed it");
            else
                diverged(std::string("C31:sig:state_after_input:expected_") + st_name(st) + "_observed_" + st_name(after), "input " + verif::hex(in));
            return;
        }

        if (!has_id || in[1] == 0) {
            M.cls(!has_id ? "sig_command_without_identifier" : "sig_command_identifier_zero");
            if (!reply.empty()) { diverged(has_id ? "C31:sig:reply_to_identifier_zero" : "C31:sig:reply_to_command_without_identifier", "input " + verif::hex(in) + " answered with " + verif::hex(reply)); return; }
        } else if (is_response_code(code) || !wellformed) {
            // responses that match nothing (Vol 3 Part A 4: silently discarded; 4.1: should not be rejected) and
            // malformed commands: silence or a Command Reject are both accepted
            M.cls(code == 0x13 ? (st == st_transmitted ? "sig_response_identifier_mismatch" : "sig_response_without_request")
                               : (is_response_code(code) ? "sig_other_response_code" : "sig_command_malformed_length"));
            if (!reply.empty() && !is_reject_for(in, reply)) { diverged("C31:sig:reply_is_not_command_reject", "input " + verif::hex(in) + " answered with " + verif::hex(reply)); return; }
        } else {
            M.cls(code == 0x12 ? "sig_connection_parameter_update_request_received" : "sig_other_command");
            if (reply.empty()) { diverged("C31:sig:command_not_rejected", "command " + verif::hex(in) + " got no answer"); return; }
            if (!is_reject_for(in, reply)) { diverged("C31:sig:reply_is_not_command_reject", "command " + verif::hex(in) + " answered with " + verif::hex(reply)); return; }
        }
        M.nontrivial(h);
    }
};

// generator of signaling commands
struct sig_gen {
    verif::prng& r;
    explicit sig_gen(verif::prng& rr) : r(rr) {}
    bytes command(const sig_model& m) {
        unsigned code;
        switch (r.below(8)) {
        case 0: case 1: case 2: code = 0x13; break;
        case 3: code = 0x12; break;
        case 4: code = r.below(0x21); break;
        case 5: code = 0x01; break;
        default: code = r.byte(); break;
        }
        unsigned ident;
        switch (r.below(8)) {
        case 0: ident = 0; break;
        case 1: case 2: case 3: ident = m.id; break;                           // outstanding (or last) identifier
        case 4: ident = (m.id + 1) & 0xff; break;
        case 5: ident = (m.id + 255) & 0xff; break;
        default: ident = r.byte(); break;
        }
        std::size_t data;
        switch (r.below(6)) { case 0: data = 0; break; case 1: case 2: data = 2; break; case 3: data = 8; break; default: data = r.below(20); }
        std::size_t len_field = data;
        switch (r.below(10)) { case 0: len_field = data + 1; break; case 1: len_field = data ? data - 1 : 1; break; case 2: len_field = 0xffff; break; case 3: len_field = 0; break; default: break; }
        bytes b(4 + data);
        b[0] = static_cast<std::uint8_t>(code); b[1] = static_cast<std::uint8_t>(ident);
        b[2] = static_cast<std::uint8_t>(len_field); b[3] = static_cast<std::uint8_t>(len_field >> 8);
        for (std::size_t i = 0; i < data; ++i) b[4 + i] = r.byte();
        if (r.chance(1, 8)) b.resize(r.below(4));                              // truncated header
        return b;
    }
    bytes matching_response(const sig_model& m) {
        bytes b(6); b[0] = 0x13; b[1] = static_cast<std::uint8_t>(m.id); b[2] = 2; b[3] = 0; b[4] = r.chance(1, 2) ? 0 : 1; b[5] = 0;
        return b;
    }
};

// ---- stand-alone signaling channel -------------------------------------------------------------
static void sig_unit_case(std::uint64_t seed, unsigned ops, bool wrap_run) {
    g_cfg = wrap_run ? "signaling_channel<> stand-alone, identifier wrap run" : "signaling_channel<> stand-alone";
    verif::ctx_config(g_cfg);
    verif::prng r(seed);
    sig_channel ch;
    sig_model m;
    sig_gen g(r);
    no_connection nc;
    for (unsigned i = 0; i < ops && !m.lost; ++i) {
        unsigned c = r.below(100);
        if (wrap_run) {
            // mostly drive the happy cycle so that 255 requests complete, with noise in between
            if (c < 85) c = m.st == st_idle ? 0 : (m.st == st_queued ? 30 : 95);
            else c = 60;
        }
        if (c < 25) {
            std::uint16_t q[4] = { static_cast<std::uint16_t>(r.next()), static_cast<std::uint16_t>(r.next()), static_cast<std::uint16_t>(r.next()), static_cast<std::uint16_t>(r.next()) };
            note("req");
            api("signaling.connection_parameter_update_request");
            const bool ok = ch.connection_parameter_update_request(q[0], q[1], q[2], q[3]);
            m.request(ok, q, observe(ch));
        } else if (c < 50) {
            const std::size_t cap = r.chance(1, 3) ? 12 + r.below(60) : 23;
            verif::exact_buffer out(cap);
            std::size_t n = cap;
            note("out");
            api("signaling.l2cap_output");
            ch.l2cap_output(out.data(), n, nc);
            if (n > cap) { viol("C31:sig:output_larger_than_buffer", std::to_string(n) + " > " + std::to_string(cap)); return; }
            m.output(bytes(out.data(), out.data() + n), observe(ch));
        } else {
            const bytes in = (c >= 90 && m.st == st_transmitted) ? g.matching_response(m) : g.command(m);
            verif::exact_buffer inb(in.data(), in.size());
            verif::exact_buffer out(23);
            std::size_t n = 23;
            note("in:" + verif::hex(in));
            api("signaling.l2cap_input");
            ch.l2cap_input(inb.data(), in.size(), out.data(), n, nc);
            if (n > 23) { viol("C31:sig:reply_larger_than_buffer", std::to_string(n) + " > 23 for input " + verif::hex(in)); return; }
            m.input(in, bytes(out.data(), out.data() + n), observe(ch));
        }
    }
    verif::monitor& M = mon("C31");
    M.count("sig_requests_completed", m.completed);
    if (m.wrapped) M.count("sig_identifier_wraps");
    if (M.samples.size() < 2 && m.completed > 2) M.sample_json("{\"signaling\":\"" + verif::jesc(hist_tail(260)) + "\",\"completed_requests\":" + std::to_string(m.completed) + "}");
}

// =================================================================================================
// multiplexer
// =================================================================================================
struct input_record { std::uint16_t cid; bytes payload; std::size_t capacity; const std::uint8_t* out; };
struct output_record { std::uint16_t cid; std::size_t capacity; bytes produced; const std::uint8_t* out; };

struct recorder {
    std::vector<input_record> inputs;
    std::vector<output_record> outputs;         // every l2cap_output call
    bytes reply;                                // what the addressed channel wrote
    std::size_t reply_len = 0;                  // what a mock channel shall answer (clipped to the capacity)
    std::map<std::uint16_t, std::deque<bytes> > pending;   // unsolicited output per mock channel
    // the buffer currently allocated by the link layer mock
    const std::uint8_t* buf = nullptr; std::size_t buf_size = 0;
    verif::prng* r = nullptr;
    void clear_call() { inputs.clear(); outputs.clear(); reply.clear(); }
    // room that really is behind `out`
    std::size_t room(const std::uint8_t* out) const { return (buf && out >= buf && out <= buf + buf_size) ? static_cast<std::size_t>(buf + buf_size - out) : 0; }
};
static recorder g_rec;

template <std::uint16_t CID, std::size_t MinMtu, std::size_t MaxMtu>
struct mock_channel {
    static constexpr std::uint16_t channel_id = CID;
    static constexpr std::size_t minimum_channel_mtu_size = MinMtu;
    static constexpr std::size_t maximum_channel_mtu_size = MaxMtu;
    template <class PreviousData> using channel_data_t = PreviousData;

    template <class ConnectionData>
    void l2cap_input(const std::uint8_t* input, std::size_t in_size, std::uint8_t* output, std::size_t& out_size, ConnectionData&) {
        g_rec.inputs.push_back(input_record{ CID, bytes(input, input + in_size), out_size, output });
        const std::size_t room = g_rec.room(output);
        if (out_size > room) viol("C31:mux:channel_told_more_room_than_allocated", "channel " + std::to_string(CID) + " was offered " + std::to_string(out_size) + " octets, the allocated buffer has " + std::to_string(room) + " behind the pointer");
        std::size_t n = std::min(std::min(g_rec.reply_len, out_size), room);
        g_rec.reply.resize(n);
        for (std::size_t i = 0; i < n; ++i) { g_rec.reply[i] = g_rec.r->byte(); output[i] = g_rec.reply[i]; }
        out_size = n;
    }
    template <class ConnectionData>
    void l2cap_output(std::uint8_t* output, std::size_t& out_size, ConnectionData&) {
        output_record rec{ CID, out_size, bytes(), output };
        const std::size_t room = g_rec.room(output);
        if (out_size > room) viol("C31:mux:channel_told_more_room_than_allocated", "channel " + std::to_string(CID) + " was offered " + std::to_string(out_size) + " octets for output, the allocated buffer has " + std::to_string(room));
        std::deque<bytes>& q = g_rec.pending[CID];
        if (!q.empty()) {
            bytes b = q.front(); q.pop_front();
            if (b.size() > std::min(out_size, room)) b.resize(std::min(out_size, room));
            std::copy(b.begin(), b.end(), output);
            rec.produced = b; out_size = b.size();
        } else out_size = 0;
        g_rec.outputs.push_back(rec);
    }
};

// the real signaling channel with a recording shell around it
struct rec_signaling : sig_channel {
    template <class ConnectionData>
    void l2cap_input(const std::uint8_t* input, std::size_t in_size, std::uint8_t* output, std::size_t& out_size, ConnectionData& c) {
        g_rec.inputs.push_back(input_record{ channel_id, bytes(input, input + in_size), out_size, output });
        const std::size_t cap = out_size;
        sig_channel::l2cap_input(input, in_size, output, out_size, c);
        g_rec.reply.assign(output, output + std::min(out_size, std::min(cap, g_rec.room(output))));
    }
    template <class ConnectionData>
    void l2cap_output(std::uint8_t* output, std::size_t& out_size, ConnectionData& c) {
        output_record rec{ channel_id, out_size, bytes(), output };
        const std::size_t cap = out_size;
        sig_channel::l2cap_output(output, out_size, c);
        rec.produced.assign(output, output + std::min(out_size, std::min(cap, g_rec.room(output))));
        g_rec.outputs.push_back(rec);
    }
};

struct base_data { int unused = 0; };
struct commit_rec { std::size_t size; bool same_buffer; bytes data; std::size_t allocated; };

template <class... Channels>
struct mock_ll : bluetoe::details::l2cap<mock_ll<Channels...>, base_data, Channels...> {
    typedef bluetoe::details::l2cap<mock_ll<Channels...>, base_data, Channels...> l2cap_t;
    std::unique_ptr<verif::exact_buffer> buf;
    unsigned buffers = 0;                // how many allocations may still be committed
    std::size_t extra = 0;               // octets handed out on top of what link_layer.hpp hands out
    std::size_t requested = 0;
    unsigned long alloc_calls = 0;
    std::vector<commit_rec> commits;
    typename l2cap_t::connection_data_t connection;

    // like link_layer::allocate_l2cap_output_buffer: room for `size` payload octets and the L2CAP header
    std::pair<std::size_t, std::uint8_t*> allocate_l2cap_output_buffer(std::size_t size) {
        ++alloc_calls; requested = size;
        if (buffers == 0) return std::pair<std::size_t, std::uint8_t*>(0, nullptr);
        const std::size_t n = size + 4 + extra;
        buf.reset(new verif::exact_buffer(n));
        g_rec.buf = buf->data(); g_rec.buf_size = n;
        return std::pair<std::size_t, std::uint8_t*>(n, buf->data());
    }
    void commit_l2cap_output_buffer(std::pair<std::size_t, std::uint8_t*> b) {
        const bool same = buf && b.second == buf->data();
        const std::size_t n = same ? std::min(b.first, g_rec.buf_size) : 0;
        commits.push_back(commit_rec{ b.first, same, same ? bytes(b.second, b.second + n) : bytes(), g_rec.buf_size });
        if (buffers) --buffers;
        // the buffer now belongs to the link layer: a later allocation is a new one
    }
};

template <class LL>
struct mux_episode {
    LL ll;
    verif::prng r;
    std::set<std::uint16_t> known;          // configured channel ids
    bool has_sig;
    sig_model sm;
    sig_gen sg;

    mux_episode(std::uint64_t seed, const std::vector<std::uint16_t>& cids, bool sig) : r(seed), known(cids.begin(), cids.end()), has_sig(sig), sg(r) {
        g_rec = recorder(); g_rec.r = &r;
    }
    // the signaling base of the multiplexer, if it has one
    static rec_signaling* sig_ptr(rec_signaling* p) { return p; }
    static rec_signaling* sig_ptr(void*) { return nullptr; }
    rec_signaling& sig_mut() { return *sig_ptr(&ll); }
    const sig_channel& sig() { return *sig_ptr(&ll); }

    std::uint16_t pick_cid() {
        static const std::uint16_t odd[] = { 0, 1, 2, 3, 7, 0x0040, 0xffff, 0x0104, 0x0400, 0x0500, 0x0600, 0x0405, 0x8004 };
        switch (r.below(8)) {
        case 0: case 1: return 4;
        case 2: case 3: return 5;
        case 4: return 6;
        case 5: return static_cast<std::uint16_t>(r.next());
        default: return odd[r.below(sizeof(odd) / sizeof(odd[0]))];
        }
    }

    // checks shared by both directions for one committed frame
    bool check_commit(const commit_rec& c, std::uint16_t cid, const bytes& produced, const char* what) {
        if (!c.same_buffer) { viol("C31:mux:commit_of_foreign_buffer", std::string(what) + ": committed pointer is not the allocated buffer"); return false; }
        if (c.size > c.allocated) { viol("C31:mux:reply_larger_than_allocated_buffer", std::string(what) + ": committed " + std::to_string(c.size) + " octets, allocated " + std::to_string(c.allocated)); return false; }
        if (c.size < 4) { viol("C31:mux:committed_frame_without_header", std::string(what) + ": committed " + std::to_string(c.size) + " octets"); return false; }
        const std::size_t len = c.data[0] | (c.data[1] << 8);
        const std::uint16_t ccid = static_cast<std::uint16_t>(c.data[2] | (c.data[3] << 8));
        if (len + 4 != c.size || len != produced.size()) { viol("C31:mux:reply_length_field_wrong", std::string(what) + ": length field " + std::to_string(len) + ", committed " + std::to_string(c.size) + " octets, channel produced " + std::to_string(produced.size())); return false; }
        if (ccid != cid) { viol("C31:mux:reply_on_other_cid", std::string(what) + ": frame for channel " + std::to_string(cid) + " carries CID " + std::to_string(ccid)); return false; }
        if (!std::equal(produced.begin(), produced.end(), c.data.begin() + 4)) { viol("C31:mux:reply_payload_altered", std::string(what) + ": committed " + verif::hex(c.data) + " channel produced " + verif::hex(produced)); return false; }
        return true;
    }

    void one_input() {
        verif::monitor& M = mon("C31");
        const std::size_t max_mtu = LL::maximum_mtu_size;
        const std::uint16_t cid = pick_cid();
        const bool to_sig = has_sig && cid == 5 && r.chance(7, 8);
        bytes payload;
        if (to_sig) payload = (r.chance(1, 4) && sm.st == st_transmitted) ? sg.matching_response(sm) : sg.command(sm);
        else {
            std::size_t n;
            switch (r.below(7)) { case 0: n = 0; break; case 1: n = 1; break; case 2: n = max_mtu; break; case 3: n = max_mtu + 1; break; case 4: n = 23; break; default: n = r.below(static_cast<std::uint32_t>(max_mtu + 1)); }
            payload.resize(n); for (std::size_t i = 0; i < n; ++i) payload[i] = r.byte();
        }
        std::size_t len_field = payload.size();
        int len_class = 0;
        switch (r.below(12)) {
        case 0: len_field = payload.size() + 1; len_class = 1; break;
        case 1: len_field = payload.size() ? payload.size() - 1 : 1; len_class = 2; break;
        case 2: len_field = 0; len_class = payload.empty() ? 0 : 3; break;
        case 3: len_field = 0xffff; len_class = 4; break;
        case 4: len_field = payload.size() + 256; len_class = 5; break;       // equal modulo 256
        default: break;
        }
        bytes frame(4 + payload.size());
        frame[0] = static_cast<std::uint8_t>(len_field); frame[1] = static_cast<std::uint8_t>(len_field >> 8);
        frame[2] = static_cast<std::uint8_t>(cid); frame[3] = static_cast<std::uint8_t>(cid >> 8);
        std::copy(payload.begin(), payload.end(), frame.begin() + 4);
        if (r.chance(1, 16)) { frame.resize(r.below(4)); len_class = 6; }       // no complete header
        const bool valid = frame.size() >= 4 && len_field == frame.size() - 4;
        const bool is_known = known.count(cid) != 0;

        ll.buffers = r.chance(1, 8) ? 0 : 1;
        ll.extra = r.chance(1, 4) ? r.below(16) : 0;
        g_rec.reply_len = r.chance(1, 4) ? 0 : (r.chance(1, 3) ? max_mtu + ll.extra + 8 : r.below(static_cast<std::uint32_t>(max_mtu + 1)));
        const sig_state sig_before = has_sig ? observe(sig()) : st_idle;

        for (int attempt = 0; attempt < 2; ++attempt) {
            g_rec.clear_call(); ll.commits.clear();
            const bool had_buffer = ll.buffers != 0;
            verif::exact_buffer in(frame.data(), frame.size());
            note("frame:" + verif::hex(frame.data(), std::min<std::size_t>(frame.size(), 12)) + (frame.size() > 12 ? "~" + std::to_string(frame.size()) : "") + (had_buffer ? "" : "(nobuf)"));
            api(cid == 5 && has_sig ? "l2cap.handle_l2cap_input(signaling)" : "l2cap.handle_l2cap_input");
            const bool consumed = ll.handle_l2cap_input(in.data(), frame.size(), ll.connection);
            M.eval();

            std::uint64_t h = verif::mix(verif::hstr(g_cfg), is_known ? cid : (cid < 8 ? 100 + cid : 200));
            h = verif::mix(h, len_class); h = verif::mix(h, frame.size() < 4 ? frame.size() : (payload.size() == 0 ? 4 : (payload.size() >= max_mtu ? 6 : 5)));
            h = verif::mix(h, had_buffer); h = verif::mix(h, g_rec.inputs.size()); h = verif::mix(h, ll.commits.size());

            if (!consumed) {
                M.cls("mux_not_consumed_no_buffer");
                if (had_buffer) { viol("C31:mux:frame_refused_although_buffer_available", "handle_l2cap_input returned false for " + verif::hex(frame)); return; }
                if (!g_rec.inputs.empty() || !ll.commits.empty()) { viol("C31:mux:frame_delivered_but_reported_unconsumed", "frame " + verif::hex(frame) + " reached " + std::to_string(g_rec.inputs.size()) + " channel(s) and handle_l2cap_input returned false"); return; }
                M.nontrivial(h);
                ll.buffers = 1;         // the link layer presents the same frame again once a buffer is free
                continue;
            }
            // consumed
            if (!(valid && is_known)) {
                M.cls(frame.size() < 4 ? "mux_frame_without_header" : (!valid ? "mux_length_field_mismatch" : "mux_unknown_cid"));
                if (len_class == 5 && frame.size() >= 4) M.cls("mux_length_equal_modulo_256");
                if (!g_rec.inputs.empty()) {
                    viol(!valid ? "C31:mux:delivered_despite_length_mismatch" : "C31:mux:unknown_cid_delivered",
                         "frame " + verif::hex(frame) + " was handed to channel " + std::to_string(g_rec.inputs[0].cid));
                    return;
                }
                if (!ll.commits.empty()) { viol(!valid ? "C31:mux:answered_despite_length_mismatch" : "C31:mux:unknown_cid_answered", "frame " + verif::hex(frame) + " was answered with " + verif::hex(ll.commits[0].data)); return; }
                M.nontrivial(h);
                return;
            }
            M.cls(cid == 5 ? "mux_frame_to_signaling" : "mux_frame_to_mock_channel");
            if (g_rec.inputs.empty()) { viol("C31:mux:valid_frame_not_delivered", "frame " + verif::hex(frame) + " consumed without reaching channel " + std::to_string(cid)); return; }
            if (g_rec.inputs.size() > 1) { viol("C31:mux:frame_delivered_to_several_channels", "frame " + verif::hex(frame) + " reached " + std::to_string(g_rec.inputs.size()) + " channels"); return; }
            if (g_rec.inputs[0].cid != cid) { viol("C31:mux:frame_delivered_to_wrong_channel", "frame for CID " + std::to_string(cid) + " reached channel " + std::to_string(g_rec.inputs[0].cid)); return; }
            if (g_rec.inputs[0].payload != payload) { viol("C31:mux:payload_altered", "channel got " + verif::hex(g_rec.inputs[0].payload) + " frame was " + verif::hex(frame)); return; }
            if (ll.commits.size() > 1) { viol("C31:mux:several_replies", std::to_string(ll.commits.size()) + " buffers committed for one frame"); return; }
            if (g_rec.reply.empty()) {
                M.cls("mux_no_reply");
                if (!ll.commits.empty()) { viol("C31:mux:reply_without_channel_output", "channel produced nothing, committed " + verif::hex(ll.commits[0].data)); return; }
            } else {
                M.cls(g_rec.reply.size() >= max_mtu ? "mux_reply_fills_buffer" : "mux_reply");
                if (ll.commits.empty()) { viol("C31:mux:reply_lost", "channel " + std::to_string(cid) + " produced " + std::to_string(g_rec.reply.size()) + " octets, nothing committed"); return; }
                if (!check_commit(ll.commits[0], cid, g_rec.reply, "reply")) return;
            }
            if (cid == 5 && has_sig && !sm.lost) {
                sm.input(payload, g_rec.reply, observe(sig()));
                M.cls("sig_via_multiplexer");
            }
            M.nontrivial(h);
            return;
        }
        viol("C31:mux:frame_refused_although_buffer_available", "second presentation of " + verif::hex(frame) + " refused");
        (void)sig_before;
    }

    void one_output_round() {
        verif::monitor& M = mon("C31");
        const std::size_t max_mtu = LL::maximum_mtu_size;
        // queue unsolicited output on the mock channels, and possibly a signaling request
        unsigned queued = 0;
        for (std::set<std::uint16_t>::const_iterator k = known.begin(); k != known.end(); ++k) {
            if (*k == 5 && has_sig) continue;
            const unsigned n = r.below(3);
            for (unsigned i = 0; i < n; ++i) {
                std::size_t len;
                switch (r.below(4)) { case 0: len = 1; break; case 1: len = max_mtu; break; default: len = 1 + r.below(static_cast<std::uint32_t>(max_mtu)); }
                bytes b(len); for (std::size_t j = 0; j < len; ++j) b[j] = r.byte();
                g_rec.pending[*k].push_back(b); ++queued;
            }
        }
        if (has_sig && !sm.lost && r.chance(1, 2)) {
            std::uint16_t q[4] = { static_cast<std::uint16_t>(r.next()), static_cast<std::uint16_t>(r.next()), static_cast<std::uint16_t>(r.next()), static_cast<std::uint16_t>(r.next()) };
            note("req");
            api("signaling.connection_parameter_update_request");
            const bool ok = sig_mut().connection_parameter_update_request(q[0], q[1], q[2], q[3]);
            sm.request(ok, q, observe(sig()));
        }
        std::size_t total_pending = 0;
        for (std::map<std::uint16_t, std::deque<bytes> >::const_iterator p = g_rec.pending.begin(); p != g_rec.pending.end(); ++p) total_pending += p->second.size();
        const bool sig_queued = has_sig && !sm.lost && sm.st == st_queued;
        const std::size_t expected_total = total_pending + (sig_queued ? 1 : 0);
        ll.buffers = r.chance(1, 4) ? r.below(3) : 64;
        ll.extra = r.chance(1, 4) ? r.below(16) : 0;
        const unsigned buffers = ll.buffers;
        g_rec.clear_call(); ll.commits.clear();
        note("flush(" + std::to_string(expected_total) + " pending," + std::to_string(buffers) + " buffers)");
        api("l2cap.transmit_pending_l2cap_output");
        ll.transmit_pending_l2cap_output(ll.connection);
        M.eval();
        // every output a channel produced must have been committed, in that order, with that channel's CID
        std::vector<output_record> produced;
        for (std::size_t i = 0; i < g_rec.outputs.size(); ++i) if (!g_rec.outputs[i].produced.empty()) produced.push_back(g_rec.outputs[i]);
        if (produced.size() != ll.commits.size()) { viol("C31:mux:output_lost_or_duplicated", "channels produced " + std::to_string(produced.size()) + " frames, " + std::to_string(ll.commits.size()) + " committed"); return; }
        for (std::size_t i = 0; i < produced.size(); ++i) {
            if (!check_commit(ll.commits[i], produced[i].cid, produced[i].produced, "output")) return;
            if (produced[i].cid == 5 && has_sig && !sm.lost) {
                // the signaling automaton saw an l2cap_output call that produced something
                sm.output(produced[i].produced, st_transmitted);
                M.cls("sig_request_via_multiplexer");
            }
            M.cls("mux_unsolicited_output");
        }
        const std::size_t want = std::min<std::size_t>(expected_total, buffers);
        if (ll.commits.size() != want) { viol("C31:mux:pending_output_not_transmitted", std::to_string(expected_total) + " outputs pending, " + std::to_string(buffers) + " buffers, " + std::to_string(ll.commits.size()) + " frames committed"); return; }
        if (has_sig && !sm.lost) {
            const sig_state now = observe(sig());
            if (now != sm.st) { sm.diverged(std::string("C31:sig:state_after_flush:expected_") + st_name(sm.st) + "_observed_" + st_name(now), "after transmit_pending_l2cap_output"); return; }
        }
        if (buffers < expected_total) M.cls("mux_output_waits_for_buffer");
        std::uint64_t h = verif::mix(verif::hstr(g_cfg), 0x0f); h = verif::mix(h, std::min<std::size_t>(expected_total, 5)); h = verif::mix(h, std::min<unsigned>(buffers, 5)); h = verif::mix(h, sig_queued);
        M.nontrivial(h);
    }

    void run(unsigned ops) {
        for (unsigned i = 0; i < ops; ++i) {
            if (r.chance(3, 4)) one_input(); else one_output_round();
        }
        // nothing may be left behind
        ll.buffers = 1000; ll.extra = 0; g_rec.clear_call(); ll.commits.clear();
        std::size_t total_pending = 0;
        for (std::map<std::uint16_t, std::deque<bytes> >::const_iterator p = g_rec.pending.begin(); p != g_rec.pending.end(); ++p) total_pending += p->second.size();
        note("final flush");
        api("l2cap.transmit_pending_l2cap_output");
        ll.transmit_pending_l2cap_output(ll.connection);
        const std::size_t want = total_pending + ((has_sig && !sm.lost && sm.st == st_queued) ? 1 : 0);
        if (ll.commits.size() != want) viol("C31:mux:pending_output_not_transmitted", "final flush: " + std::to_string(want) + " pending, " + std::to_string(ll.commits.size()) + " committed");
        mon("C31").count("sig_requests_completed", sm.completed);
        g_rec.buf = nullptr; g_rec.buf_size = 0;
    }
};

#ifndef MUX_PART
#define MUX_PART 0      // 0: everything in one binary; 1..3: one multiplexer configuration; 4: signaling channel stand-alone
#endif

typedef mock_ll<mock_channel<4, 23, 23>, rec_signaling, mock_channel<6, 23, 65> >  ll_att_sig_sm;
typedef mock_ll<mock_channel<4, 23, 247>, mock_channel<6, 23, 23> >                ll_att_sm_nosig;
typedef mock_ll<rec_signaling, mock_channel<6, 23, 23>, mock_channel<4, 23, 23> >  ll_sig_sm_att;

static void mux_case(std::uint64_t seed, unsigned ops, unsigned which) {
    hist_clear(); verif::ctx_op("");
    std::vector<std::uint16_t> cids;
#if MUX_PART == 0 || MUX_PART == 1
    if (which == 0) {
        g_cfg = "l2cap<att(23..23), signaling_channel, sm(23..65)> max_mtu=65";
        verif::ctx_config(g_cfg);
        cids.push_back(4); cids.push_back(5); cids.push_back(6);
        mux_episode<ll_att_sig_sm> e(seed, cids, true); e.run(ops);
    }
#endif
#if MUX_PART == 0 || MUX_PART == 2
    if (which == 1) {
        g_cfg = "l2cap<att(23..247), sm(23..23)> no signaling, max_mtu=247";
        verif::ctx_config(g_cfg);
        cids.push_back(4); cids.push_back(6);
        mux_episode<ll_att_sm_nosig> e(seed, cids, false); e.run(ops);
    }
#endif
#if MUX_PART == 0 || MUX_PART == 3
    if (which == 2) {
        g_cfg = "l2cap<signaling_channel, sm(23..23), att(23..23)> max_mtu=23";
        verif::ctx_config(g_cfg);
        cids.push_back(4); cids.push_back(5); cids.push_back(6);
        mux_episode<ll_sig_sm_att> e(seed, cids, true); e.run(ops);
    }
#endif
}

int main(int argc, char** argv) {
    verif::args a(argc, argv);
    verif::install_crash_handler();
    verif::ctx_prop("C31");
    const std::uint64_t seed = a.num("seed", 1);
    const unsigned long long cases = a.num("cases", 400);
    const unsigned ops = static_cast<unsigned>(a.num("ops", 120));
    std::set<unsigned long long> skip;
    {
        std::stringstream ss(a.str("skip", "")); std::string t;
        while (std::getline(ss, t, ',')) if (!t.empty()) skip.insert(std::strtoull(t.c_str(), nullptr, 0));
    }
    verif::run_config() = "mux+signaling part=" + std::to_string(MUX_PART);
    for (unsigned long long c = 0; c < cases; ++c) {
        g_case = c;
        verif::ctx_step(c);
        if (skip.count(c)) { mon("C31").count("cases_skipped_after_crash"); continue; }
        const std::uint64_t s = verif::mix(verif::mix(0xc31, seed), c);
        hist_clear(); verif::ctx_op("");
#if MUX_PART == 0
        switch (c % 5) {
        case 0: mux_case(s, ops, 0); break;
        case 1: mux_case(s, ops, 1); break;
        case 2: mux_case(s, ops, 2); break;
        case 3: sig_unit_case(s, ops * 4, false); break;
        default: sig_unit_case(s, 1400, true); break;      // > 255 completed requests: identifier wrap
        }
#elif MUX_PART == 4
        if (c % 4 != 3) sig_unit_case(s, ops * 4, false);
        else sig_unit_case(s, 1400, true);                 // > 255 completed requests: identifier wrap
#else
        mux_case(s, ops, MUX_PART - 1);
#endif
        mon("C31").count("cases");
    }
    verif::finish();
    return 0;
}
