// C19: the real ll_l2cap_sdu_buffer on top of the real ll_data_pdu_buffer, driven by a simulated central
// (proper SN/NESN, lossless) and a host that behaves like link_layer.hpp (allocate/commit of L2CAP and LL
// buffers, next_ll_l2cap_received / free_ll_l2cap_received).
//
// Outgoing oracle : trace checker over the PDUs the central receives (one LLID=start PDU followed by
//                   LLID=continuation PDUs whose payloads concatenate to the committed SDU, no second start
//                   before the SDU is complete, nothing emitted twice, everything emitted within a bounded
//                   number of connection events) + a spy on commit_transmit_buffer that compares every
//                   fragment with max_tx_size() at the moment it is committed.
// Incoming oracle : reference reassembler over the fragment stream the central sent (written from Core
//                   Vol 6 Part B 2.4.1 / Vol 3 Part A 7.2: LLID 10b starts a new L2CAP message, LLID 01b
//                   continues the most recent one, the message is complete after 4 + Length octets).  Every
//                   buffer handed to the host must be a member of the list of messages this reassembler
//                   completes, in order, each at most once.  The code under test is free to drop.
// Memory safety   : ASan; receive_buffer_/transmit_buffer_ are guarded arrays (hook H3).
//
// One "step" (ctx_step, --skip) is one case: a fresh object and one PRNG stream derived from (seed, case).
#include <bluetoe/ll_data_pdu_buffer.hpp>
#include <bluetoe/ll_l2cap_sdu_buffer.hpp>
#include "common/verif.hpp"

#include <deque>
#include <memory>
#include <algorithm>

namespace bl = bluetoe::link_layer;
using verif::mon;

typedef std::vector<std::uint8_t> bytes;

// ------------------------------------------------------------------------------------------------
// second PDU layout: one octet between header and body (the shape of nrf_details::encrypted_pdu_layout,
// which cannot be included on the host without the nRF register file)
struct gap_layout : bl::details::layout_base<gap_layout> {
    static constexpr std::size_t header_size = sizeof(std::uint16_t);
    using bl::details::layout_base<gap_layout>::header;
    static std::uint16_t header(const std::uint8_t* pdu) { return static_cast<std::uint16_t>(pdu[0] | (pdu[1] << 8)); }
    static void header(std::uint8_t* pdu, std::uint16_t v) { pdu[0] = static_cast<std::uint8_t>(v); pdu[1] = static_cast<std::uint8_t>(v >> 8); }
    static std::pair<std::uint8_t*, std::uint8_t*> body(const bl::read_buffer& pdu) { return { &pdu.buffer[header_size + 1], &pdu.buffer[pdu.size] }; }
    static std::pair<const std::uint8_t*, const std::uint8_t*> body(const bl::write_buffer& pdu) { return { &pdu.buffer[header_size + 1], &pdu.buffer[pdu.size] }; }
    static constexpr std::size_t data_channel_pdu_memory_size(std::size_t payload_size) { return header_size + 1 + payload_size; }
};

template <std::size_t TX, std::size_t RX, bool Gap> struct radio_t;

namespace bluetoe { namespace link_layer {
    template <std::size_t TX, std::size_t RX>
    struct pdu_layout_by_radio< ::radio_t<TX, RX, true> > { using pdu_layout = ::gap_layout; };
}}

struct commit_record { unsigned llid; std::size_t payload; std::size_t max_tx; };

// the Radio of ll_data_pdu_buffer: lock_guard, packet counters, and access to the protected radio interface
template <std::size_t TX, std::size_t RX, bool Gap>
struct radio_t : bl::ll_data_pdu_buffer<TX, RX, radio_t<TX, RX, Gap> > {
    typedef bl::ll_data_pdu_buffer<TX, RX, radio_t<TX, RX, Gap> > base;
    static constexpr std::size_t tx_ring = TX, rx_ring = RX;
    static constexpr bool gap = Gap;

    struct lock_guard { lock_guard() { ++locks(); } static unsigned long& locks() { static unsigned long n = 0; return n; } };
    unsigned long rx_counter = 0, tx_counter = 0;
    void increment_receive_packet_counter() { ++rx_counter; }
    void increment_transmit_packet_counter() { ++tx_counter; }

    using base::allocate_receive_buffer;
    using base::received;
    using base::next_transmit;

    // spy: every PDU handed to the ring is recorded together with the maximum that is current at that moment
    std::vector<commit_record>* spy = nullptr;
    void commit_transmit_buffer(bl::read_buffer b) {
        if (spy) {
            const std::uint16_t h = base::layout::header(b);
            spy->push_back(commit_record{ static_cast<unsigned>(h & 3), static_cast<std::size_t>(h >> 8), this->max_tx_size() });
        }
        base::commit_transmit_buffer(b);
    }
};

template <class Radio, std::size_t MTU>
struct sut_t : bl::ll_l2cap_sdu_buffer<Radio, sut_t<Radio, MTU>, MTU> {
    static constexpr std::size_t mtu = MTU;
    typedef Radio radio;
    unsigned long data_callbacks = 0;
    void pdu_receive_data_callback(const bl::write_buffer&) { ++data_callbacks; }
};

// ------------------------------------------------------------------------------------------------
static std::string g_cfg;
static unsigned long long g_case = 0;
static std::string g_script;          // --script="s30/27 c/27 poll": replay instead of generating

// rolling history of the case (cheap: one append per operation)
static std::string g_hist_text;
static std::vector<std::size_t> g_hist_marks;    // start offsets of the last operations (for pop)
static std::string hist_tail(std::size_t max_chars) {
    if (g_hist_text.size() <= max_chars) return g_hist_text;
    std::size_t cut = g_hist_text.size() - max_chars;
    const std::size_t sp = g_hist_text.find(' ', cut);
    if (sp != std::string::npos) cut = sp + 1;
    return "... " + g_hist_text.substr(cut);
}
static void hist_clear() { g_hist_text.clear(); g_hist_marks.clear(); }
static void hist_pop() {
    if (g_hist_marks.empty()) return;
    g_hist_text.erase(g_hist_marks.back()); g_hist_marks.pop_back();
}
static void note(const std::string& op) {
    if (g_hist_text.size() > 6000) { g_hist_text.erase(0, g_hist_text.size() - 2000); g_hist_marks.clear(); }
    g_hist_marks.push_back(g_hist_text.size());
    if (g_hist_marks.size() > 64) g_hist_marks.erase(g_hist_marks.begin(), g_hist_marks.begin() + 32);
    if (!g_hist_text.empty()) g_hist_text += ' ';
    g_hist_text += op;
}
// crash context: first word = the call into the code under test that is executing (stable, becomes part of
// the crash key), then the tail of the history
static void api(const char* call) {
    static char buf[400];
    const std::size_t n = g_hist_text.size();
    std::snprintf(buf, sizeof buf, "%s after: %s", call, g_hist_text.c_str() + (n > 330 ? n - 330 : 0));
    verif::ctx_op(buf);
}
static void viol(const std::string& key, const std::string& what) {
    verif::violation("C19", key, g_cfg + " case=" + std::to_string(g_case) + " " + what + " | history: " + hist_tail(1500), g_case);
}

// ------------------------------------------------------------------------------------------------
// reference reassembler (incoming)
struct rx_model {
    struct frag { unsigned llid; bytes body; };
    std::vector<frag> stream;            // data fragments, in the order sent (for diagnosis)
    std::vector<bytes> expect;           // messages the reference completes, in order
    std::vector<unsigned> expect_frags;  // number of fragments each of them consumed
    unsigned acc_frags = 0;
    std::size_t next_expect = 0;         // everything before was delivered or skipped (dropped)
    std::deque<bytes> ctrl;              // LL control PDU payloads not yet delivered
    bool open = false;                   // a message is being reassembled
    bytes acc;
    unsigned long dropped = 0;

    std::size_t remaining() const {      // octets missing in the open message, 0 if unknown/closed
        if (!open || acc.size() < 2) return 0;
        const std::size_t need = 4u + (acc[0] | (acc[1] << 8));
        return need > acc.size() ? need - acc.size() : 0;
    }
    void complete() {
        if (acc.size() < 2) return;
        const std::size_t need = 4u + (acc[0] | (acc[1] << 8));
        if (acc.size() >= need) { expect.push_back(bytes(acc.begin(), acc.begin() + need)); expect_frags.push_back(acc_frags); open = false; acc.clear(); }
    }
    void sent(unsigned llid, const bytes& body) {
        if (body.empty() || llid == 0) return;          // empty PDU / reserved LLID: not part of any stream
        if (llid == 3) { ctrl.push_back(body); return; }
        stream.push_back(frag{ llid, body });
        if (llid == 2) { open = true; acc = body; acc_frags = 1; complete(); }
        else if (open) { acc.insert(acc.end(), body.begin(), body.end()); ++acc_frags; complete(); }
    }
    // assembly that ignores intervening start fragments: only used to name the kind of a mismatch
    bool spans_start(const bytes& d) const {
        for (std::size_t i = 0; i < stream.size(); ++i) {
            if (stream[i].llid != 2) continue;
            bytes a = stream[i].body; bool crossed = false;
            for (std::size_t j = i + 1; j < stream.size(); ++j) {
                if (stream[j].llid == 2) { crossed = true; continue; }
                a.insert(a.end(), stream[j].body.begin(), stream[j].body.end());
                if (a.size() >= 2) {
                    const std::size_t need = 4u + (a[0] | (a[1] << 8));
                    if (a.size() >= need) { if (crossed && need == d.size() && std::equal(d.begin(), d.end(), a.begin())) return true; break; }
                }
            }
        }
        return false;
    }
};

// trace checker (outgoing)
struct tx_model {
    std::deque<bytes> sdus;     // committed, not yet seen on air
    std::deque<bytes> ctrl;     // committed LL control PDU payloads
    bytes cur; std::size_t off = 0; bool in_sdu = false; unsigned frags = 0;
    unsigned long completed = 0, fragmented = 0;
    bool broken = false;        // after a mismatch the rest of the case is not judged

    void air(unsigned llid, const bytes& body) {
        mon("C19").eval();
        if (broken) return;
        if (llid == 3) {
            if (ctrl.empty() || ctrl.front() != body) { viol("C19:frag:control_pdu_not_passed_through_once", "LL control PDU on air " + verif::hex(body) + " is not the next committed one"); broken = true; return; }
            ctrl.pop_front(); return;
        }
        if (llid == 2) {
            if (in_sdu) { viol("C19:frag:start_before_sdu_complete", "start fragment on air after " + std::to_string(off) + " of " + std::to_string(cur.size()) + " octets of the previous SDU"); broken = true; return; }
            if (sdus.empty()) { viol("C19:frag:sdu_emitted_twice_or_unknown", "start fragment " + verif::hex(body) + " but no committed SDU is outstanding"); broken = true; return; }
            cur = sdus.front(); sdus.pop_front(); off = 0; in_sdu = true; frags = 0;
        } else if (llid == 1) {
            if (!in_sdu) { viol("C19:frag:continuation_without_start", "continuation fragment " + verif::hex(body) + " while no SDU is in progress"); broken = true; return; }
        } else { viol("C19:frag:llid_reserved", "PDU with LLID 0 on air"); broken = true; return; }
        if (off + body.size() > cur.size()) { viol("C19:frag:more_octets_than_sdu", "fragments carry more than the SDU: offset " + std::to_string(off) + " + " + std::to_string(body.size()) + " > " + std::to_string(cur.size())); broken = true; return; }
        if (!std::equal(body.begin(), body.end(), cur.begin() + off)) {
            viol("C19:frag:payload_mismatch", "fragment " + std::to_string(frags) + " at offset " + std::to_string(off) + " is " + verif::hex(body) + " expected " + verif::hex(bytes(cur.begin() + off, cur.begin() + off + body.size())));
            broken = true; return;
        }
        off += body.size(); ++frags;
        if (off == cur.size()) { in_sdu = false; ++completed; if (frags > 1) ++fragmented; }
    }
    bool idle() const { return !in_sdu && sdus.empty() && ctrl.empty(); }
};

// ------------------------------------------------------------------------------------------------
template <class Sut>
struct episode {
    typedef typename Sut::layout layout;
    typedef typename Sut::radio radio;
    enum : std::size_t {
        MTU   = Sut::mtu,
        ll_oh = layout::data_channel_pdu_memory_size(0),     // header + gap
        gap   = ll_oh - 2
    };

    std::unique_ptr<Sut> sp;
    Sut& s;
    verif::prng r;
    rx_model rx;
    tx_model tx;
    std::vector<commit_record> commits;
    bool csn = false, cnesn = false;        // central's SN / NESN
    std::deque<std::pair<unsigned, bytes> > script;   // fragments of a well-formed SDU still to be sent
    unsigned long sdu_id = 0;
    std::uint64_t state_hash = 0;
    bool tx_busy_seen = false;

    explicit episode(std::uint64_t seed) : sp(new Sut), s(*sp), r(seed) { s.spy = &commits; }

    std::size_t max_body_rx() const { return s.max_rx_size() - 2; }

    // ---- central -------------------------------------------------------------------------------
    // one connection event with one PDU in each direction; false if the radio has no receive buffer
    bool exchange(unsigned llid, const bytes& body) {
        api("radio.allocate_receive_buffer");
        bl::read_buffer rb = s.allocate_receive_buffer();
        if (rb.size == 0) return false;
        const std::uint16_t h = static_cast<std::uint16_t>(llid | (cnesn ? 4 : 0) | (csn ? 8 : 0) | (body.size() << 8));
        layout::header(rb, h);
        if (gap) rb.buffer[2] = 0xEE;
        if (!body.empty()) std::copy(body.begin(), body.end(), layout::body(rb).first);
        rx.sent(llid, body);
        api("radio.received");
        const bl::write_buffer out = s.received(rb);
        const std::uint16_t oh = layout::header(out);
        const std::size_t len = oh >> 8;
        if (static_cast<bool>(oh & 4) != csn) csn = !csn;      // acknowledged (always, the channel is lossless)
        else mon("C19").count("central_pdu_not_acknowledged");
        if (static_cast<bool>(oh & 8) == cnesn) {                // new PDU from the peripheral
            cnesn = !cnesn;
            if (len) {
                const std::uint8_t* b = out.buffer + ll_oh;
                tx.air(oh & 3, bytes(b, b + len));
            }
        }
        return true;
    }

    // ---- host, receive side ----------------------------------------------------------------------
    void judge(const bl::write_buffer& d) {
        verif::monitor& M = mon("C19");
        M.eval();
        if (d.size < ll_oh || d.buffer == nullptr) { viol("C19:reasm:buffer_shorter_than_header", "delivered buffer of size " + std::to_string(d.size)); return; }
        const unsigned llid = layout::header(d) & 3;
        const bytes body(d.buffer + ll_oh, d.buffer + d.size);
        std::uint64_t h = verif::mix(state_hash, llid);
        if (llid == 3) {
            if (rx.ctrl.empty() || rx.ctrl.front() != body) viol("C19:reasm:control_pdu_not_passed_through_once", "LL control PDU delivered " + verif::hex(body) + " is not the next one sent");
            else rx.ctrl.pop_front();
            M.cls("rx_control_pdu_delivered");
            return;
        }
        if (llid != 2) {
            viol("C19:reasm:delivered_pdu_is_not_a_start", "buffer with LLID " + std::to_string(llid) + " delivered to the host as L2CAP data: " + verif::hex(body));
            return;
        }
        std::size_t k = rx.next_expect;
        while (k < rx.expect.size() && rx.expect[k] != body) ++k;
        if (k < rx.expect.size()) {
            rx.dropped += k - rx.next_expect;
            rx.next_expect = k + 1;
            const unsigned nfrag = rx.expect_frags[k];
            M.cls(nfrag > 1 ? "rx_delivered_reassembled" : "rx_delivered_single_pdu");
            h = verif::mix(h, nfrag > 3 ? 3 : nfrag); h = verif::mix(h, body.size() == 4u + MTU ? 1 : (body.size() == 4 ? 2 : 0));
            M.nontrivial(h);
            if (M.samples.size() < 3 && nfrag > 1)
                M.sample_json("{\"config\":\"" + g_cfg + "\",\"delivered_sdu_octets\":" + std::to_string(body.size()) + ",\"stream\":\"" + verif::jesc(hist_tail(300)) + "\"}");
            return;
        }
        // not a message of the reference: name the kind
        for (std::size_t j = 0; j < rx.next_expect; ++j)
            if (rx.expect[j] == body) { viol("C19:reasm:sdu_delivered_twice", "SDU " + verif::hex(body) + " was delivered before"); return; }
        if (body.size() < 4 || body.size() != 4u + (body[0] | (body[1] << 8))) {
            viol("C19:reasm:length_not_as_announced", "delivered " + std::to_string(body.size()) + " octets, header announces " +
                 (body.size() >= 2 ? std::to_string(4u + (body[0] | (body[1] << 8))) : std::string("nothing")) + ": " + verif::hex(body));
            return;
        }
        if (rx.spans_start(body)) { viol("C19:reasm:continuation_of_later_start_appended", "SDU is a start fragment plus continuations that followed a LATER start fragment: " + verif::hex(body)); return; }
        viol("C19:reasm:not_start_plus_continuations", "delivered SDU is not one start fragment of the stream followed by its continuations: " + verif::hex(body));
    }
    // returns true if something was delivered
    bool host_poll() {
        api("next_ll_l2cap_received");
        bl::write_buffer d = s.next_ll_l2cap_received();
        if (d.size == 0) { return false; }
        note("poll");
        judge(d);
        if (r.chance(1, 6)) {            // link_layer peeks again when it could not get an output buffer
            api("next_ll_l2cap_received");
            bl::write_buffer d2 = s.next_ll_l2cap_received();
            if (d2.size != d.size || d2.buffer != d.buffer) mon("C19").count("peek_not_idempotent");
        }
        api("free_ll_l2cap_received");
        s.free_ll_l2cap_received();
        return true;
    }
    void host_drain_rx() { for (int i = 0; i < 400 && host_poll(); ++i) {} }

    // ---- host, transmit side ---------------------------------------------------------------------
    void host_send_sdu() {
        verif::monitor& M = mon("C19");
        // link_layer allocates maximum_mtu_size and commits what the channel produced
        std::size_t len;
        switch (r.below(8)) {
        case 0: len = 0; break;
        case 1: len = MTU; break;
        case 2: len = MTU ? MTU - 1 : 0; break;
        case 3: len = std::min<std::size_t>(MTU, s.max_tx_size() - 2 - 4 - gap); break;       // just fits one PDU
        case 4: len = std::min<std::size_t>(MTU, s.max_tx_size() - 2 - 4 - gap + 1); break;   // one octet too much
        default: len = r.below(static_cast<std::uint32_t>(MTU + 1)); break;
        }
        const std::size_t alloc = r.chance(1, 2) ? MTU : len;
        api("allocate_l2cap_transmit_buffer");
        const bl::read_buffer b = s.allocate_l2cap_transmit_buffer(alloc);
        api("harness.fill_l2cap_buffer");
        if (b.size == 0) {
            // everything committed before was seen on air and acknowledged: nothing can occupy the buffer
            if (tx.idle() && !tx.broken && !s.pending_outgoing_data_available())
                viol("C19:frag:transmit_buffer_stays_busy", "allocate_l2cap_transmit_buffer(" + std::to_string(alloc) + ") refused although all " +
                     std::to_string(tx.completed) + " committed SDUs were transmitted and acknowledged");
            M.cls("tx_allocate_busy"); tx_busy_seen = true; return;
        }
        if (b.size != alloc + ll_oh + 4) M.count("tx_allocate_size_differs");
        const std::pair<std::uint8_t*, std::uint8_t*> body = layout::body(b);
        bytes sdu(4 + len);
        sdu[0] = static_cast<std::uint8_t>(len); sdu[1] = static_cast<std::uint8_t>(len >> 8);
        sdu[2] = 4; sdu[3] = 0;
        ++sdu_id;
        for (std::size_t i = 0; i < len; ++i) sdu[4 + i] = static_cast<std::uint8_t>(i < 2 ? (sdu_id >> (8 * i)) : r.byte());
        std::copy(sdu.begin(), sdu.end(), body.first);
        // as link_layer::commit_l2cap_output_buffer does
        const bl::read_buffer out{ b.buffer, sdu.size() + ll_oh };
        layout::header(out, static_cast<std::uint16_t>(2 | ((sdu.size() & 0xff) << 8)));
        tx.sdus.push_back(sdu);
        note("sdu" + std::to_string(len));
        const std::size_t before = commits.size();
        api("commit_l2cap_transmit_buffer");
        s.commit_l2cap_transmit_buffer(out);
        const std::size_t single = s.max_tx_size() - 2 - gap;
        M.cls(sdu.size() > single ? "tx_sdu_needs_fragmentation" : "tx_sdu_fits_one_pdu");
        if (len == 0) M.cls("tx_sdu_len0");
        if (len == MTU) M.cls("tx_sdu_full_mtu");
        std::uint64_t h = verif::hstr(g_cfg); h = verif::mix(h, 77); h = verif::mix(h, sdu.size() / 8); h = verif::mix(h, s.max_tx_size() / 16);
        h = verif::mix(h, commits.size() - before);
        M.nontrivial(h);
    }
    void host_send_control() {
        const std::size_t len = 1 + r.below(27);
        api("allocate_ll_transmit_buffer");
        const bl::read_buffer b = s.allocate_ll_transmit_buffer(len);
        if (b.size == 0) { mon("C19").cls("tx_ll_allocate_busy"); return; }
        bytes body(len);
        for (std::size_t i = 0; i < len; ++i) body[i] = r.byte();
        layout::header(b, static_cast<std::uint16_t>(3 | (len << 8)));
        std::copy(body.begin(), body.end(), layout::body(b).first);
        tx.ctrl.push_back(body);
        note("ctl" + std::to_string(len));
        api("commit_ll_transmit_buffer");
        s.commit_ll_transmit_buffer(b);
        mon("C19").cls(tx.in_sdu || !tx.sdus.empty() ? "tx_control_pdu_while_sdu_pending" : "tx_control_pdu");
    }
    void change_max_tx() {
        const std::size_t hi = std::min<std::size_t>(251, radio::tx_ring / 2 - gap);
        if (hi <= 29) return;
        std::size_t v;
        switch (r.below(4)) { case 0: v = 29; break; case 1: v = hi; break; default: v = 29 + r.below(static_cast<std::uint32_t>(hi - 29 + 1)); }
        s.max_tx_size(v);
        note("maxtx" + std::to_string(v));
        mon("C19").cls(tx.in_sdu || !tx.sdus.empty() ? "tx_max_changed_mid_sdu" : "tx_max_changed");
    }
    void change_max_rx() {
        const std::size_t hi = std::min<std::size_t>(251, radio::rx_ring / 2 - gap);
        if (hi <= 29) return;
        std::size_t v;
        switch (r.below(4)) { case 0: v = 29; break; case 1: v = hi; break; default: v = 29 + r.below(static_cast<std::uint32_t>(hi - 29 + 1)); }
        s.max_rx_size(v);
        note("maxrx" + std::to_string(v));
        mon("C19").cls("rx_max_changed");
    }
    void check_commits() {
        verif::monitor& M = mon("C19");
        for (std::size_t i = 0; i < commits.size(); ++i) {
            const commit_record& c = commits[i];
            if (c.llid == 3) continue;
            M.eval();
            if (c.payload + 2 > c.max_tx)
                viol("C19:frag:fragment_exceeds_max_tx_size", "fragment with " + std::to_string(c.payload) + " payload octets committed while max_tx_size() is " + std::to_string(c.max_tx));
        }
        commits.clear();
    }

    // ---- central generators ----------------------------------------------------------------------
    bytes random_bytes(std::size_t n) { bytes b(n); for (std::size_t i = 0; i < n; ++i) b[i] = r.byte(); return b; }

    void send(unsigned llid, const bytes& body, const char* tag) {
        for (int attempt = 0; attempt < 3; ++attempt) {
            if (attempt) { mon("C19").cls("rx_ring_full"); host_drain_rx(); }
            const bool was_open = rx.open;
            const std::size_t rem = rx.remaining();
            std::string n = tag;
            if (llid == 2 && body.size() >= 2) n += std::to_string(body[0] | (body[1] << 8));
            note(n + "/" + std::to_string(body.size()));
            if (exchange(llid, body)) {
                verif::monitor& M = mon("C19");
                if (llid == 2 && !body.empty()) {
                    if (was_open) M.cls("rx_start_while_reassembling");
                    if (body.size() < 4) M.cls("rx_start_shorter_than_header");
                    else {
                        const std::size_t ann = body[0] | (body[1] << 8);
                        if (ann + 4 == body.size()) M.cls("rx_start_complete");
                        else if (ann + 4 < body.size()) M.cls("rx_start_overlong");
                        else M.cls("rx_start_fragmented");
                        if (ann > MTU) M.cls("rx_start_announces_more_than_mtu");
                        if (ann == MTU) M.cls("rx_start_announces_mtu");
                    }
                } else if (llid == 1 && !body.empty()) {
                    if (!was_open) M.cls("rx_continuation_without_start");
                    else if (rem == body.size()) M.cls("rx_continuation_exact");
                    else if (rem > body.size()) M.cls("rx_continuation_partial");
                    else M.cls("rx_continuation_overlong");
                } else if (llid == 3) M.cls(was_open ? "rx_control_pdu_interleaved" : "rx_control_pdu");
                else M.cls("rx_empty_or_reserved_pdu");
                state_hash = verif::mix(verif::mix(verif::hstr(g_cfg), was_open), verif::mix(llid, body.size() < 4 ? body.size() : (body.size() == max_body_rx() ? 5 : 4)));
                state_hash = verif::mix(state_hash, rem == 0 ? 0 : (rem < body.size() ? 1 : (rem == body.size() ? 2 : 3)));
                return;
            }
            hist_pop();
        }
        mon("C19").count("rx_no_receive_buffer_after_drain");
    }

    std::size_t pick_announced() {
        switch (r.below(10)) {
        case 0: return 0;
        case 1: return 1;
        case 2: return MTU;
        case 3: return MTU + 1;
        case 4: return MTU - 1;
        case 5: return 0xFFFF;
        case 6: return r.below(0x10000);
        case 7: return max_body_rx() - 4;
        default: return r.below(static_cast<std::uint32_t>(MTU + 1));
        }
    }
    void gen_start() {
        const std::size_t mb = max_body_rx();
        const std::size_t ann = pick_announced();
        std::size_t len;
        switch (r.below(9)) {
        case 0: len = 1 + r.below(3); break;                              // shorter than the L2CAP header
        case 1: len = 4; break;
        case 2: len = mb; break;
        case 3: len = ann + 4 <= mb ? ann + 4 : mb; break;                // complete if it fits
        case 4: len = ann + 5 <= mb ? ann + 5 + r.below(static_cast<std::uint32_t>(mb - ann - 4)) : mb; break;   // overlong
        case 5: len = ann + 3 <= mb && ann + 3 >= 4 ? ann + 3 : 4 + r.below(static_cast<std::uint32_t>(mb - 3)); break;
        default: len = 4 + r.below(static_cast<std::uint32_t>(mb - 3)); break;
        }
        bytes b = random_bytes(len);
        b[0] = static_cast<std::uint8_t>(ann); if (len > 1) b[1] = static_cast<std::uint8_t>(ann >> 8);
        send(2, b, "s");
    }
    void gen_cont() {
        const std::size_t mb = max_body_rx();
        const std::size_t rem = rx.remaining();
        std::size_t len;
        switch (r.below(7)) {
        case 0: len = rem ? std::min(rem, mb) : mb; break;
        case 1: len = rem > 1 ? std::min(rem - 1, mb) : 1; break;
        case 2: len = std::min(rem + 1 + r.below(8), mb); break;
        case 3: len = mb; break;
        case 4: len = 1; break;
        default: len = 1 + r.below(static_cast<std::uint32_t>(mb)); break;
        }
        send(1, random_bytes(len), "c");
    }
    // a correctly fragmented SDU with random fragment sizes, queued so that other operations interleave
    void gen_wellformed() {
        const std::size_t mb = max_body_rx();
        std::size_t ann;
        switch (r.below(5)) { case 0: ann = MTU; break; case 1: ann = mb - 4 + 1 > MTU ? MTU : mb - 4 + 1; break; default: ann = r.below(static_cast<std::uint32_t>(MTU + 1)); }
        bytes sdu = random_bytes(4 + ann);
        sdu[0] = static_cast<std::uint8_t>(ann); sdu[1] = static_cast<std::uint8_t>(ann >> 8); sdu[2] = 4; sdu[3] = 0;
        std::size_t off = 0; bool first = true;
        while (off < sdu.size()) {
            std::size_t n = r.chance(1, 2) ? mb : 1 + r.below(static_cast<std::uint32_t>(mb));
            if (first && n < 4 && r.chance(3, 4)) n = 4;
            n = std::min(n, sdu.size() - off);
            script.push_back(std::make_pair(first ? 2u : 1u, bytes(sdu.begin() + off, sdu.begin() + off + n)));
            off += n; first = false;
        }
        mon("C19").cls(script.size() > 1 ? "rx_wellformed_fragmented_sdu" : "rx_wellformed_single_pdu_sdu");
    }
    void central_step(bool hostile) {
        if (!script.empty() && (!hostile || !r.chance(1, 8))) {
            const std::pair<unsigned, bytes> f = script.front(); script.pop_front();
            if (f.second.size() > max_body_rx()) { script.clear(); return; }     // max_rx shrank meanwhile
            send(f.first, f.second, f.first == 2 ? "S" : "C");
            return;
        }
        if (!hostile) { gen_wellformed(); return; }
        switch (r.below(12)) {
        case 0: case 1: case 2: gen_start(); break;
        case 3: case 4: case 5: gen_cont(); break;
        case 6: send(3, random_bytes(1 + r.below(static_cast<std::uint32_t>(std::min<std::size_t>(27, max_body_rx())))), "L"); break;
        case 7: send(r.chance(1, 2) ? 1 : 2, bytes(), "e"); break;
        case 8: send(0, random_bytes(1 + r.below(8)), "r"); break;
        default: script.clear(); gen_wellformed(); break;
        }
    }

    // ---- replay of a history string as printed in violation details (payload octets are random) ---------
    void run_script(const std::string& text) {
        std::stringstream ss(text); std::string t;
        while (ss >> t) {
            const char k = static_cast<char>(std::tolower(static_cast<unsigned char>(t[0])));
            const std::size_t slash = t.find('/');
            if (t == "poll") host_poll();
            else if (t == "drain") host_drain_rx();
            else if (t == "ev") exchange(1, bytes());
            else if (t.compare(0, 5, "maxrx") == 0) { s.max_rx_size(std::strtoul(t.c_str() + 5, nullptr, 10)); note(t); }
            else if (t.compare(0, 5, "maxtx") == 0) { s.max_tx_size(std::strtoul(t.c_str() + 5, nullptr, 10)); note(t); }
            else if ((k == 's' || k == 'c' || k == 'l' || k == 'e' || k == 'r') && slash != std::string::npos) {
                const std::size_t len = std::strtoul(t.c_str() + slash + 1, nullptr, 10);
                bytes b = random_bytes(len);
                if (k == 's' && slash > 1) {
                    const unsigned long ann = std::strtoul(t.c_str() + 1, nullptr, 10);
                    if (len > 0) b[0] = static_cast<std::uint8_t>(ann);
                    if (len > 1) b[1] = static_cast<std::uint8_t>(ann >> 8);
                }
                send(k == 's' ? 2 : k == 'c' ? 1 : k == 'l' ? 3 : k == 'r' ? 0 : 1, b, k == 's' ? "s" : k == 'c' ? "c" : k == 'l' ? "L" : k == 'r' ? "r" : "e");
            }
            check_commits();
        }
        host_drain_rx();
    }

    // ---- one case -----------------------------------------------------------------------------------
    // mode: 0 = outgoing only, 1 = incoming well-formed, 2 = incoming hostile, 3 = everything mixed
    void run(int mode, unsigned ops) {
        if (mode != 0 && r.chance(1, 2)) change_max_rx();
        if (mode != 1 && mode != 2 && r.chance(1, 2)) change_max_tx();
        for (unsigned i = 0; i < ops; ++i) {
            const unsigned c = r.below(100);
            if (mode == 0) {
                if (c < 30) host_send_sdu();
                else if (c < 38) host_send_control();
                else if (c < 46) change_max_tx();
                else if (c < 60) host_poll();                       // link_layer polls every connection event: try_send_pdus
                else { if (!exchange(1, bytes())) host_drain_rx(); }
            } else if (mode == 1 || mode == 2) {
                if (c < 62) central_step(mode == 2);
                else if (c < 92) host_poll();
                else if (c < 95) change_max_rx();
                else host_drain_rx();
            } else {
                if (c < 40) central_step(true);
                else if (c < 62) host_poll();
                else if (c < 76) host_send_sdu();
                else if (c < 80) host_send_control();
                else if (c < 84) change_max_tx();
                else if (c < 87) change_max_rx();
                else { if (!exchange(1, bytes())) host_drain_rx(); }
            }
            check_commits();
        }
        // let a pending well-formed SDU finish, then drain both directions
        while (!script.empty()) central_step(false);
        host_drain_rx();
        check_commits();
        const unsigned long pending_octets = 300ul * (tx.sdus.size() + 2);
        unsigned bound = static_cast<unsigned>(pending_octets / 20 + 40);
        unsigned rounds = 0;
        while (!tx.idle() && !tx.broken && rounds < bound) {
            host_poll();                                                // calls try_send_pdus
            if (!exchange(1, bytes())) host_drain_rx();
            check_commits();
            ++rounds;
        }
        // one more event so that the last PDU is acknowledged
        if (!exchange(1, bytes())) host_drain_rx();
        if (!tx.idle() && !tx.broken) {
            viol("C19:frag:sdu_not_sent_completely", "after " + std::to_string(rounds) + " further connection events " + std::to_string(tx.sdus.size()) +
                 " committed SDU(s) not started, current SDU at offset " + std::to_string(tx.off) + " of " + std::to_string(tx.cur.size()));
        }
        verif::monitor& M = mon("C19");
        M.count("tx_sdus_completed", tx.completed);
        M.count("tx_sdus_sent_in_several_fragments", tx.fragmented);
        M.count("rx_sdus_completed_by_reference", rx.expect.size());
        M.count("rx_sdus_delivered", rx.next_expect - rx.dropped);
        M.count("rx_sdus_dropped_by_sut", rx.dropped + (rx.expect.size() - rx.next_expect));
        if (tx.fragmented) M.cls("tx_sdu_sent_in_several_fragments");
        if (tx_busy_seen && tx.completed) M.cls("tx_resumed_after_ring_full");
        if (M.samples.size() < 6 && tx.fragmented && mode == 0)
            M.sample_json("{\"config\":\"" + g_cfg + "\",\"case\":" + std::to_string(g_case) + ",\"outgoing_sdus\":" + std::to_string(tx.completed) + ",\"fragmented\":" + std::to_string(tx.fragmented) + ",\"ops\":\"" + verif::jesc(hist_tail(200)) + "\"}");
    }
};

// ------------------------------------------------------------------------------------------------
template <std::size_t TX, std::size_t RX, bool Gap, std::size_t MTU>
static void run_case(std::uint64_t seed, int mode, unsigned ops) {
    typedef sut_t<radio_t<TX, RX, Gap>, MTU> sut;
    g_cfg = "mtu=" + std::to_string(MTU) + (Gap ? " layout=gap1" : " layout=default") + " ring=" + std::to_string(TX) + "/" + std::to_string(RX) + " mode=" + std::to_string(mode);
    verif::ctx_config(g_cfg);
    hist_clear();
    verif::ctx_op("");
    episode<sut> e(seed);
    if (g_script.empty()) e.run(mode, ops);
    else e.run_script(g_script);
}

typedef void (*case_fn)(std::uint64_t, int, unsigned);
struct config { const char* name; case_fn fn; };

#ifndef SDU_GROUP
#define SDU_GROUP 0
#endif

static const config configs[] = {
#if SDU_GROUP == 0 || SDU_GROUP == 1
    { "23d-small",  &run_case<64, 64, false, 23> },
    { "23g-small",  &run_case<64, 64, true, 23> },
    { "23d-large",  &run_case<520, 520, false, 23> },
    { "23g-large",  &run_case<520, 520, true, 23> },
#endif
#if SDU_GROUP == 0 || SDU_GROUP == 2
    { "30d-small",  &run_case<64, 64, false, 30> },
    { "30g-small",  &run_case<64, 64, true, 30> },
    { "30d-large",  &run_case<520, 520, false, 30> },
    { "30g-large",  &run_case<520, 520, true, 30> },
#endif
#if SDU_GROUP == 0 || SDU_GROUP == 3
    { "65d-small",  &run_case<64, 64, false, 65> },
    { "65g-small",  &run_case<100, 100, true, 65> },
    { "65d-large",  &run_case<520, 520, false, 65> },
    { "65g-large",  &run_case<520, 520, true, 65> },
#endif
#if SDU_GROUP == 0 || SDU_GROUP == 4
    { "247d-small", &run_case<64, 64, false, 247> },
    { "247g-small", &run_case<100, 100, true, 247> },
    { "247d-large", &run_case<520, 520, false, 247> },
    { "247g-large", &run_case<520, 520, true, 247> },
#endif
};

int main(int argc, char** argv) {
    verif::args a(argc, argv);
    verif::install_crash_handler();
    verif::ctx_prop("C19");
    const std::uint64_t seed = a.num("seed", 1);
    const unsigned long long cases = a.num("cases", 2000);
    const unsigned ops = static_cast<unsigned>(a.num("ops", 40));
    const int mode = static_cast<int>(a.num("mode", 3));
    const std::string only = a.str("cfg", "");
    g_script = a.str("script", "");
    std::set<unsigned long long> skip;
    {
        std::stringstream ss(a.str("skip", "")); std::string t;
        while (std::getline(ss, t, ',')) if (!t.empty()) skip.insert(std::strtoull(t.c_str(), nullptr, 0));
    }
    std::vector<config> sel;
    for (std::size_t i = 0; i < sizeof(configs) / sizeof(configs[0]); ++i)
        if (only.empty() || only == configs[i].name) sel.push_back(configs[i]);
    if (sel.empty()) { std::fprintf(stderr, "no such configuration\n"); return 3; }
    verif::run_config() = "sdu mode=" + std::to_string(mode) + " cfg=" + (only.empty() ? std::string("all") : only);
    for (unsigned long long c = 0; c < cases; ++c) {
        g_case = c;
        verif::ctx_step(c);
        if (skip.count(c)) { mon("C19").count("cases_skipped_after_crash"); continue; }
        const config& cf = sel[c % sel.size()];
        cf.fn(verif::mix(verif::mix(0x5d0c19, seed), c), mode, ops);
        mon("C19").count("cases");
    }
    verif::finish();
    return 0;
}
