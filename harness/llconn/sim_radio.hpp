// Simulated scheduled radio on VIRTUAL TIME (micro seconds of the peripheral's clock).
//
// Implements the interface documented in bluetoe/link_layer/scheduled_radio.hpp and derives from the real
// bluetoe::link_layer::ll_data_pdu_buffer, so sequence numbers, acknowledgement and both PDU rings are the real code.
// What is on the air is decided by an `air` object (the central model): whether the peripheral hears a connection
// event is pure geometry - the central's transmission must fall into the window [T0+start_receive, T0+end_receive]
// the link layer scheduled, on the channel, PHY and access address the link layer configured.
//
// Every scheduling call and every callback is reported to an `observer` (the trace checkers) together with the virtual
// time and the link layer's public connection_event_counter() / current_channel_index().
#ifndef VERIF_LLCONN_SIM_RADIO_HPP
#define VERIF_LLCONN_SIM_RADIO_HPP

#include <bluetoe/ll_data_pdu_buffer.hpp>
#include <bluetoe/delta_time.hpp>
#include <bluetoe/buffer.hpp>
#include <bluetoe/phy_encodings.hpp>
#include <bluetoe/connection_events.hpp>
#include <bluetoe/address.hpp>

#include <cstdint>
#include <cstdio>
#include <deque>
#include <string>
#include <utility>
#include <vector>

namespace sim {

typedef long long vtime;     // micro seconds

inline unsigned air_time_us(std::size_t pdu_bytes_with_header, std::uint8_t phy) {
    // preamble + access address + pdu + crc
    return phy == 2 ? static_cast<unsigned>((2 + 4 + pdu_bytes_with_header + 3) * 4)
                    : static_cast<unsigned>((1 + 4 + pdu_bytes_with_header + 3) * 8);
}
static const unsigned t_ifs_us = 150;

// ------------------------------------------------------------------------------------------------ what happens on the air
struct listen_result {
    bool heard;            // a transmission of the central starts inside the window (on the right channel / PHY / access address)
    vtime t;               // start of that transmission
    long central_event;    // the central's (unbounded) number of that connection event
    listen_result() : heard(false), t(0), central_event(-1) {}
};

struct air_pdu {
    std::vector<std::uint8_t> bytes;   // over the air: 2 octets header + payload
    bool crc_ok;
    air_pdu() : crc_ok(true) {}
};

struct air {
    virtual ~air() {}
    // an advertising PDU is transmitted at `t`; return true and fill `connect_ind` (2 octets header + 34 octets) to answer with a CONNECT_IND
    virtual bool advertising(vtime t, unsigned channel, const std::vector<std::uint8_t>& adv, std::vector<std::uint8_t>& connect_ind) = 0;
    // the receiver is open from ws to we
    virtual listen_result listen(vtime ws, vtime we, unsigned channel, std::uint8_t rx_phy, std::uint32_t access_address, std::uint32_t crc_init) = 0;
    // next PDU of the central within the running connection event
    virtual air_pdu central_transmit(vtime t) = 0;
    // response of the peripheral; returns true if the central continues the connection event with another PDU
    virtual bool peripheral_transmit(vtime t, const std::vector<std::uint8_t>& pdu, std::uint8_t tx_phy) = 0;
    // the peripheral closed the connection event
    virtual void event_closed(vtime t) = 0;
};

// ------------------------------------------------------------------------------------------------ what the trace checkers see
struct event_flags {
    bool unacknowledged_data, last_received_not_empty, last_transmitted_not_empty, last_received_had_more_data, pending_outgoing_data, error_occured;
    event_flags() : unacknowledged_data(false), last_received_not_empty(false), last_transmitted_not_empty(false),
                    last_received_had_more_data(false), pending_outgoing_data(false), error_occured(false) {}
    unsigned bits() const {
        return (unacknowledged_data ? 1u : 0) | (last_received_not_empty ? 2u : 0) | (last_transmitted_not_empty ? 4u : 0) |
               (last_received_had_more_data ? 8u : 0) | (pending_outgoing_data ? 16u : 0) | (error_occured ? 32u : 0);
    }
};

enum outcome_t { o_pending, o_heard, o_timeout, o_crc_first, o_in_past, o_disarmed };
inline const char* outcome_name(outcome_t o) {
    static const char* n[] = { "pending", "end_event", "timeout", "timeout(crc error on first pdu)", "timeout(scheduled in the past)", "disarmed" };
    return n[o];
}

struct sched_rec {
    unsigned long seq;           // running number of the schedule_connection_event call within the process
    vtime t_call;                // virtual time of the call
    vtime t0;                    // T0 the relative times refer to (last anchor / end of CONNECT_IND)
    unsigned channel;
    std::uint32_t start, end, interval;   // as passed by the link layer (micro seconds)
    unsigned cnt;                // link layer's connection_event_counter() at the call
    unsigned chidx;              // link layer's current_channel_index() at the call
    bool pending_tx;             // link layer's pending_outgoing_data_available() at the call
    std::uint8_t rx_phy, tx_phy; // PHYs configured by radio_set_phy() at the call
    long anchor_event;           // central event number that produced T0 (-1: the CONNECT_IND)
    unsigned anchor_cnt;         // link layer counter of the scheduling record that produced T0 (0xffff for the CONNECT_IND)
    bool in_past;
    outcome_t outcome;
    long heard_event;            // central event number heard (o_heard / o_crc_first)
    vtime t_anchor;              // start of the first valid PDU of the central (o_heard): the new T0
    vtime t_outcome;
    event_flags flags;           // as reported to end_event()
    unsigned exchanges;
    bool rx_buffer_missing;      // at least one PDU of the central could not be stored (receive ring full)
    sched_rec() : seq(0), t_call(0), t0(0), channel(0), start(0), end(0), interval(0), cnt(0), chidx(0), pending_tx(false), rx_phy(1), tx_phy(1), anchor_event(-1),
                  anchor_cnt(0xffff), in_past(false), outcome(o_pending), heard_event(-1), t_anchor(0), t_outcome(0), exchanges(0), rx_buffer_missing(false) {}
};

struct observer {
    virtual ~observer() {}
    virtual void on_advertising(vtime, unsigned /*channel*/) {}
    virtual void on_connect_ind(vtime /*t_end*/, const std::vector<std::uint8_t>&) {}
    virtual void on_schedule(const sched_rec&) {}                   // called from within schedule_connection_event()
    virtual void on_outcome(const sched_rec&) {}                    // called immediately BEFORE timeout()/end_event() is invoked
    virtual void on_callback_returned(const sched_rec&) {}          // after timeout()/end_event() returned
    virtual void on_disarm(vtime, bool /*success*/, std::uint32_t /*returned*/, const sched_rec&) {}
    virtual void on_cancel_request(vtime) {}
    virtual void on_set_phy(vtime, std::uint8_t /*rx*/, std::uint8_t /*tx*/, unsigned /*cnt*/) {}
    virtual void on_delivered(vtime, long /*central_event*/, const std::vector<std::uint8_t>& /*pdu*/, bool /*stored*/) {}
    virtual void on_transmitted(vtime, long /*central_event*/, const std::vector<std::uint8_t>& /*pdu*/) {}
};

// ------------------------------------------------------------------------------------------------ non-template part
struct radio_options {
    unsigned max_exchanges;        // PDUs pairs per connection event (1 = like the nRF52 binding, which clears MD)
    unsigned disarm_margin_us;     // a scheduled event can be disarmed if it starts later than now + margin
    unsigned setup_margin_us;      // schedule_connection_event() treats start < now + margin as "already in the past"
    unsigned fuzz_flags_permille;  // probability to OR an additional flag into the reported connection_event_events
    radio_options() : max_exchanges(1), disarm_margin_us(300), setup_margin_us(0), fuzz_flags_permille(0) {}
};

class radio_core {
public:
    radio_core()
        : now_(0), t0_(0), air_(nullptr), obs_(nullptr), access_address_(0), crc_init_(0), rx_phy_(1), tx_phy_(1), adv_pending_(false),
          conn_pending_(false), cancel_requested_(false), wake_ups_(0), seq_(0), anchor_event_(-1), anchor_cnt_(0xffff), pause_at_(-1),
          paused_(false), idle_runs_(0), fuzz_state_(0x9e3779b97f4a7c15ull), adv_channel_(0), adv_when_(0), adv_events_(0), timer_set_(false)
    {
    }

    void attach(air* a, observer* o, const radio_options& opt, std::uint64_t fuzz_seed) {
        air_ = a; obs_ = o; opt_ = opt; fuzz_state_ = fuzz_seed | 1;
    }

    vtime now() const { return now_; }
    void advance_to(vtime t) { if (t > now_) now_ = t; }
    bool connection_event_pending() const { return conn_pending_; }
    bool advertising_pending() const { return adv_pending_; }
    const sched_rec& current() const { return cur_; }
    vtime pending_window_start() const { return cur_.t0 + cur_.start; }
    // ask run() to return (without doing anything else) as soon as virtual time `t` is reached before the pending event opens
    void pause_at(vtime t) { pause_at_ = t; }
    bool paused() const { return paused_; }
    unsigned long idle_runs() const { return idle_runs_; }
    unsigned long advertising_events() const { return adv_events_; }
    std::uint8_t rx_phy() const { return rx_phy_; }
    std::uint8_t tx_phy() const { return tx_phy_; }

    // ---- log (ring of the last lines, goes into every violation's detail)
    void log(const std::string& line) {
        char b[32];
        std::snprintf(b, sizeof b, "t=%lld ", now_);
        log_.push_back(std::string(b) + line);
        if (echo_) std::fprintf(stderr, "%s%s\n", b, line.c_str());
        if (log_.size() > 48) log_.pop_front();
    }
    std::string log_excerpt(std::size_t lines = 30) const {
        std::string r;
        std::size_t from = log_.size() > lines ? log_.size() - lines : 0;
        for (std::size_t i = from; i < log_.size(); ++i) { r += log_[i]; r += " | "; }
        return r;
    }
    void clear_log() { log_.clear(); }
    void echo_log(bool b) { echo_ = b; }

    // ---- parts of the scheduled_radio interface that need no access to the buffers
    void set_access_address_and_crc_init(std::uint32_t access_address, std::uint32_t crc_init) {
        access_address_ = access_address; crc_init_ = crc_init;
    }
    std::uint32_t static_random_address_seed() const { return 0x47110815; }
    void wake_up() { ++wake_ups_; }
    void request_event_cancelation() {
        cancel_requested_ = true;
        if (obs_) obs_->on_cancel_request(now_);
        log("request_event_cancelation()");
    }
    bool schedule_synchronized_user_timer(bluetoe::link_layer::delta_time, bluetoe::link_layer::delta_time) { timer_set_ = true; return true; }
    bool cancel_synchronized_user_timer() { const bool r = timer_set_; timer_set_ = false; return r; }

    void increment_receive_packet_counter() {}
    void increment_transmit_packet_counter() {}

    class lock_guard {
    public:
        lock_guard() {}
        ~lock_guard() {}
        lock_guard(const lock_guard&) = delete;
        lock_guard& operator=(const lock_guard&) = delete;
    };

    static constexpr std::size_t radio_maximum_white_list_entries = 0;
    static constexpr bool hardware_supports_encryption = false;
    static constexpr bool hardware_supports_2mbit = true;
    static constexpr bool hardware_supports_synchronized_user_timer = true;
    static constexpr std::size_t radio_package_overhead = 0;
    static constexpr unsigned connection_event_setup_time_us = 100u;

protected:
    unsigned fuzz_below(unsigned n) {
        fuzz_state_ ^= fuzz_state_ << 13; fuzz_state_ ^= fuzz_state_ >> 7; fuzz_state_ ^= fuzz_state_ << 17;
        return static_cast<unsigned>((fuzz_state_ >> 20) % n);
    }

    vtime now_;
    vtime t0_;
    air* air_;
    observer* obs_;
    radio_options opt_;
    std::uint32_t access_address_, crc_init_;
    std::uint8_t rx_phy_, tx_phy_;
    bool adv_pending_, conn_pending_, cancel_requested_;
    int wake_ups_;
    unsigned long seq_;
    long anchor_event_;
    unsigned anchor_cnt_;
    vtime pause_at_;
    bool paused_;
    unsigned long idle_runs_;
    std::uint64_t fuzz_state_;
    sched_rec cur_;
    // advertising
    unsigned adv_channel_;
    vtime adv_when_;
    std::vector<std::uint8_t> adv_pdu_;
    bluetoe::link_layer::read_buffer adv_receive_;
    unsigned long adv_events_;
    bool timer_set_;
    std::deque<std::string> log_;
    bool echo_ = false;
};

// ------------------------------------------------------------------------------------------------ the radio
template <std::size_t TransmitSize, std::size_t ReceiveSize, typename CallBack>
class radio : public radio_core,
              public bluetoe::link_layer::ll_data_pdu_buffer<TransmitSize, ReceiveSize, radio<TransmitSize, ReceiveSize, CallBack> > {
    typedef bluetoe::link_layer::ll_data_pdu_buffer<TransmitSize, ReceiveSize, radio<TransmitSize, ReceiveSize, CallBack> > buffer_t;
    typedef typename buffer_t::layout layout_t;
    typedef bluetoe::link_layer::delta_time delta_time;

public:
    radio() {}

    using radio_core::lock_guard;

    void schedule_advertisment(unsigned channel, const bluetoe::link_layer::write_buffer& advertising_data,
                               const bluetoe::link_layer::write_buffer& /*response_data*/, delta_time when,
                               const bluetoe::link_layer::read_buffer& receive) {
        adv_pending_ = true;
        conn_pending_ = false;
        adv_channel_ = channel;
        adv_when_ = t0_ + when.usec();
        if (adv_when_ < now_) adv_when_ = now_;
        adv_receive_ = receive;
        // advertising PDUs use the same in-memory layout
        const std::uint16_t header = layout_t::header(advertising_data);
        const std::size_t len = (header >> 8) & 0x3f;
        const std::uint8_t* body = layout_t::body(advertising_data).first;
        adv_pdu_.assign(2 + len, 0);
        adv_pdu_[0] = static_cast<std::uint8_t>(header); adv_pdu_[1] = static_cast<std::uint8_t>(header >> 8);
        for (std::size_t i = 0; i < len; ++i) adv_pdu_[2 + i] = body[i];
    }

    delta_time schedule_connection_event(unsigned channel, delta_time start_receive, delta_time end_receive, delta_time connection_interval) {
        adv_pending_ = false;
        sched_rec r;
        r.seq = ++seq_;
        r.t_call = now_;
        r.t0 = t0_;
        r.channel = channel;
        r.start = start_receive.usec(); r.end = end_receive.usec(); r.interval = connection_interval.usec();
        r.cnt = cb().connection_event_counter();
        r.chidx = cb().current_channel_index();
        r.pending_tx = this->pending_outgoing_data_available();
        r.rx_phy = rx_phy_; r.tx_phy = tx_phy_;
        r.anchor_event = anchor_event_;
        r.anchor_cnt = anchor_cnt_;
        r.in_past = t0_ + static_cast<vtime>(r.start) < now_ + static_cast<vtime>(opt_.setup_margin_us);
        cur_ = r;
        conn_pending_ = true;
        char b[200];
        std::snprintf(b, sizeof b, "schedule_connection_event(ch=%u start=%u end=%u interval=%u) T0=%lld counter=%u chidx=%u pending_tx=%d%s",
                      channel, r.start, r.end, r.interval, t0_, r.cnt, r.chidx, r.pending_tx ? 1 : 0, r.in_past ? " [in the past]" : "");
        log(b);
        if (obs_) obs_->on_schedule(cur_);
        if (r.in_past) return delta_time();
        return delta_time(static_cast<std::uint32_t>(t0_ + r.start - now_));
    }

    std::pair<bool, delta_time> disarm_connection_event() {
        const bool possible = conn_pending_ && !cur_.in_past && now_ + static_cast<vtime>(opt_.disarm_margin_us) < cur_.t0 + static_cast<vtime>(cur_.start);
        const std::uint32_t ret = static_cast<std::uint32_t>(now_ - t0_ + opt_.disarm_margin_us);
        char b[120];
        std::snprintf(b, sizeof b, "disarm_connection_event() -> %s, %u", possible ? "true" : "false", ret);
        log(b);
        if (possible) {
            conn_pending_ = false;
            cur_.outcome = o_disarmed;
            cur_.t_outcome = now_;
        }
        if (obs_) obs_->on_disarm(now_, possible, ret, cur_);
        return std::pair<bool, delta_time>(possible, delta_time(ret));
    }

    void radio_set_phy(bluetoe::link_layer::phy_ll_encoding::phy_ll_encoding_t receiving_encoding,
                       bluetoe::link_layer::phy_ll_encoding::phy_ll_encoding_t transmiting_encoding) {
        char b[100];
        std::snprintf(b, sizeof b, "radio_set_phy(rx=%u tx=%u) counter=%u", static_cast<unsigned>(receiving_encoding),
                      static_cast<unsigned>(transmiting_encoding), static_cast<unsigned>(cb().connection_event_counter()));
        log(b);
        if (receiving_encoding != bluetoe::link_layer::phy_ll_encoding::le_unchanged_coding) rx_phy_ = receiving_encoding;
        if (transmiting_encoding != bluetoe::link_layer::phy_ll_encoding::le_unchanged_coding) tx_phy_ = transmiting_encoding;
        if (obs_) obs_->on_set_phy(now_, receiving_encoding, transmiting_encoding, cb().connection_event_counter());
    }

    // performs ONE action: a pending cancelation request, a pause, an advertising event or a connection event
    void run() {
        paused_ = false;
        if (wake_ups_) --wake_ups_;
        if (cancel_requested_) {
            cancel_requested_ = false;
            log("-> try_event_cancelation()");
            cb().try_event_cancelation();
            return;
        }
        if (conn_pending_ && pause_at_ >= 0) {
            const vtime opens = cur_.in_past ? now_ : cur_.t0 + static_cast<vtime>(cur_.start);
            const vtime t = pause_at_;
            pause_at_ = -1;
            if (t < opens) {
                if (t > now_) now_ = t;
                paused_ = true;
                return;
            }
        }
        if (adv_pending_) run_advertising();
        else if (conn_pending_) run_connection_event();
        else ++idle_runs_;
    }

private:
    CallBack& cb() { return *static_cast<CallBack*>(this); }

    void run_advertising() {
        adv_pending_ = false;
        ++adv_events_;
        if (adv_when_ > now_) now_ = adv_when_;
        t0_ = now_;
        if (obs_) obs_->on_advertising(now_, adv_channel_);
        std::vector<std::uint8_t> connect_ind;
        const bool answered = air_ && air_->advertising(now_, adv_channel_, adv_pdu_, connect_ind);
        now_ += air_time_us(adv_pdu_.size(), 1);
        if (answered && adv_receive_.size >= layout_t::data_channel_pdu_memory_size(connect_ind.size() - 2)) {
            now_ += t_ifs_us + air_time_us(connect_ind.size(), 1);
            // the end of the CONNECT_IND is the reference of the transmit window (Core Vol 6 Part B 4.5.3); this is T0 now
            t0_ = now_;
            anchor_event_ = -1;
            anchor_cnt_ = 0xffff;
            bluetoe::link_layer::read_buffer rb = adv_receive_;
            layout_t::header(rb, static_cast<std::uint16_t>(connect_ind[0] | (connect_ind[1] << 8)));
            std::uint8_t* body = layout_t::body(rb).first;
            for (std::size_t i = 2; i < connect_ind.size(); ++i) body[i - 2] = connect_ind[i];
            rb.size = layout_t::data_channel_pdu_memory_size(connect_ind.size() - 2);
            log("CONNECT_IND received -> adv_received()");
            if (obs_) obs_->on_connect_ind(now_, connect_ind);
            cb().adv_received(rb);
        } else {
            now_ += t_ifs_us + 200;
            cb().adv_timeout();
        }
    }

    void finish(outcome_t o) {
        cur_.outcome = o;
        cur_.t_outcome = now_;
        char b[160];
        std::snprintf(b, sizeof b, "-> %s counter=%u central_event=%ld flags=0x%02x exchanges=%u", outcome_name(o), cur_.cnt, cur_.heard_event,
                      cur_.flags.bits(), cur_.exchanges);
        log(b);
        const sched_rec done = cur_;     // the callback overwrites cur_ by scheduling the next event
        if (obs_) obs_->on_outcome(done);
        if (o == o_heard) {
            bluetoe::link_layer::connection_event_events e(done.flags.unacknowledged_data, done.flags.last_received_not_empty,
                                                           done.flags.last_transmitted_not_empty, done.flags.last_received_had_more_data,
                                                           done.flags.pending_outgoing_data, done.flags.error_occured);
            cb().end_event(e);
        } else {
            cb().timeout();
        }
        if (obs_) obs_->on_callback_returned(done);
    }

    void run_connection_event() {
        conn_pending_ = false;
        if (cur_.in_past) { finish(o_in_past); return; }
        const vtime ws = cur_.t0 + static_cast<vtime>(cur_.start), we = cur_.t0 + static_cast<vtime>(cur_.end);
        if (ws > now_) now_ = ws;
        const listen_result lr = air_->listen(ws, we, cur_.channel, rx_phy_, access_address_, crc_init_);
        if (!lr.heard) {
            if (we > now_) now_ = we;
            finish(o_timeout);
            return;
        }
        if (lr.t > now_) now_ = lr.t;
        cur_.heard_event = lr.central_event;
        event_flags f;
        bool first = true;
        bool last_tx_not_empty_unacked = false;
        for (;;) {
            const air_pdu p = air_->central_transmit(now_);
            now_ += air_time_us(p.bytes.size(), rx_phy_);
            if (!p.crc_ok) {
                if (first) {
                    // nothing valid received: no anchor, the link layer is told "timeout"
                    air_->event_closed(now_);
                    finish(o_crc_first);
                    return;
                }
                f.error_occured = true;
                break;
            }
            if (first) {
                // the anchor is the start of the first PDU of the central
                t0_ = lr.t;
                cur_.t_anchor = lr.t;
                anchor_event_ = lr.central_event;
                anchor_cnt_ = cur_.cnt;
                first = false;
            }
            ++cur_.exchanges;
            const std::size_t payload = p.bytes.size() - 2;
            bluetoe::link_layer::read_buffer rb = this->allocate_receive_buffer();
            bluetoe::link_layer::write_buffer resp;
            const bool storable = rb.size != 0 && layout_t::data_channel_pdu_memory_size(payload) <= rb.size;
            if (storable) {
                layout_t::header(rb, static_cast<std::uint16_t>(p.bytes[0] | (p.bytes[1] << 8)));
                std::uint8_t* body = layout_t::body(rb).first;
                for (std::size_t i = 0; i < payload; ++i) body[i] = p.bytes[2 + i];
                rb.size = layout_t::data_channel_pdu_memory_size(payload);
                if (obs_) obs_->on_delivered(now_, lr.central_event, p.bytes, true);
                resp = this->received(rb);
            } else {
                // all receive buffers in use: the PDU is dropped and not acknowledged (same as the nRF52 binding)
                cur_.rx_buffer_missing = true;
                if (obs_) obs_->on_delivered(now_, lr.central_event, p.bytes, false);
                resp = this->next_transmit();
            }
            if (payload != 0) f.last_received_not_empty = true;
            f.last_received_had_more_data = (p.bytes[0] & 0x10) != 0;

            const std::uint16_t rh = layout_t::header(resp);
            const std::size_t rlen = rh >> 8;
            std::vector<std::uint8_t> out(2 + rlen);
            out[0] = static_cast<std::uint8_t>(rh); out[1] = static_cast<std::uint8_t>(rh >> 8);
            const std::uint8_t* rbody = layout_t::body(resp).first;
            for (std::size_t i = 0; i < rlen; ++i) out[2 + i] = rbody[i];
            if (opt_.max_exchanges <= 1) out[0] = static_cast<std::uint8_t>(out[0] & ~0x10);   // single exchange radio: MD never announced
            if (rlen != 0) { f.last_transmitted_not_empty = true; last_tx_not_empty_unacked = true; }
            now_ += t_ifs_us;
            if (echo_) {
                std::string l = storable ? "  rx " : "  rx(no buffer) ";
                char hb[8];
                for (std::size_t i = 0; i < p.bytes.size(); ++i) { std::snprintf(hb, sizeof hb, "%02x", p.bytes[i]); l += hb; }
                l += "  tx ";
                for (std::size_t i = 0; i < out.size(); ++i) { std::snprintf(hb, sizeof hb, "%02x", out[i]); l += hb; }
                std::fprintf(stderr, "%s\n", l.c_str());
            }
            if (obs_) obs_->on_transmitted(now_, lr.central_event, out);
            const vtime t_resp = now_;
            now_ += air_time_us(out.size(), tx_phy_);
            const bool more = air_->peripheral_transmit(t_resp, out, tx_phy_);
            if (!more || cur_.exchanges >= opt_.max_exchanges) break;
            // the next PDU of the central acknowledges (or not) what was just sent
            last_tx_not_empty_unacked = false;
            now_ += t_ifs_us;
        }
        f.unacknowledged_data = last_tx_not_empty_unacked;
        if (opt_.fuzz_flags_permille && fuzz_below(1000) < opt_.fuzz_flags_permille) {
            switch (fuzz_below(5)) {
            case 0: f.unacknowledged_data = true; break;
            case 1: f.last_received_not_empty = true; break;
            case 2: f.last_transmitted_not_empty = true; break;
            case 3: f.last_received_had_more_data = true; break;
            default: f.pending_outgoing_data = true; break;
            }
        }
        cur_.flags = f;
        air_->event_closed(now_);
        finish(o_heard);
    }
};

} // namespace sim

#endif
