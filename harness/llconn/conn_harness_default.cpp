// link layer option set "default": periperal_latency_default_configuration, 500 ppm local sleep clock, 61/61 byte buffers
#include "llconn/conn_harness.hpp"

llconn::callbacks_t llconn_callbacks;

namespace bl = bluetoe::link_layer;

typedef bl::link_layer<
    llconn::server_t, sim::radio,
    bl::connection_callbacks< llconn::callbacks_t, llconn_callbacks >
> ll_t;

struct traits {
    static const char* name() { return "default"; }
    static const unsigned local_sca_ppm = 500;     // link layer default: sleep_clock_accuracy_ppm< 500 >
    static const unsigned configs = 1;
    // documentation of periperal_latency_default_configuration
    static unsigned features(int) {
        return llconn::F_PENDING | llconn::F_UNACK | llconn::F_RX_NOT_EMPTY | llconn::F_TX_NOT_EMPTY | llconn::F_RX_MD;
    }
    template <class LL> static void select(LL&, int) {}
};

int main(int argc, char** argv) { return llconn::harness_main< ll_t, traits >(argc, argv); }
