// link layer option set "rx_md": peripheral_latency_configuration< listen_if_last_received_had_more_data > alone, 1 ppm
#include "llconn/conn_harness.hpp"

llconn::callbacks_t llconn_callbacks;

namespace bl = bluetoe::link_layer;

typedef bl::link_layer<
    llconn::server_t, sim::radio,
    bl::connection_callbacks< llconn::callbacks_t, llconn_callbacks >,
    bl::peripheral_latency_configuration< bl::peripheral_latency::listen_if_last_received_had_more_data >,
    bl::sleep_clock_accuracy_ppm< 1 >,
    bl::buffer_sizes< 122, 61 >
> ll_t;

struct traits {
    static const char* name() { return "rx_md"; }
    static const unsigned local_sca_ppm = 1;
    static const unsigned configs = 1;
    // listen conditions per selectable configuration, written from the documentation in bluetoe/peripheral_latency.hpp
    static unsigned features(int cfg) {
        (void)cfg; return llconn::F_RX_MD;
    }
    template <class LL> static void select(LL& ll, int cfg) {
        (void)ll; (void)cfg;
    }
};

int main(int argc, char** argv) { return llconn::harness_main< ll_t, traits >(argc, argv); }
