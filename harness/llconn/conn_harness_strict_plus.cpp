// link layer option set "strict_plus": peripheral_latency_strict_plus, 250 ppm, 100/100 byte buffers
#include "llconn/conn_harness.hpp"

llconn::callbacks_t llconn_callbacks;

namespace bl = bluetoe::link_layer;

typedef bl::link_layer<
    llconn::server_t, sim::radio,
    bl::connection_callbacks< llconn::callbacks_t, llconn_callbacks >,
    bl::peripheral_latency_strict_plus,
    bl::sleep_clock_accuracy_ppm< 250 >,
    bl::buffer_sizes< 100, 100 >
> ll_t;

struct traits {
    static const char* name() { return "strict_plus"; }
    static const unsigned local_sca_ppm = 250;
    static const unsigned configs = 1;
    // listen conditions per selectable configuration, written from the documentation in bluetoe/peripheral_latency.hpp
    static unsigned features(int cfg) {
        (void)cfg; return llconn::F_RX_NOT_EMPTY | llconn::F_RX_MD;
    }
    template <class LL> static void select(LL& ll, int cfg) {
        (void)ll; (void)cfg;
    }
};

int main(int argc, char** argv) { return llconn::harness_main< ll_t, traits >(argc, argv); }
