// link layer option set "none": peripheral_latency_configuration<> (no listen option: only errors force listening), 50 ppm, 200/100 byte buffers
#include "llconn/conn_harness.hpp"

llconn::callbacks_t llconn_callbacks;

namespace bl = bluetoe::link_layer;

typedef bl::link_layer<
    llconn::server_t, sim::radio,
    bl::connection_callbacks< llconn::callbacks_t, llconn_callbacks >,
    bl::peripheral_latency_configuration<>,
    bl::sleep_clock_accuracy_ppm< 50 >,
    bl::buffer_sizes< 200, 100 >
> ll_t;

struct traits {
    static const char* name() { return "none"; }
    static const unsigned local_sca_ppm = 50;
    static const unsigned configs = 1;
    // listen conditions per selectable configuration, written from the documentation in bluetoe/peripheral_latency.hpp
    static unsigned features(int cfg) {
        (void)cfg; return 0u;
    }
    template <class LL> static void select(LL& ll, int cfg) {
        (void)ll; (void)cfg;
    }
};

int main(int argc, char** argv) { return llconn::harness_main< ll_t, traits >(argc, argv); }
