// Trace checkers for C20 (end to end), C21, C22, C23 over what the simulated radio logs, judged against the central model's
// ground truth.  Oracles are written from Core Vol 6 Part B (4.5.1-4.5.3 timing, 4.5.8.2 CSA#1, 5.1.1/5.1.2/5.1.10 instants,
// 4.5.2 supervision) and the Bluetoe documentation of peripheral_latency / scheduled_radio; no expression of the code under
// test is used.
#ifndef VERIF_LLCONN_MONITORS_HPP
#define VERIF_LLCONN_MONITORS_HPP

#include "common/verif.hpp"
#include "llconn/sim_radio.hpp"
#include "llconn/central.hpp"

#include <map>
#include <string>
#include <vector>

namespace llconn {

using sim::vtime;

// listen conditions a peripheral_latency_configuration can contain (documentation of bluetoe/peripheral_latency.hpp)
enum feature_bits { F_PENDING = 1, F_UNACK = 2, F_RX_NOT_EMPTY = 4, F_TX_NOT_EMPTY = 8, F_RX_MD = 16, F_ALWAYS = 32 };

inline std::string features_str(unsigned f) {
    std::string s;
    if (f & F_PENDING) s += "listen_if_pending_transmit_data ";
    if (f & F_UNACK) s += "listen_if_unacknowledged_data ";
    if (f & F_RX_NOT_EMPTY) s += "listen_if_last_received_not_empty ";
    if (f & F_TX_NOT_EMPTY) s += "listen_if_last_transmitted_not_empty ";
    if (f & F_RX_MD) s += "listen_if_last_received_had_more_data ";
    if (f & F_ALWAYS) s += "listen_always ";
    if (s.empty()) s = "(no listen option)";
    return s;
}

class monitor : public sim::observer {
public:
    sim::central* c;
    sim::radio_core* radio;
    unsigned local_ppm;
    unsigned features;                 // listen conditions of the configuration currently selected
    std::string config;                // option set name
    std::string scenario;              // everything needed to reproduce the scenario
    unsigned long long step;
    long tol;                          // micro seconds of tolerance for the fixed point ppm arithmetic
    bool judge_stall;

    // ---- per connection state
    bool connect_seen, established, closed, attempt_timed_out, connected_cb;
    int closed_reason;
    vtime t_closed;
    std::vector<std::string> connect_defects;
    vtime t_connect_end, t_last_valid;
    bool any_valid;
    bool have_prev;
    sim::sched_rec prev;
    long prev_K;
    long last_completed_K;
    unsigned establishment_windows;
    unsigned heard_count;
    unsigned long pullbacks, pullbacks_failed, cancel_requests;
    std::vector<sim::sched_rec> recs;
    std::vector<long> rec_K;
    struct phy_call { vtime t; std::uint8_t rx, tx; unsigned cnt; };
    std::vector<phy_call> phy_calls;
    struct changed_cb { unsigned cnt; unsigned interval, latency, timeout; vtime t; };
    std::vector<changed_cb> changed;
    struct data_item { unsigned long id; long acc_event; unsigned acc_hidx; long proc_event; unsigned proc_hidx; bool processed; bool request; };
    std::map<unsigned long, data_item> data;
    std::vector<unsigned long> processed_order;
    struct proc_obs { long c_rx; unsigned c_rx_hidx; bool rx_ring_full_while_pending; unsigned data_while_pending; };
    std::vector<proc_obs> pobs;
    unsigned ring_full_events;
    bool desynchronised, ring_deadlock;
    unsigned consecutive_in_past;

    monitor() : c(nullptr), radio(nullptr), local_ppm(500), features(0), step(0), tol(2), judge_stall(true) { reset_connection(); }

    void reset_connection() {
        connect_seen = established = closed = attempt_timed_out = connected_cb = false;
        closed_reason = -1; t_closed = 0;
        connect_defects.clear();
        t_connect_end = t_last_valid = 0; any_valid = false;
        have_prev = false; prev_K = -1; last_completed_K = -1;
        establishment_windows = 0; heard_count = 0; pullbacks = pullbacks_failed = cancel_requests = 0;
        recs.clear(); rec_K.clear(); phy_calls.clear(); changed.clear(); data.clear(); processed_order.clear(); pobs.clear();
        consecutive_in_past = 0;
        ring_full_events = 0; desynchronised = false; ring_deadlock = false; stuck_events_ = 0; progress_since_last_event_ = false;
    }

    std::string where() const { return "config=" + config + " scenario={" + scenario + "} log: " + (radio ? radio->log_excerpt() : std::string()); }

    void viol(const char* prop, const std::string& key, const std::string& what) { verif::violation(prop, key, what + " || " + where(), step); }

    // central event number the link layer aims at: events since the last anchor, counted by the link layer's 16 bit counter
    static long K_of(const sim::sched_rec& r) {
        long k = r.anchor_event + static_cast<long>((r.cnt - r.anchor_cnt) & 0xffffu);
        if (k < 0) k += 65536;        // 65536 events without any anchor since the CONNECT_IND
        return k;
    }

    // ------------------------------------------------------------------------------------------ radio observer
    void on_connect_ind(vtime t_end, const std::vector<std::uint8_t>&) override {
        reset_connection();
        connect_seen = true;
        t_connect_end = t_end;
        t_last_valid = t_end;
        connect_defects = sim::connect_ind_defects(c->params);
        verif::mon("C22").cls(connect_defects.empty() ? "connect_ind_valid" : "connect_ind_invalid");
    }

    void on_advertising(vtime, unsigned) override {}

    void on_schedule(const sim::sched_rec& r) override {
        if (!connect_seen) return;
        verif::monitor& M20 = verif::mon("C20");
        verif::monitor& M22 = verif::mon("C22");
        verif::monitor& M23 = verif::mon("C23");
        const long K = K_of(r);
        char kb[160];
        std::snprintf(kb, sizeof kb, "schedule #%lu counter=%u -> central event %ld (anchor event %ld counter %u) ", r.seq, r.cnt, K, r.anchor_event, r.anchor_cnt);
        const std::string head = kb;

        if (!established) {
            established = true;
            // ---- C22: a connection is only established from a CONNECT_IND with valid parameters
            M22.eval();
            if (!connect_defects.empty()) {
                // timing parameters are C22's; hop / channel map are C20's
                for (std::size_t i = 0; i < connect_defects.size(); ++i) {
                    const std::string& d = connect_defects[i];
                    const bool c20 = d == "hop_out_of_range" || d == "fewer_than_two_channels";
                    viol(c20 ? "C20" : "C22", std::string(c20 ? "C20:e2e:connection_from_invalid_connect_ind:" : "C22:connect:established_from_invalid:") + d,
                         "first connection event scheduled after a CONNECT_IND that violates Core Vol 6 Part B 2.3.3.1/4.5.x: " + d + " (" + params_str() + ")");
                }
            }
        }
        recs.push_back(r); rec_K.push_back(K);
        // a connection that should not exist has no ground truth to be judged against
        if (!connect_defects.empty()) return;
        // the central switched to new parameters at an instant the peripheral could not know of (indication lost until then):
        // from there on the two are out of step by construction of the scenario, nothing to judge
        if (!ground_truth_known(K)) { desynchronised = true; have_prev = false; verif::mon("C22").count("events_not_judged_central_switched_before_indication_arrived"); return; }

        // ---- C20 end to end: channel == CSA#1( map in force at that event, hop, event )
        if (connect_defects.empty() || (!has_defect("hop_out_of_range") && !has_defect("fewer_than_two_channels"))) {
            const sim::event_info& inf = c->info(K);
            const unsigned expect = csa1::data_channel(inf.map, c->params.hop, static_cast<unsigned long>(K));
            M20.eval();
            const bool remapped = !csa1::used(inf.map, csa1::unmapped_channel(c->params.hop, static_cast<unsigned long>(K)));
            const bool updated = inf.map != (c->params.map & 0x1fffffffffull);
            M20.cls(remapped ? "e2e_remapped_event" : "e2e_unmapped_used_event");
            if (updated) M20.cls("e2e_after_channel_map_update");
            if (r.cnt < 40 && K > 60000) M20.cls("e2e_after_counter_wrap");
            std::uint64_t h = verif::hstr("e2e"); h = verif::mix(h, csa1::num_used(inf.map)); h = verif::mix(h, c->params.hop);
            h = verif::mix(h, static_cast<unsigned long>(K) % 37); h = verif::mix(h, remapped); h = verif::mix(h, updated);
            M20.nontrivial(h);
            if (r.channel != expect) {
                const bool unused = !csa1::used(inf.map, r.channel);
                viol("C20", std::string("C20:e2e:") + (unused ? "unused_channel_scheduled" : "channel_mismatch") + (updated ? ":after_map_update" : ""),
                     head + "channel passed to schedule_connection_event=" + std::to_string(r.channel) + " expected CSA#1(map=0x" + hex64(inf.map) +
                         ", hop=" + std::to_string(c->params.hop) + ", event=" + std::to_string(K) + ")=" + std::to_string(expect));
            }
        }

        // ---- C22: window position and width
        if (!r.in_past) {
            unsigned long long E1 = 0, E2 = 0;
            c->nominal_span(r.anchor_event, K, E1, E2);
            const unsigned ppm = c->combined_sca_ppm(local_ppm);
            const unsigned long long w1 = E1 * ppm / 1000000ull, w2 = E2 * ppm / 1000000ull;
            const long long req_start = static_cast<long long>(E1) - static_cast<long long>(w1);
            const long long req_end = static_cast<long long>(E2 + w2);
            const bool windowed = E2 != E1;
            const char* site = windowed ? (r.anchor_event < 0 ? "after_connect_ind" : "after_update") : "steady";
            M22.eval(2);
            M22.cls(std::string("window_") + site);
            {
                const unsigned long long elapsed_class = E1 < 20000 ? 0 : (E1 < 200000 ? 1 : (E1 < 2000000 ? 2 : 3));
                std::uint64_t h = verif::hstr(site); h = verif::mix(h, ppm); h = verif::mix(h, elapsed_class); h = verif::mix(h, K - r.anchor_event > 1);
                h = verif::mix(h, c->info(K).interval);
                M22.nontrivial(h);
            }
            if (static_cast<long long>(r.start) > req_start + tol)
                viol("C22", std::string("C22:window:opens_too_late:") + site,
                     head + "start_receive=" + std::to_string(r.start) + " but the central may transmit as early as " + std::to_string(E1) + " - " +
                         std::to_string(ppm) + "ppm*" + std::to_string(E1) + "=" + std::to_string(req_start) + " us after T0");
            if (static_cast<long long>(r.end) < req_end - tol)
                viol("C22", std::string("C22:window:closes_too_early:") + site,
                     head + "end_receive=" + std::to_string(r.end) + " but the central may transmit as late as " + std::to_string(E2) + " + " +
                         std::to_string(ppm) + "ppm*" + std::to_string(E2) + "=" + std::to_string(req_end) + " us after T0");
            if (!windowed) {
                const long long centre2 = static_cast<long long>(r.start) + static_cast<long long>(r.end);     // 2 x centre
                M22.eval(); M23.eval();
                if (centre2 > 2 * (static_cast<long long>(E1) + tol) || centre2 < 2 * (static_cast<long long>(E1) - tol)) {
                    const std::string what = head + "window centre=" + std::to_string(centre2 / 2) + " us after T0, but " +
                                             std::to_string(K - r.anchor_event) + " connection interval(s) after the last anchor are " + std::to_string(E1) + " us";
                    viol("C22", "C22:window:centre_not_at_whole_intervals", what);
                    viol("C23", "C23:conservation:time_to_next_event_differs_from_counter_advance", what);
                }
            }
            M22.eval();
            if (r.interval != c->info(K).interval * 1250u)
                viol("C22", "C22:schedule:connection_interval_argument", head + "connection_interval passed=" + std::to_string(r.interval) +
                         " in force at that event=" + std::to_string(c->info(K).interval * 1250u));
        } else {
            M22.count("scheduled_in_the_past");
        }

        // ---- C23: relation to the previous scheduling record
        if (have_prev) {
            const int dcnt = static_cast<std::int16_t>(static_cast<std::uint16_t>(r.cnt - prev.cnt));
            const int didx = (static_cast<int>(r.chidx) - static_cast<int>(prev.chidx) + 37 * 4) % 37;
            M23.eval();
            if (didx != ((dcnt % 37) + 37) % 37)
                viol("C23", "C23:conservation:channel_index_not_advanced_with_counter",
                     head + "counter moved by " + std::to_string(dcnt) + " but channel index moved from " + std::to_string(prev.chidx) + " to " + std::to_string(r.chidx));
            const unsigned latency = c->info(prev_K).latency;
            std::uint64_t h = verif::hstr("c23"); h = verif::mix(h, features); h = verif::mix(h, prev.outcome); h = verif::mix(h, prev.flags.bits());
            h = verif::mix(h, prev.pending_tx); h = verif::mix(h, latency < 4 ? latency : (latency < 50 ? 4 : 5)); h = verif::mix(h, dcnt < 3 ? dcnt + 3 : 6);
            if (latency > 0 || prev.outcome == sim::o_disarmed) M23.nontrivial(h);
            if (prev.outcome == sim::o_heard) {
                M23.eval(2);
                if (dcnt < 1)
                    viol("C23", "C23:conservation:counter_not_advanced_after_event", head + "previous counter=" + std::to_string(prev.cnt));
                if (dcnt > static_cast<int>(latency) + 1)
                    viol("C23", "C23:skip:more_than_peripheral_latency",
                         head + "skips " + std::to_string(dcnt - 1) + " events, connPeripheralLatency in force=" + std::to_string(latency));
                const char* cond = nullptr;
                if (prev.flags.error_occured) cond = "error_occured";
                else if (features & F_ALWAYS) cond = "listen_always";
                else if ((features & F_UNACK) && prev.flags.unacknowledged_data) cond = "unacknowledged_data";
                else if ((features & F_RX_NOT_EMPTY) && prev.flags.last_received_not_empty) cond = "last_received_not_empty";
                else if ((features & F_TX_NOT_EMPTY) && prev.flags.last_transmitted_not_empty) cond = "last_transmitted_not_empty";
                else if ((features & F_RX_MD) && prev.flags.last_received_had_more_data) cond = "last_received_had_more_data";
                else if ((features & F_PENDING) && (prev.flags.pending_outgoing_data || r.pending_tx)) cond = "pending_transmit_data";
                if (cond) {
                    M23.cls(std::string("listen_condition_") + cond);
                    if (dcnt != 1)
                        viol("C23", std::string("C23:listen:condition_ignored:") + cond,
                             head + "skips " + std::to_string(dcnt - 1) + " event(s) although '" + cond + "' held at the previous event (flags=0x" +
                                 hex64(prev.flags.bits()) + " pending_tx=" + (r.pending_tx ? "1" : "0") + " configuration: " + features_str(features) + ")");
                } else {
                    M23.cls(dcnt > 1 ? "skipped_events" : (latency ? "listened_without_condition" : "latency_zero"));
                    if (dcnt > 1 && dcnt == static_cast<int>(latency) + 1) M23.cls("skipped_full_latency");
                }
            } else if (prev.outcome == sim::o_timeout || prev.outcome == sim::o_crc_first || prev.outcome == sim::o_in_past) {
                M23.eval();
                M23.cls("after_timeout");
                if (dcnt != 1)
                    viol("C23", "C23:listen:event_after_timeout_not_next",
                         head + "previous event (counter " + std::to_string(prev.cnt) + ") ended with " + sim::outcome_name(prev.outcome) + " but the counter moved by " + std::to_string(dcnt));
            } else if (prev.outcome == sim::o_disarmed) {
                M23.eval(3);
                M23.cls("pull_back");
                if (dcnt > 0)
                    viol("C23", "C23:pullback:moved_later", head + "replaces disarmed event with counter " + std::to_string(prev.cnt));
                if (K <= last_completed_K)
                    viol("C23", "C23:pullback:moved_to_completed_event", head + "but event " + std::to_string(last_completed_K) + " already took place");
                unsigned long long E1 = 0, E2 = 0;
                c->nominal_span(r.anchor_event, K, E1, E2);
                if (r.t0 + static_cast<vtime>(E1) < r.t_call)
                    viol("C23", "C23:pullback:moved_before_now", head + "nominal anchor " + std::to_string(r.t0 + static_cast<vtime>(E1)) + " is before now=" + std::to_string(r.t_call));
                if (dcnt < 0) M23.cls("pull_back_moved_earlier");
                if (r.in_past) M23.count("pull_back_landed_in_setup_margin");
            }
        }
        have_prev = true; prev = r; prev_K = K;
    }

    // false if the central applied a procedure at an instant <= K although the peripheral had not stored the indication before that instant
    bool ground_truth_known(long K) const {
        const std::vector<sim::procedure>& ps = c->procedures();
        for (std::size_t i = 0; i < ps.size(); ++i) {
            if (!ps[i].central_applies || ps[i].tx_event < 0 || ps[i].instant > K) continue;
            if (i >= pobs.size() || pobs[i].c_rx < 0 || pobs[i].c_rx >= ps[i].instant) return false;
        }
        return true;
    }

    void on_outcome(const sim::sched_rec& r) override {
        if (!connect_seen || !connect_defects.empty()) return;
        consecutive_in_past = r.outcome == sim::o_in_past ? consecutive_in_past + 1 : 0;
        if (!any_valid && (r.outcome == sim::o_timeout || r.outcome == sim::o_crc_first)) ++establishment_windows;
        if (!ground_truth_known(K_of(r))) { if (!recs.empty()) recs.back() = r; if (r.outcome == sim::o_heard) { ++heard_count; t_last_valid = r.t_anchor; any_valid = true; last_completed_K = r.heard_event; } return; }
        if (r.outcome == sim::o_heard) { if (r.rx_buffer_missing && !progress_since_last_event_) ++stuck_events_; else stuck_events_ = 0; if (stuck_events_ >= 8) ring_deadlock = true; progress_since_last_event_ = false; }
        verif::monitor& M22 = verif::mon("C22");
        verif::monitor& M23 = verif::mon("C23");
        const long K = K_of(r);
        prev = r;                    // now with outcome and flags
        if (!recs.empty()) recs.back() = r;
        if (r.rx_buffer_missing) ++ring_full_events;
        if (r.outcome == sim::o_heard || r.outcome == sim::o_crc_first) {
            M23.eval();
            if (r.heard_event != K)
                viol("C23", "C23:conservation:counter_differs_from_elapsed_events",
                     "event with link layer counter " + std::to_string(r.cnt) + " (=> central event " + std::to_string(K) + " counted from the last anchor) took place at central event " + std::to_string(r.heard_event));
        }
        if (r.outcome == sim::o_heard) {
            ++heard_count;
            any_valid = true;
            t_last_valid = r.t_anchor;
            last_completed_K = r.heard_event;
            M22.cls("event_heard");
        } else if (r.outcome == sim::o_timeout) {
            last_completed_K = K > last_completed_K ? K : last_completed_K;
            M22.cls("event_missed");
            // operational part of the window check: a central inside its declared accuracy must be heard
            const std::string& why = c->last_miss_reason();
            M22.eval();
            vtime t_tx = 0;
            const bool known = c->tx_time_of(K, t_tx);
            if (known && !c->fault_injected_at(K) && c->channel_of(K) == r.channel && c->info(K).phy_c2p == radio->rx_phy()) {
                const vtime ws = r.t0 + r.start, we = r.t0 + r.end;
                if (t_tx < ws - tol || t_tx > we + tol)
                    viol("C22", std::string("C22:window:central_within_accuracy_not_heard:") + (t_tx < ws ? "early" : "late"),
                         "central event " + std::to_string(K) + " transmitted at " + std::to_string(t_tx) + " (drift " + std::to_string(c->drift_ppm()) +
                             " ppm, declared accuracy central+local=" + std::to_string(c->combined_sca_ppm(local_ppm)) + " ppm) outside the window [" +
                             std::to_string(ws) + "," + std::to_string(we) + "] " + why);
            }
        } else if (r.outcome == sim::o_in_past || r.outcome == sim::o_crc_first) {
            last_completed_K = K > last_completed_K ? K : last_completed_K;
        }
    }


    // the application notifies while the peripheral sleeps towards the planned central event `planned`
    void note_notify_in_sleep(long planned) {
        const char* c = instant_of_pending_procedure(planned) == planned ? "notify_while_sleeping_to_instant_event"
                        : (instant_of_pending_procedure(planned) >= 0 ? "notify_while_sleeping_with_pending_procedure" : "notify_while_sleeping");
        verif::mon("C21").cls(c); verif::mon("C22").cls(c); verif::mon("C23").cls(c);
    }
    // instant of a procedure the peripheral has stored and whose instant is not before event K (-1: none)
    long instant_of_pending_procedure(long K) const {
        const std::vector<sim::procedure>& ps = c->procedures();
        for (std::size_t i = 0; i < ps.size() && i < pobs.size(); ++i)
            if (pobs[i].c_rx >= 0 && ps[i].central_applies && ps[i].instant >= K && pobs[i].c_rx < ps[i].instant) return ps[i].instant;
        return -1;
    }

    void on_disarm(vtime, bool success, std::uint32_t, const sim::sched_rec& r) override {
        if (!connect_seen) return;
        if (success) {
            const long K = K_of(r);
            const long inst = instant_of_pending_procedure(K);
            const char* c = inst == K ? "pull_back_of_instant_event" : (inst >= 0 ? "pull_back_while_procedure_pending" : nullptr);
            if (c) { verif::mon("C21").cls(c); verif::mon("C22").cls(c); verif::mon("C23").cls(c); }
        } else if (instant_of_pending_procedure(K_of(r)) == K_of(r)) {
            verif::mon("C21").cls("disarm_of_instant_event_refused"); verif::mon("C22").cls("disarm_of_instant_event_refused"); verif::mon("C23").cls("disarm_of_instant_event_refused");
        }
        if (success) { ++pullbacks; prev = r; if (!recs.empty()) recs.back() = r; verif::mon("C23").count("disarmed_events"); }
        else { ++pullbacks_failed; verif::mon("C23").count("disarm_refused"); }
    }
    void on_cancel_request(vtime) override { ++cancel_requests; verif::mon("C23").count("request_event_cancelation"); }

    void on_set_phy(vtime t, std::uint8_t rx, std::uint8_t tx, unsigned cnt) override {
        phy_call p; p.t = t; p.rx = rx; p.tx = tx; p.cnt = cnt;
        phy_calls.push_back(p);
    }

    void on_delivered(vtime t, long central_event, const std::vector<std::uint8_t>& pdu, bool stored) override {
        if (!connect_seen) return;
        if (!any_valid_packet_yet_) any_valid_packet_yet_ = true;
        (void)t;
        const unsigned llid = pdu[0] & 3;
        if (llid == 3 && pdu.size() >= 5 && stored) {
            // control PDU with an instant?  match it with the central's procedures by opcode and instant
            const std::vector<sim::procedure>& ps = c->procedures();
            if (pobs.size() < ps.size()) { proc_obs e; e.c_rx = -1; e.c_rx_hidx = 0; e.rx_ring_full_while_pending = false; e.data_while_pending = 0; pobs.resize(ps.size(), e); }
            for (std::size_t i = 0; i < ps.size(); ++i) {
                const sim::procedure& p = ps[i];
                if (p.tx_event < 0 || pobs[i].c_rx >= 0) continue;
                const std::uint8_t op = p.kind == sim::procedure::conn_update ? 0x00 : (p.kind == sim::procedure::chan_map ? 0x01 : 0x18);
                const unsigned i16 = static_cast<unsigned>(p.instant) & 0xffff;
                if (pdu[2] == op && pdu[pdu.size() - 2] == (i16 & 0xff) && pdu[pdu.size() - 1] == (i16 >> 8)) {
                    pobs[i].c_rx = central_event; pobs[i].c_rx_hidx = heard_count;
                    break;
                }
            }
        } else if (llid == 2 && pdu.size() >= 2 + 7 + 4 && pdu[4] == 4 && pdu[5] == 0 && (pdu[6] == 0x12 || pdu[6] == 0x52)) {
            unsigned long id = 0;
            for (int i = 0; i < 4; ++i) id |= static_cast<unsigned long>(pdu[9 + i]) << (8 * i);
            if (stored && id && data.find(id) == data.end()) {
                data_item d; d.id = id; d.acc_event = central_event; d.acc_hidx = heard_count; d.proc_event = -1; d.proc_hidx = 0; d.processed = false; d.request = pdu[6] == 0x12;
                data[id] = d;
            }
        }
        if (!stored) {
            for (std::size_t i = 0; i < pobs.size(); ++i)
                if (pobs[i].c_rx >= 0) pobs[i].rx_ring_full_while_pending = true;
        }
    }

    // ------------------------------------------------------------------------------------------ link layer / server callbacks
    void server_processed_write(unsigned long id) {
        std::map<unsigned long, data_item>::iterator i = data.find(id);
        if (i == data.end() || i->second.processed) return;
        progress_since_last_event_ = true;
        i->second.processed = true;
        i->second.proc_event = c->last_heard_event();
        i->second.proc_hidx = heard_count;
        processed_order.push_back(id);
    }

    void cb_connection_changed(unsigned cnt, unsigned interval, unsigned latency, unsigned timeout) {
        changed_cb e; e.cnt = cnt; e.interval = interval; e.latency = latency; e.timeout = timeout; e.t = radio->now();
        changed.push_back(e);
    }
    void cb_established() { connected_cb = true; }

    void cb_attempt_timeout() {
        attempt_timed_out = true; closed = true; t_closed = radio->now();
        if (!connect_defects.empty()) return;
        verif::monitor& M22 = verif::mon("C22");
        M22.eval(); M22.cls("establishment_timeout");
        // Core Vol 6 Part B 4.5.2: during establishment the supervision timeout is 6 x connInterval, i.e. the central gets the
        // connection events 0..5 (each inside that time) to be heard
        // The statement speaks of "the supervision timeout"; accepted either way: six connection events were offered, or
        // connSupervisionTimeout passed since the CONNECT_IND.
        const unsigned long long to_us = static_cast<unsigned long long>(c->params.timeout) * 10000ull;
        if (establishment_windows < 6 && radio->now() - t_connect_end + tol < static_cast<vtime>(to_us))
            viol("C22", "C22:supervision:establishment_abandoned_early",
                 "connection attempt given up after listening to " + std::to_string(establishment_windows) + " connection events without a valid packet, " +
                     std::to_string(radio->now() - t_connect_end) + " us after the CONNECT_IND (connSupervisionTimeout=" + std::to_string(to_us) + " us)");
    }

    void cb_closed(unsigned reason) {
        closed = true; closed_reason = static_cast<int>(reason); t_closed = radio->now();
        if (!connect_defects.empty()) return;
        verif::monitor& M22 = verif::mon("C22");
        if (reason == 0x08 && !desynchronised) {
            const long K = prev_K >= 0 ? prev_K : 0;
            const unsigned long long to_us = static_cast<unsigned long long>(c->info(K).timeout) * 10000ull;
            const vtime silent = radio->now() - t_last_valid;
            M22.eval(); M22.cls("supervision_timeout");
            std::uint64_t h = verif::hstr("supervision"); h = verif::mix(h, c->info(K).timeout); h = verif::mix(h, c->info(K).interval); h = verif::mix(h, c->info(K).latency);
            M22.nontrivial(h);
            // the peripheral measures the timeout with its sleep clock and is told about a missed event anywhere inside the (widened)
            // receive window: an uncertainty of the combined clock accuracy over the timeout is inherent
            const vtime clock_uncertainty = static_cast<vtime>(to_us * c->combined_sca_ppm(local_ppm) / 1000000ull);
            if (silent + tol + clock_uncertainty < static_cast<vtime>(to_us))
                viol("C22", pending_invalid_update_ ? "C22:supervision:closed_as_timeout_without_timeout:invalid_update_parameters" : "C22:supervision:premature",
                     "connection closed with reason 0x08 (connection timeout) " + std::to_string(silent) + " us after the last valid packet (anchor at " +
                         std::to_string(t_last_valid) + "), connSupervisionTimeout in force=" + std::to_string(to_us) + " us");
        }
    }
    bool pending_invalid_update_ = false;

    // ------------------------------------------------------------------------------------------ end of scenario: C21
    void finish_scenario(bool ran_to_planned_end) {
        if (!connect_seen || !connect_defects.empty()) return;
        judge_procedures(ran_to_planned_end);
    }

    std::string params_str() const {
        const sim::conn_params& p = c->params;
        char b[260];
        std::snprintf(b, sizeof b, "WinSize=%u WinOffset=%u Interval=%u Latency=%u Timeout=%u ChM=0x%s Hop=%u SCA=%u(%u ppm) local=%u ppm",
                      p.win_size, p.win_offset, p.interval, p.latency, p.timeout, hex64(p.map).c_str(), p.hop, p.sca, sim::sca_ppm_table[p.sca & 7], local_ppm);
        return b;
    }

    static std::string hex64(std::uint64_t v) { char b[24]; std::snprintf(b, sizeof b, "%llx", static_cast<unsigned long long>(v)); return b; }

private:
    bool has_defect(const char* d) const { for (std::size_t i = 0; i < connect_defects.size(); ++i) if (connect_defects[i] == d) return true; return false; }

    long first_record_index_with_K_at_least(long k) const {
        for (std::size_t i = 0; i < rec_K.size(); ++i) if (rec_K[i] >= k) return static_cast<long>(i);
        return -1;
    }
    // number of connection events the peripheral completed (heard) with central event number >= k
    unsigned heard_at_or_after(long k) const {
        unsigned n = 0;
        for (std::size_t i = 0; i < recs.size(); ++i) if (recs[i].outcome == sim::o_heard && recs[i].heard_event >= k) ++n;
        return n;
    }
    unsigned heard_index_of_first_at_or_after(long k) const {
        unsigned n = 0;
        for (std::size_t i = 0; i < recs.size(); ++i) {
            if (recs[i].outcome != sim::o_heard) continue;
            if (recs[i].heard_event >= k) return n;
            ++n;
        }
        return n;
    }

    void judge_procedures(bool ran_to_planned_end) {
        verif::monitor& M = verif::mon("C21");
        const std::vector<sim::procedure>& ps = c->procedures();
        for (std::size_t pi = 0; pi < ps.size(); ++pi) {
            const sim::procedure& p = ps[pi];
            const std::string kind = p.name();
            if (p.tx_event < 0 || pi >= pobs.size() || pobs[pi].c_rx < 0) { M.cls("procedure_never_received"); continue; }
            const long c_rx = pobs[pi].c_rx;
            const long d = p.instant - c_rx;
            const unsigned d16 = static_cast<unsigned>(d) & 0xffff;
            // the event at which the 16 bit counter equals the instant next (meaningful for 0 < d16 < 32767)
            const long inst = c_rx + static_cast<long>(d16);
            const unsigned i16 = static_cast<unsigned>(p.instant) & 0xffff;
            const unsigned latency = c->info(c_rx).latency;
            char hb[260];
            std::snprintf(hb, sizeof hb, "%s indication: instant=%u (central event %ld) first stored by the peripheral at central event %ld (counter %u), instant-counter=%ld (mod 65536: %u), first transmitted at event %ld; ",
                          kind.c_str(), i16, p.instant, c_rx, static_cast<unsigned>(c_rx) & 0xffff, d, d16, p.tx_event);
            const std::string head = hb + carried_str(p) + "; outcome: " + outcome_str() + "; ";

            const char* cls;
            if (d16 == 0) cls = "instant_is_current_event";
            else if (d16 == 1) cls = "instant_is_next_event";
            else if (d16 == 32767) cls = "instant_distance_32767";
            else if (d16 > 32767) cls = "instant_in_the_past";
            else cls = "instant_in_the_future";
            M.cls(cls); M.cls(kind);
            if (latency) M.cls("with_peripheral_latency");
            if (c_rx > p.tx_event) M.cls("lost_before_reception");
            if ((i16 < (static_cast<unsigned>(c_rx) & 0xffff)) && d16 < 32767 && d16 > 0) M.cls("instant_wrapped_16bit");
            if (pobs[pi].rx_ring_full_while_pending) M.cls("receive_ring_full_while_pending");
            unsigned data_pending = 0;
            for (std::map<unsigned long, data_item>::const_iterator di = data.begin(); di != data.end(); ++di)
                if (di->second.acc_event >= c_rx && (d16 > 32767 || d16 == 0 || di->second.acc_event < p.instant)) ++data_pending;
            if (data_pending) M.cls("data_received_while_pending");
            std::uint64_t h = verif::hstr(kind); h = verif::mix(h, verif::hstr(cls)); h = verif::mix(h, latency ? 1 : 0); h = verif::mix(h, c_rx > p.tx_event);
            h = verif::mix(h, data_pending > 3 ? 3 : data_pending); h = verif::mix(h, pobs[pi].rx_ring_full_while_pending); h = verif::mix(h, closed ? closed_reason + 1 : 0);
            h = verif::mix(h, d16 < 8 ? d16 : (d16 < 32767 ? 8 : 9));
            M.nontrivial(h);
            M.eval();

            const bool terminated_instant_passed = closed && closed_reason == 0x28;
            const unsigned heard_after_rx = heard_at_or_after(c_rx + 1);

            if (d16 == 32767) {
                // Core: "in the past"; the statement: applying it at its instant is fine as well. Either accepted, nothing to judge within the scenario.
                M.cls("boundary_not_judged");
                continue;
            }
            if (d16 == 0 || d16 > 32767) {
                // the instant can no longer be met: the only admissible outcome is termination with Instant Passed
                if (terminated_instant_passed) { M.cls("outcome_instant_passed"); continue; }
                // the (separately reported) deadlock of the two PDU rings keeps the link layer from looking at the indication at all
                if (ring_deadlock) { M.cls("not_judged_rx_tx_ring_deadlock"); verif::mon("C21").count("diag_rx_tx_ring_deadlock_scenarios"); continue; }
                if (closed) {
                    viol("C21", "C21:" + kind + ":past_instant:closed_with_other_reason", head + "expected termination with reason 0x28 (Instant Passed)");
                    continue;
                }
                if (heard_after_rx >= 4)
                    viol("C21", "C21:" + kind + ":past_instant:neither_applied_nor_terminated",
                         head + "the link is still up " + std::to_string(heard_after_rx) + " completed connection events later" + stall_str(c_rx));
                else M.cls("not_judged_scenario_too_short");
                continue;
            }
            // ---- 1 <= d16 < 32767: the instant is in the future when the indication arrives
            if (!p.central_applies || inst != p.instant) {
                // a wrapped "past" instant of the generator that the delay before reception turned into a far future one: the central
                // model does not follow it and no scenario runs that long
                M.cls("not_judged_far_future_instant_of_non_following_central");
                continue;
            }
            if (terminated_instant_passed) {
                // termination happened while processing the event last_completed: acceptable only if the instant could not be met any more
                const long e = last_completed_K;
                const long left = p.instant - e;
                // A connection update whose instant is the next event changes the timing of an event that is already planned: the
                // statement leaves open whether that instant "can still be met", either outcome is accepted. A channel map or PHY
                // update only changes channel / PHY of the next event and can be met (seeded change C21_next_event_instant...).
                if (kind == "conn_update" && (d16 == 1 || left <= 1)) { M.cls("outcome_instant_passed"); M.cls("boundary_next_event_terminated"); continue; }
                if (kind != "conn_update" && left <= 1 && d16 != 1) { M.cls("outcome_instant_passed"); M.cls("boundary_next_event_terminated"); continue; }
                if (kind != "conn_update" && d16 == 1) {
                    viol("C21", "C21:" + kind + ":terminated_although_next_event_instant_can_be_met",
                         head + "terminated with Instant Passed although the instant is the event after the one in which the indication was received");
                    continue;
                }
                viol("C21", "C21:" + kind + ":terminated_although_instant_in_future",
                     head + "terminated with Instant Passed at central event " + std::to_string(e) + ", " + std::to_string(left) + " events before the instant");
                continue;
            }
            if (ring_deadlock) { M.cls("not_judged_rx_tx_ring_deadlock"); verif::mon("C21").count("diag_rx_tx_ring_deadlock_scenarios"); continue; }
            // did the connection live to the instant?
            const long idx = first_record_index_with_K_at_least(p.instant);
            if (closed && (idx < 0 || heard_at_or_after(p.instant) == 0)) {
                if (closed_reason == 0x08 && any_fault_before(p.instant + 1)) { M.cls("not_judged_link_lost_by_injected_faults"); continue; }
                if (rec_K.empty() || rec_K.back() < p.instant) {
                    // ended before the instant for another reason
                    if (closed_reason == 0x08 || closed_reason == 0x22)
                        viol("C21", "C21:" + kind + ":link_lost_before_instant" + (data_pending ? ":data_received_while_pending" : ""),
                             head + "connection closed before the instant without injected faults; " + std::to_string(data_pending) + " data PDU(s) were stored in the receive ring while the indication was pending");
                    else M.cls("not_judged_closed_before_instant");
                    continue;
                }
            }
            if (idx < 0) { M.cls("not_judged_scenario_too_short"); continue; }

            // the event with counter == instant must have been listened to
            M.eval();
            bool listened = false, still_pending = false;
            // (a planned instant event may be disarmed, earlier events attended instead, and the instant event planned again)
            for (std::size_t i = static_cast<std::size_t>(idx); i < recs.size(); ++i) {
                if (rec_K[i] != p.instant) continue;
                if (recs[i].outcome != sim::o_disarmed && recs[i].outcome != sim::o_pending) listened = true;
                if (recs[i].outcome == sim::o_pending && i + 1 == recs.size()) still_pending = true;
            }
            if (!listened && still_pending) { M.cls("not_judged_scenario_too_short"); continue; }    // the scenario ended while the instant event was scheduled
            bool planned = false;
            for (std::size_t i = static_cast<std::size_t>(idx); i < recs.size() && !planned; ++i) planned = rec_K[i] == p.instant;
            if (!planned || !listened) {
                viol("C21", "C21:" + kind + ":instant_event_skipped",
                     head + "no connection event with counter == instant was scheduled (next scheduled: central event " + std::to_string(rec_K[static_cast<std::size_t>(idx)]) + ")");
                continue;
            }
            M.cls("instant_event_listened");

            // ---- applied at exactly the instant, with the carried values
            bool ok = true;
            if (p.kind == sim::procedure::conn_update) {
                // (a) connection_changed callback with the carried values while the event `instant` is the next planned one
                const changed_cb* cb = nullptr;
                for (std::size_t i = 0; i < changed.size(); ++i) if (changed[i].t >= recs[0].t_call) { cb = &changed[i]; if (changed[i].cnt == i16) break; }
                M.eval();
                if (!cb) { viol("C21", std::string("C21:conn_update:not_applied_at_instant") + (data_pending ? ":data_received_while_pending" : ""), head + "no connection_changed reported; " + std::to_string(data_pending) + " data PDU(s) were stored in the receive ring while the indication was pending"); ok = false; }
                else {
                    if (cb->cnt != i16) { viol("C21", "C21:conn_update:applied_at_wrong_event", head + "connection_changed reported while the planned event counter was " + std::to_string(cb->cnt)); ok = false; }
                    if (cb->interval != p.interval || cb->latency != p.latency || cb->timeout != p.timeout) {
                        viol("C21", std::string("C21:conn_update:applied_with_other_parameters") + (data_pending ? ":data_received_while_pending" : ""),
                             head + std::to_string(data_pending) + " data PDU(s) were stored in the receive ring while the indication was pending; " + "connection_changed reports interval=" + std::to_string(cb->interval) + " latency=" + std::to_string(cb->latency) + " timeout=" + std::to_string(cb->timeout));
                        ok = false;
                    }
                }
                // (b) the scheduling calls: old interval/position before the instant, transmit window at the instant, new interval afterwards
                for (std::size_t i = 0; i < recs.size() && ok; ++i) {
                    if (rec_K[i] <= c_rx) continue;
                    const unsigned expect = c->info(rec_K[i]).interval * 1250u;
                    M.eval();
                    if (recs[i].interval != expect) {
                        viol("C21", rec_K[i] < p.instant ? "C21:conn_update:applied_before_instant" : "C21:conn_update:interval_not_in_force_from_instant",
                             head + "schedule_connection_event for central event " + std::to_string(rec_K[i]) + " carries connection_interval=" + std::to_string(recs[i].interval) + " expected " + std::to_string(expect));
                        ok = false;
                    }
                }
                // the window of the instant event must contain the transmit window (otherwise the new anchor is lost)
                const sim::sched_rec& ri = recs[static_cast<std::size_t>(idx)];
                unsigned long long E1 = 0, E2 = 0;
                c->nominal_span(ri.anchor_event, p.instant, E1, E2);
                M.eval();
                if (ok && !ri.in_past && (static_cast<long long>(ri.start) > static_cast<long long>(E1) + tol || static_cast<long long>(ri.end) + tol < static_cast<long long>(E2))) {
                    viol("C21", "C21:conn_update:transmit_window_of_instant_not_covered",
                         head + "window of the instant event [" + std::to_string(ri.start) + "," + std::to_string(ri.end) + "] does not cover [" + std::to_string(E1) + "," + std::to_string(E2) + "] (old anchor grid + transmitWindowOffset .. + transmitWindowSize)");
                    ok = false;
                }
            } else if (p.kind == sim::procedure::chan_map) {
                const std::uint64_t oldmap = c->info(p.instant - 1).map, newmap = c->info(p.instant).map;
                for (std::size_t i = 0; i < recs.size() && ok; ++i) {
                    const long K = rec_K[i];
                    if (K <= c_rx) continue;
                    if (next_map_change_after(pi, K)) break;
                    const unsigned with_old = csa1::data_channel(oldmap, c->params.hop, static_cast<unsigned long>(K));
                    const unsigned with_new = csa1::data_channel(newmap, c->params.hop, static_cast<unsigned long>(K));
                    const unsigned expect = K < p.instant ? with_old : with_new;
                    M.eval();
                    if (recs[i].channel == expect) continue;
                    std::string k = recs[i].channel == (K < p.instant ? with_new : with_old)
                                        ? (K < p.instant ? "C21:chan_map:applied_before_instant" : "C21:chan_map:not_applied_at_instant")
                                        : "C21:chan_map:applied_with_other_parameters";
                    if (data_pending && K >= p.instant) k += ":data_received_while_pending";
                    viol("C21", k, head + std::to_string(data_pending) + " data PDU(s) were stored in the receive ring while the indication was pending; " + "central event " + std::to_string(K) + " scheduled on channel " + std::to_string(recs[i].channel) + ", old map gives " + std::to_string(with_old) + ", new map gives " + std::to_string(with_new));
                    ok = false;
                }
            } else {
                // radio_set_phy( c_to_p, p_to_c ) while the event `instant` is the next planned one
                const phy_call* pc = nullptr;
                for (std::size_t i = 0; i < phy_calls.size(); ++i) {
                    if (phy_calls[i].t < recs[0].t_call) continue;                      // reset at connection start
                    if (phy_calls[i].rx == 1 && phy_calls[i].tx == 1 && closed && phy_calls[i].t >= t_closed) continue;   // reset at disconnect
                    pc = &phy_calls[i];
                    if (phy_calls[i].cnt == i16) break;
                }
                M.eval();
                if (!pc) { viol("C21", std::string("C21:phy_update:not_applied_at_instant") + (data_pending ? ":data_received_while_pending" : ""), head + "no radio_set_phy() call; " + std::to_string(data_pending) + " data PDU(s) were stored in the receive ring while the indication was pending"); ok = false; }
                else {
                    if (pc->cnt != i16) { viol("C21", "C21:phy_update:applied_at_wrong_event", head + "radio_set_phy() called while the planned event counter was " + std::to_string(pc->cnt)); ok = false; }
                    if (pc->rx != p.c2p || pc->tx != p.p2c) {
                        viol("C21", std::string("C21:phy_update:applied_with_other_parameters") + (data_pending ? ":data_received_while_pending" : ""), head + "radio_set_phy(rx=" + std::to_string(pc->rx) + ", tx=" + std::to_string(pc->tx) + ")");
                        ok = false;
                    }
                }
            }
            if (ok && p.kind == sim::procedure::phy_update) {
                // the PHYs in force at every scheduled event: old ones before the instant, new ones from the instant on
                for (std::size_t i = 0; i < recs.size() && ok; ++i) {
                    const long K = rec_K[i];
                    if (K <= c_rx) continue;
                    const sim::event_info& inf = c->info(K);
                    M.eval();
                    if (recs[i].rx_phy == inf.phy_c2p && recs[i].tx_phy == inf.phy_p2c) continue;
                    viol("C21", K < p.instant ? "C21:phy_update:applied_before_instant" : "C21:phy_update:not_in_force_from_instant",
                         head + "central event " + std::to_string(K) + " scheduled with PHY rx=" + std::to_string(recs[i].rx_phy) + " tx=" + std::to_string(recs[i].tx_phy) +
                             ", in force at that event: c_to_p=" + std::to_string(inf.phy_c2p) + " p_to_c=" + std::to_string(inf.phy_p2c));
                    ok = false;
                }
            }
            if (ok) M.cls("outcome_applied_at_instant");

            // ---- received data is processed again once the instant is reached
            if (judge_stall && ok) {
                const unsigned inst_hidx = heard_index_of_first_at_or_after(p.instant);
                for (std::map<unsigned long, data_item>::const_iterator di = data.begin(); di != data.end(); ++di) {
                    const data_item& it = di->second;
                    if (it.acc_event < c_rx || it.acc_event >= p.instant) continue;      // received while the procedure was pending
                    const unsigned due = (it.acc_hidx > inst_hidx ? it.acc_hidx : inst_hidx) + 3;
                    M.eval();
                    if (it.processed && it.proc_hidx <= due) { if (it.acc_event < p.instant) M.cls("pending_data_processed_after_instant"); continue; }
                    if (!it.processed && heard_count <= due) continue;           // scenario ended before it was due
                    viol("C21", "C21:" + kind + ":received_data_not_processed_after_instant",
                         head + "write id " + std::to_string(it.id) + " stored at central event " + std::to_string(it.acc_event) + (it.processed ? " processed only at event " + std::to_string(it.proc_event) : " never reached the server") +
                             " (completed events: stored after " + std::to_string(it.acc_hidx) + ", instant after " + std::to_string(inst_hidx) + ", now " + std::to_string(heard_count) + ")");
                    break;
                }
            }
            (void)ran_to_planned_end;
        }
    }

    bool next_map_change_after(std::size_t pi, long K) const {
        const std::vector<sim::procedure>& ps = c->procedures();
        for (std::size_t i = 0; i < ps.size(); ++i)
            if (i != pi && ps[i].kind == sim::procedure::chan_map && ps[i].central_applies && ps[i].instant > ps[pi].instant && ps[i].instant <= K) return true;
        return false;
    }

    bool any_fault_before(long k) const { return c->any_fault_before(k); }

    std::string carried_str(const sim::procedure& p) const {
        char b[200];
        if (p.kind == sim::procedure::conn_update)
            std::snprintf(b, sizeof b, "carried WinSize=%u WinOffset=%u Interval=%u Latency=%u Timeout=%u", p.win_size, p.win_offset, p.interval, p.latency, p.timeout);
        else if (p.kind == sim::procedure::chan_map) std::snprintf(b, sizeof b, "carried ChM=0x%s", hex64(p.map).c_str());
        else std::snprintf(b, sizeof b, "carried PHY c_to_p=%u p_to_c=%u", p.c2p, p.p2c);
        return b;
    }

    std::string outcome_str() const {
        if (attempt_timed_out) return "connection attempt timed out";
        if (closed) { char b[64]; std::snprintf(b, sizeof b, "connection closed with reason 0x%02x at t=%lld", closed_reason, t_closed); return b; }
        return "connection still up at the end of the scenario (" + std::to_string(heard_count) + " completed events)";
    }

    std::string stall_str(long c_rx) const {
        unsigned waiting = 0;
        for (std::map<unsigned long, data_item>::const_iterator di = data.begin(); di != data.end(); ++di)
            if (di->second.acc_event >= c_rx && !di->second.processed) ++waiting;
        if (!waiting) return "";
        return "; " + std::to_string(waiting) + " write(s) stored by the radio after the indication never reached the server (received data is not processed while the procedure is pending)";
    }

    bool any_valid_packet_yet_ = false;
    unsigned stuck_events_ = 0;
    bool progress_since_last_event_ = false;
};

} // namespace llconn

#endif
