// link layer option set "set": peripheral_latency_configuration_set of five configurations switched at run time, 150 ppm, 128/128 byte buffers
#include "llconn/conn_harness.hpp"

llconn::callbacks_t llconn_callbacks;

namespace bl = bluetoe::link_layer;
typedef bl::peripheral_latency_configuration<> cfg_none;

typedef bl::link_layer<
    llconn::server_t, sim::radio,
    bl::connection_callbacks< llconn::callbacks_t, llconn_callbacks >,
    bl::peripheral_latency_configuration_set<
        bl::peripheral_latency_ignored, bl::peripheral_latency_strict, bl::peripheral_latency_strict_plus,
        bl::periperal_latency_default_configuration, cfg_none >,
    bl::sleep_clock_accuracy_ppm< 150 >,
    bl::buffer_sizes< 128, 128 >
> ll_t;

struct traits {
    static const char* name() { return "set"; }
    static const unsigned local_sca_ppm = 150;
    static const unsigned configs = 5;
    // listen conditions per selectable configuration, written from the documentation in bluetoe/peripheral_latency.hpp
    static unsigned features(int cfg) {
        switch (cfg) {
        case 0: return llconn::F_ALWAYS;
        case 1: return llconn::F_PENDING | llconn::F_RX_MD;
        case 2: return llconn::F_RX_NOT_EMPTY | llconn::F_RX_MD;
        case 3: return llconn::F_PENDING | llconn::F_UNACK | llconn::F_RX_NOT_EMPTY | llconn::F_TX_NOT_EMPTY | llconn::F_RX_MD;
        default: return 0u;
        }
    }
    template <class LL> static void select(LL& ll, int cfg) {
        switch (cfg) {
        case 0: ll.template change_peripheral_latency< bl::peripheral_latency_ignored >(); break;
        case 1: ll.template change_peripheral_latency< bl::peripheral_latency_strict >(); break;
        case 2: ll.template change_peripheral_latency< bl::peripheral_latency_strict_plus >(); break;
        case 3: ll.template change_peripheral_latency< bl::periperal_latency_default_configuration >(); break;
        default: ll.template change_peripheral_latency< cfg_none >(); break;
        }
    }
};

int main(int argc, char** argv) { return llconn::harness_main< ll_t, traits >(argc, argv); }
