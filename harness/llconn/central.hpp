// Model of the central (peer) device: own clock with a drift inside its declared sleep clock accuracy, anchor points,
// SN/NESN, per-event fault injection, control procedure generator with chosen instants, tiny ATT client with unique
// ids.  It is also the *ground truth* for the trace checkers: event_info( k ) says which parameters are in force at the
// central's connection event k (the central switches at the instant, as Core Vol 6 Part B 5.1.1/5.1.2/5.1.10 require).
#ifndef VERIF_LLCONN_CENTRAL_HPP
#define VERIF_LLCONN_CENTRAL_HPP

#include "llconn/sim_radio.hpp"
#include "llconn/csa1_ref.hpp"

#include <cstdint>
#include <deque>
#include <map>
#include <string>
#include <vector>

namespace sim {

static const unsigned sca_ppm_table[8] = { 500, 250, 150, 100, 75, 50, 30, 20 };   // Core Vol 6 Part B 2.3.3.1, upper bounds

struct conn_params {
    unsigned win_size, win_offset, interval, latency, timeout;   // raw field values of the CONNECT_IND
    std::uint64_t map;                                           // bit i = data channel i (bits 37..39 reserved)
    unsigned hop, sca;
    std::uint32_t access_address, crc_init;
    conn_params() : win_size(2), win_offset(3), interval(24), latency(0), timeout(72), map(0x1fffffffffull), hop(10), sca(5),
                    access_address(0xaf9ab35aul), crc_init(0xf68108ul) {}
};

// reasons why a CONNECT_IND is not valid (Core Vol 6 Part B 2.3.3.1, 4.5.1, 4.5.2, 4.5.3, 4.5.8); empty = valid
inline std::vector<std::string> connect_ind_defects(const conn_params& p) {
    std::vector<std::string> r;
    if (p.interval < 6) r.push_back("interval_below_7_5ms");
    if (p.interval > 3200) r.push_back("interval_above_4s");
    if (p.latency > 499) r.push_back("latency_above_499");
    if (p.timeout < 10) r.push_back("timeout_below_100ms");
    if (p.timeout > 3200) r.push_back("timeout_above_32s");
    // connSupervisionTimeout shall be LARGER than (1 + connPeripheralLatency) * connInterval * 2
    if (static_cast<unsigned long long>(p.timeout) * 10000ull <= (1ull + p.latency) * p.interval * 1250ull * 2ull)
        r.push_back("timeout_not_larger_than_2x_effective_interval");
    if (p.win_size < 1) r.push_back("window_size_zero");
    // transmitWindowSize: 1.25 ms to the lesser of 10 ms and (connInterval - 1.25 ms)
    if (p.win_size > 8) r.push_back("window_size_above_10ms");
    else if (p.interval >= 1 && p.win_size > p.interval - 1) r.push_back("window_size_above_interval_minus_1_25ms");
    if (p.win_offset > p.interval) r.push_back("window_offset_above_interval");
    if (!csa1::valid_hop(p.hop)) r.push_back("hop_out_of_range");
    if (!csa1::valid_map(p.map)) r.push_back("fewer_than_two_channels");
    return r;
}

struct event_info {
    std::uint32_t inc;            // nominal distance from the start of event k-1 (k = 0: from the end of the CONNECT_IND) to the earliest start of event k
    std::uint32_t win;            // transmit window the central may use for event k (micro seconds, 0 = none)
    unsigned interval, latency, timeout;   // raw values in force at event k
    std::uint64_t map;
    std::uint8_t phy_c2p, phy_p2c;
};

enum fault_t { f_none = 0, f_lost, f_crc_first, f_resp_lost, f_crc_later };

struct procedure {
    enum kind_t { conn_update, chan_map, phy_update } kind;
    long delta;                   // requested instant - event of first transmission
    long instant;                 // unbounded central event number
    long tx_event;                // event of the first transmission (-1: not yet transmitted)
    bool central_applies;
    unsigned win_size, win_offset, interval, latency, timeout;
    std::uint64_t map;
    std::uint8_t c2p, p2c;
    unsigned win_delta_us;        // where inside the transmit window the central places the instant event
    unsigned lose_first;          // the first n connection events in which this PDU is (to be) transmitted fail
    fault_t lose_kind;            // f_lost or f_crc_first
    bool bind_late;               // true: the PDU is held back while the peripheral is not listening, so that the instant is relative to an event the peripheral attends
    procedure() : kind(conn_update), delta(6), instant(-1), tx_event(-1), central_applies(false), win_size(1), win_offset(0), interval(24),
                  latency(0), timeout(72), map(0x1fffffffffull), c2p(0), p2c(0), win_delta_us(0), lose_first(0), lose_kind(f_crc_first), bind_late(true) {}
    const char* name() const { return kind == conn_update ? "conn_update" : (kind == chan_map ? "chan_map" : "phy_update"); }
};

struct central_pdu {
    std::uint8_t llid;
    std::vector<std::uint8_t> payload;
    int proc;                     // index into procedures(): the instant is filled in when first transmitted
    unsigned long id;             // unique id carried by a data PDU (0 = none)
    bool att_request;
    long first_tx_event;
    central_pdu() : llid(1), proc(-1), id(0), att_request(false), first_tx_event(-1) {}
};

struct received_pdu {
    long event; vtime t; std::uint8_t llid; std::vector<std::uint8_t> payload;
};

struct traffic_policy {
    enum mode_t { none, request_per_event, command_burst, mixed } mode;
    long from_event, to_event;
    unsigned burst;               // commands queued per central event
    unsigned min_len, max_len;    // value length of the writes (4..20)
    traffic_policy() : mode(none), from_event(0), to_event(0), burst(1), min_len(4), max_len(20) {}
};

class central : public air {
public:
    central()
        : connected_(false), advertising_answers_after_(0), ppm_(0), win_delta0_us_(0), k_next_(0), t_next_(0), t_nominal_(0), drift_acc_(0),
          sn_(false), nesn_(false), have_cur_(false), in_event_(false), exchange_idx_(0), cur_fault_(f_none), peer_terminated_(false),
          peer_terminate_reason_(0), next_id_(1), att_outstanding_(false), rng_(0x2545F4914F6CDD1Dull), t_connect_end_(0), edge_tol_us_(2),
          multi_pdu_(false), unheard_since_(0), last_heard_event_(-1), value_handle_(3)
    {
        init_addr_[0] = 0x3c; init_addr_[1] = 0x1c; init_addr_[2] = 0x62; init_addr_[3] = 0x92; init_addr_[4] = 0xf0; init_addr_[5] = 0x48;
    }

    // ------------------------------------------------------------------ configuration (before / while running)
    conn_params params;                     // used for the next CONNECT_IND
    std::map<long, fault_t> faults;         // per central event
    traffic_policy traffic;

    void seed(std::uint64_t s) { rng_ = s | 1; }
    // relative drift of the central's clock against the peripheral's clock, parts per million (signed)
    void drift_ppm(int ppm) { ppm_ = ppm; }
    int drift_ppm() const { return ppm_; }
    void first_event_window_delta(unsigned us) { win_delta0_us_ = us; }
    void answer_advertising_after(unsigned adv_events) { advertising_answers_after_ = adv_events; }
    void multi_pdu_events(bool b) { multi_pdu_ = b; }
    unsigned edge_tolerance_us() const { return edge_tol_us_; }

    int add_procedure(const procedure& p, long at_event) {
        procs_.push_back(p);
        const int idx = static_cast<int>(procs_.size()) - 1;
        action a; a.kind = action::send_procedure; a.index = idx;
        actions_.insert(std::make_pair(at_event, a));
        return idx;
    }
    void terminate_at(long at_event, std::uint8_t reason) {
        action a; a.kind = action::send_terminate; a.index = reason;
        actions_.insert(std::make_pair(at_event, a));
    }
    void raw_control_at(long at_event, const std::vector<std::uint8_t>& payload) {
        raw_.push_back(payload);
        action a; a.kind = action::send_raw; a.index = static_cast<int>(raw_.size()) - 1;
        actions_.insert(std::make_pair(at_event, a));
    }
    void write_request_at(long at_event, std::uint16_t handle, const std::vector<std::uint8_t>& value) {
        std::vector<std::uint8_t> pl;
        pl.push_back(static_cast<std::uint8_t>(3 + value.size())); pl.push_back(0); pl.push_back(4); pl.push_back(0);
        pl.push_back(0x12); pl.push_back(static_cast<std::uint8_t>(handle)); pl.push_back(static_cast<std::uint8_t>(handle >> 8));
        pl.insert(pl.end(), value.begin(), value.end());
        raw_data_.push_back(pl);
        action a; a.kind = action::send_raw_data; a.index = static_cast<int>(raw_data_.size()) - 1;
        actions_.insert(std::make_pair(at_event, a));
    }

    // ------------------------------------------------------------------ state / ground truth
    bool connected() const { return connected_; }
    long next_event() const { return k_next_; }
    long last_heard_event() const { return last_heard_event_; }
    vtime connect_end() const { return t_connect_end_; }
    const std::vector<procedure>& procedures() const { return procs_; }
    const std::vector<received_pdu>& received() const { return rx_; }
    bool peer_terminated() const { return peer_terminated_; }
    std::uint8_t peer_terminate_reason() const { return peer_terminate_reason_; }
    unsigned combined_sca_ppm(unsigned local_ppm) const { return sca_ppm_table[params.sca & 7] + local_ppm; }
    const std::vector<std::uint8_t>& last_connect_ind() const { return connect_ind_; }
    std::size_t tx_queue_size() const { return txq_.size(); }
    // ids of data PDUs in the order the central first transmitted them, with the event
    struct sent_id { unsigned long id; long first_tx_event; long acked_event; bool request; };
    const std::vector<sent_id>& sent_ids() const { return sent_ids_; }

    const event_info& info(long k) {
        ensure(k);
        return infos_[static_cast<std::size_t>(k)];
    }

    // nominal span (earliest, latest) from the start of event `from` (-1 = end of CONNECT_IND) to the start of event `to`, micro seconds
    void nominal_span(long from, long to, unsigned long long& earliest, unsigned long long& latest) {
        unsigned long long e = 0, w = 0;
        for (long k = from + 1; k <= to; ++k) {
            const event_info& i = info(k);
            e += i.inc;
            w += i.win;
        }
        earliest = e; latest = e + w;
    }

    unsigned channel_of(long k) {
        // a connection that should never have been established (invalid hop / map) has no defined channel
        if (!csa1::valid_map(info(k).map) || params.hop == 0 || params.hop >= 37) return 0xff;
        return csa1::data_channel(info(k).map, params.hop, static_cast<unsigned long>(k));
    }

    // ------------------------------------------------------------------ air
    bool advertising(vtime t, unsigned /*channel*/, const std::vector<std::uint8_t>& adv, std::vector<std::uint8_t>& connect_ind) override {
        if (adv.size() < 8) return false;
        const unsigned type = adv[0] & 0x0f;
        if (type != 0 && type != 1) return false;
        if (advertising_answers_after_ > 0) { --advertising_answers_after_; return false; }
        if (connects_ >= max_connects_) return false;          // one connection attempt per scenario
        ++connects_;
        connect_ind.clear();
        std::uint8_t h0 = 0x05 | 0x40;                         // CONNECT_IND, InitA random
        if (adv[0] & 0x40) h0 |= 0x80;                         // RxAdd = TxAdd of the advertiser
        connect_ind.push_back(h0); connect_ind.push_back(34);
        for (int i = 0; i < 6; ++i) connect_ind.push_back(init_addr_[i]);
        for (int i = 0; i < 6; ++i) connect_ind.push_back(adv[2 + i]);
        for (int i = 0; i < 4; ++i) connect_ind.push_back(static_cast<std::uint8_t>(params.access_address >> (8 * i)));
        for (int i = 0; i < 3; ++i) connect_ind.push_back(static_cast<std::uint8_t>(params.crc_init >> (8 * i)));
        connect_ind.push_back(static_cast<std::uint8_t>(params.win_size));
        put16(connect_ind, params.win_offset); put16(connect_ind, params.interval); put16(connect_ind, params.latency); put16(connect_ind, params.timeout);
        for (int i = 0; i < 5; ++i) connect_ind.push_back(static_cast<std::uint8_t>(params.map >> (8 * i)));
        connect_ind.push_back(static_cast<std::uint8_t>((params.hop & 0x1f) | ((params.sca & 7) << 5)));
        connect_ind_ = connect_ind;

        // the connection starts (from the central's point of view)
        connected_ = true;
        infos_.clear(); procs_applied_.clear();
        k_next_ = 0;
        const vtime adv_end = t + air_time_us(adv.size(), 1);
        t_connect_end_ = adv_end + t_ifs_us + air_time_us(connect_ind.size(), 1);
        drift_acc_ = 0;
        t_nominal_ = t_connect_end_;
        sn_ = nesn_ = false; have_cur_ = false; in_event_ = false; peer_terminated_ = false; att_outstanding_ = false;
        txq_.clear();
        last_heard_event_ = -1;
        // event 0: transmitWindowOffset + 1.25 ms after the end of the CONNECT_IND, anywhere inside the transmit window
        advance_time(info(0).inc + (win_delta0_us_ > info(0).win ? info(0).win : win_delta0_us_));
        return true;
    }

    listen_result listen(vtime ws, vtime we, unsigned channel, std::uint8_t rx_phy, std::uint32_t access_address, std::uint32_t /*crc_init*/) override {
        listen_result r;
        last_miss_reason_.clear();
        unsigned guard = 0;
        while (connected_ && ++guard < 200000) {
            if (t_next_ < ws - static_cast<vtime>(edge_tol_us_)) {
                // the peripheral does not listen: the central transmits and gets no answer
                host_tick(k_next_);
                transmit_into_void(k_next_);
                last_unheard_event_ = k_next_; last_unheard_t_ = t_next_;
                advance();
                continue;
            }
            if (t_next_ > we + static_cast<vtime>(edge_tol_us_)) {
                char b[96];
                std::snprintf(b, sizeof b, "central event %ld starts at %lld, after the window closed at %lld", k_next_, t_next_, we);
                last_miss_reason_ = b;
                return r;
            }
            host_tick(k_next_);
            fault_t f = fault_of(k_next_);
            {
                // losses aimed at a procedure PDU: the first n events in which it is (to be) transmitted fail
                const int pp = have_cur_ ? cur_pdu_.proc : (txq_.empty() ? -1 : txq_.front().proc);
                if (pp >= 0 && procs_[static_cast<std::size_t>(pp)].lose_first > 0 && f == f_none) {
                    --procs_[static_cast<std::size_t>(pp)].lose_first;
                    f = procs_[static_cast<std::size_t>(pp)].lose_kind;
                    if (f == f_lost && !have_cur_) {
                        // transmitted, but nobody heard it
                        cur_event_ = k_next_;
                        cur_pdu_ = txq_.front(); txq_.pop_front();
                        first_transmission(cur_pdu_);
                        have_cur_ = true;
                    }
                    injected_[k_next_] = f;
                }
            }
            const unsigned ch = channel_of(k_next_);
            const event_info& i = info(k_next_);
            std::string why;
            if (f == f_lost) why = "injected loss";
            else if (ch != channel) why = "central transmits on channel " + std::to_string(ch) + ", peripheral listens on " + std::to_string(channel);
            else if (i.phy_c2p != rx_phy) why = "central transmits with PHY " + std::to_string(i.phy_c2p) + ", peripheral listens with " + std::to_string(rx_phy);
            else if (access_address != params.access_address) why = "access address mismatch";
            if (!why.empty()) {
                char b[64];
                std::snprintf(b, sizeof b, "central event %ld at %lld inside the window: ", k_next_, t_next_);
                last_miss_reason_ = b + why;
                last_miss_injected_ = f == f_lost;
                transmit_into_void(k_next_);
                last_unheard_event_ = k_next_; last_unheard_t_ = t_next_;
                advance();
                continue;
            }
            in_event_ = true;
            exchange_idx_ = 0;
            cur_fault_ = f;
            cur_event_ = k_next_;
            r.heard = true; r.t = t_next_; r.central_event = k_next_;
            last_heard_event_ = k_next_;
            return r;
        }
        return r;
    }
    const std::string& last_miss_reason() const { return last_miss_reason_; }
    bool last_miss_injected() const { return last_miss_injected_; }
    // time at which the central transmitted / will transmit event k, known only for the last unheard and the next event
    bool tx_time_of(long k, vtime& t) const {
        if (k == k_next_) { t = t_next_; return true; }
        if (k == last_unheard_event_) { t = last_unheard_t_; return true; }
        return false;
    }

    air_pdu central_transmit(vtime) override {
        air_pdu p;
        if (!have_cur_) {
            if (!txq_.empty()) {
                cur_pdu_ = txq_.front(); txq_.pop_front();
                first_transmission(cur_pdu_);
            } else {
                cur_pdu_ = central_pdu();
            }
            have_cur_ = true;
        }
        const bool md = multi_pdu_ && !txq_.empty();
        std::uint8_t h0 = static_cast<std::uint8_t>(cur_pdu_.llid | (nesn_ ? 0x04 : 0) | (sn_ ? 0x08 : 0) | (md ? 0x10 : 0));
        p.bytes.push_back(h0);
        p.bytes.push_back(static_cast<std::uint8_t>(cur_pdu_.payload.size()));
        p.bytes.insert(p.bytes.end(), cur_pdu_.payload.begin(), cur_pdu_.payload.end());
        p.crc_ok = !((cur_fault_ == f_crc_first && exchange_idx_ == 0) || (cur_fault_ == f_crc_later && exchange_idx_ >= 1));
        last_md_sent_ = md;
        return p;
    }

    bool peripheral_transmit(vtime t, const std::vector<std::uint8_t>& pdu, std::uint8_t tx_phy) override {
        const unsigned idx = exchange_idx_++;
        if (cur_fault_ == f_resp_lost && idx == 0) return false;
        if (info(cur_event_).phy_p2c != tx_phy) return false;      // the central listens with another PHY
        const bool sn_p = (pdu[0] & 0x08) != 0, nesn_p = (pdu[0] & 0x04) != 0, md_p = (pdu[0] & 0x10) != 0;
        if (nesn_p != sn_) {
            // acknowledged
            sn_ = !sn_;
            have_cur_ = false;
            if (cur_pdu_.id) for (std::size_t i = sent_ids_.size(); i-- > 0;) if (sent_ids_[i].id == cur_pdu_.id) { sent_ids_[i].acked_event = cur_event_; break; }
            if (cur_pdu_.llid == 3 && !cur_pdu_.payload.empty() && cur_pdu_.payload[0] == 0x02) connected_ = false;   // our LL_TERMINATE_IND was acknowledged
        }
        if (sn_p == nesn_) {
            nesn_ = !nesn_;
            if (pdu[1] != 0) {
                received_pdu r; r.event = cur_event_; r.t = t; r.llid = pdu[0] & 3; r.payload.assign(pdu.begin() + 2, pdu.end());
                host_receive(r);
                rx_.push_back(r);
            }
        }
        return md_p || last_md_sent_;
    }

    void event_closed(vtime) override {
        in_event_ = false;
        if (connected_) advance(); else { /* terminated: no further events */ }
    }

    void disconnect_silently() { connected_ = false; }

private:
    struct action { enum kind_t { send_procedure, send_terminate, send_raw, send_raw_data } kind; int index; };

    static void put16(std::vector<std::uint8_t>& v, unsigned x) { v.push_back(static_cast<std::uint8_t>(x)); v.push_back(static_cast<std::uint8_t>(x >> 8)); }
    unsigned rnd(unsigned n) { rng_ ^= rng_ << 13; rng_ ^= rng_ >> 7; rng_ ^= rng_ << 17; return n ? static_cast<unsigned>((rng_ >> 17) % n) : 0; }

    fault_t fault_of(long k) const { std::map<long, fault_t>::const_iterator i = faults.find(k); return i == faults.end() ? f_none : i->second; }
public:
    // was anything injected at central event k (planned fault or a loss aimed at a procedure PDU)?
    bool fault_injected_at(long k) const { return faults.find(k) != faults.end() || injected_.find(k) != injected_.end(); }
    bool any_fault_before(long k) const {
        for (std::map<long, fault_t>::const_iterator i = faults.begin(); i != faults.end(); ++i) if (i->first < k) return true;
        for (std::map<long, fault_t>::const_iterator i = injected_.begin(); i != injected_.end(); ++i) if (i->first < k) return true;
        return false;
    }
private:
    std::map<long, fault_t> injected_;

    void ensure(long k) {
        while (static_cast<long>(infos_.size()) <= k) {
            const long n = static_cast<long>(infos_.size());
            event_info e;
            if (n == 0) {
                e.inc = 1250u + params.win_offset * 1250u;
                e.win = params.win_size * 1250u;
                e.interval = params.interval; e.latency = params.latency; e.timeout = params.timeout;
                e.map = params.map & 0x1fffffffffull;
                e.phy_c2p = 1; e.phy_p2c = 1;
            } else {
                e = infos_.back();
                e.inc = e.interval ? e.interval * 1250u : 1250u;       // old interval (a zero interval is not a connection; keeps the model finite)
                e.win = 0;
            }
            for (std::size_t i = 0; i < procs_.size(); ++i) {
                const procedure& p = procs_[i];
                if (!p.central_applies || p.instant != n) continue;
                if (p.kind == procedure::conn_update) {
                    e.inc += p.win_offset * 1250u;
                    e.win = p.win_size * 1250u;
                    e.interval = p.interval; e.latency = p.latency; e.timeout = p.timeout;
                } else if (p.kind == procedure::chan_map) {
                    // a map with fewer than two used channels is never put in force (ground truth for "not applied")
                    if (csa1::valid_map(p.map)) e.map = p.map & 0x1fffffffffull;
                } else {
                    if (p.c2p) e.phy_c2p = p.c2p;
                    if (p.p2c) e.phy_p2c = p.p2c;
                }
            }
            infos_.push_back(e);
        }
    }

    void advance_time(unsigned long long actual_inc_us) {
        t_nominal_ += static_cast<vtime>(actual_inc_us);
        drift_acc_ += static_cast<long long>(actual_inc_us) * ppm_;           // units: 1e-6 us
        t_next_ = t_nominal_ + drift_acc_ / 1000000;                          // truncation towards zero: never beyond the declared accuracy
    }

    void advance() {
        ++k_next_;
        const event_info& i = info(k_next_);
        unsigned delta = 0;
        if (i.win) {
            for (std::size_t n = 0; n < procs_.size(); ++n)
                if (procs_[n].central_applies && procs_[n].kind == procedure::conn_update && procs_[n].instant == k_next_)
                    delta = procs_[n].win_delta_us > i.win ? i.win : procs_[n].win_delta_us;
        }
        advance_time(static_cast<unsigned long long>(i.inc) + delta);
    }

    // the central transmits at every one of its connection events, also when the peripheral does not listen
    void transmit_into_void(long k) {
        if (have_cur_ || txq_.empty()) return;
        const central_pdu& head = txq_.front();
        if (head.proc >= 0 && procs_[static_cast<std::size_t>(head.proc)].bind_late) return;
        cur_event_ = k;
        cur_pdu_ = txq_.front(); txq_.pop_front();
        first_transmission(cur_pdu_);
        have_cur_ = true;
    }

    void first_transmission(central_pdu& p) {
        p.first_tx_event = cur_event_;
        if (p.id) { sent_id s; s.id = p.id; s.first_tx_event = cur_event_; s.acked_event = -1; s.request = p.att_request; sent_ids_.push_back(s); }
        if (p.proc < 0) return;
        procedure& pr = procs_[static_cast<std::size_t>(p.proc)];
        pr.tx_event = cur_event_;
        pr.instant = cur_event_ + pr.delta;
        pr.central_applies = pr.delta >= 1 && pr.delta < 32767;
        const unsigned i16 = static_cast<unsigned>(pr.instant) & 0xffff;
        std::vector<std::uint8_t>& pl = p.payload;
        pl[pl.size() - 2] = static_cast<std::uint8_t>(i16); pl[pl.size() - 1] = static_cast<std::uint8_t>(i16 >> 8);
        if (pr.central_applies && static_cast<long>(infos_.size()) > pr.instant) infos_.resize(static_cast<std::size_t>(pr.instant));
    }

    static std::vector<std::uint8_t> encode(const procedure& p) {
        std::vector<std::uint8_t> v;
        if (p.kind == procedure::conn_update) {
            v.push_back(0x00); v.push_back(static_cast<std::uint8_t>(p.win_size));
            put16(v, p.win_offset); put16(v, p.interval); put16(v, p.latency); put16(v, p.timeout);
        } else if (p.kind == procedure::chan_map) {
            v.push_back(0x01);
            for (int i = 0; i < 5; ++i) v.push_back(static_cast<std::uint8_t>(p.map >> (8 * i)));
        } else {
            v.push_back(0x18); v.push_back(p.c2p); v.push_back(p.p2c);
        }
        put16(v, 0);   // instant, filled in at the first transmission
        return v;
    }

    void queue_write(bool request, unsigned value_len) {
        central_pdu d;
        d.llid = 2;
        d.id = next_id_++;
        d.att_request = request;
        if (value_len < 4) value_len = 4;
        if (value_len > 20) value_len = 20;
        std::vector<std::uint8_t>& pl = d.payload;
        pl.push_back(static_cast<std::uint8_t>(3 + value_len)); pl.push_back(0); pl.push_back(4); pl.push_back(0);
        pl.push_back(request ? 0x12 : 0x52);
        pl.push_back(static_cast<std::uint8_t>(value_handle_)); pl.push_back(static_cast<std::uint8_t>(value_handle_ >> 8));
        for (unsigned i = 0; i < 4; ++i) pl.push_back(static_cast<std::uint8_t>(d.id >> (8 * i)));
        for (unsigned i = 4; i < value_len; ++i) pl.push_back(static_cast<std::uint8_t>(0xE0 + i));
        if (request) att_outstanding_ = true;
        txq_.push_back(d);
    }

    // what the central's host / link layer decides to send at its connection event k
    void host_tick(long k) {
        if (k == ticked_event_ && ticked_valid_) return;
        ticked_event_ = k; ticked_valid_ = true;
        std::pair<std::multimap<long, action>::iterator, std::multimap<long, action>::iterator> range = actions_.equal_range(k);
        for (std::multimap<long, action>::iterator i = range.first; i != range.second; ++i) {
            central_pdu c;
            c.llid = 3;
            if (i->second.kind == action::send_procedure) {
                c.payload = encode(procs_[static_cast<std::size_t>(i->second.index)]);
                c.proc = i->second.index;
                // a control PDU of the central's link layer goes out before queued host data
                txq_.push_front(c);
            } else if (i->second.kind == action::send_terminate) {
                c.payload.push_back(0x02); c.payload.push_back(static_cast<std::uint8_t>(i->second.index));
                txq_.push_front(c);
            } else if (i->second.kind == action::send_raw) {
                c.payload = raw_[static_cast<std::size_t>(i->second.index)];
                txq_.push_front(c);
            } else {
                c.llid = 2;
                c.payload = raw_data_[static_cast<std::size_t>(i->second.index)];
                txq_.push_back(c);
            }
        }
        if (traffic.mode != traffic_policy::none && k >= traffic.from_event && k <= traffic.to_event && txq_.size() < 6) {
            const unsigned span = traffic.max_len >= traffic.min_len ? traffic.max_len - traffic.min_len + 1 : 1;
            if (traffic.mode == traffic_policy::request_per_event || (traffic.mode == traffic_policy::mixed && rnd(2) == 0)) {
                if (!att_outstanding_) queue_write(true, traffic.min_len + rnd(span));
            }
            if (traffic.mode == traffic_policy::command_burst || traffic.mode == traffic_policy::mixed) {
                for (unsigned n = 0; n < traffic.burst && txq_.size() < 6; ++n) queue_write(false, traffic.min_len + rnd(span));
            }
        }
    }

    void host_receive(const received_pdu& r) {
        if (r.llid == 3 && !r.payload.empty()) {
            if (r.payload[0] == 0x02 && r.payload.size() >= 2) { peer_terminated_ = true; peer_terminate_reason_ = r.payload[1]; }
        } else if (r.llid == 2 && r.payload.size() >= 5 && r.payload[2] == 4 && r.payload[3] == 0) {
            const std::uint8_t op = r.payload[4];
            if (op == 0x13 || op == 0x01 || op == 0x0b) att_outstanding_ = false;
        }
    }

    bool connected_;
    unsigned advertising_answers_after_;
    int ppm_;
    unsigned win_delta0_us_;
    long k_next_;
    vtime t_next_, t_nominal_;
    long long drift_acc_;
    bool sn_, nesn_, have_cur_, in_event_;
    unsigned exchange_idx_;
    fault_t cur_fault_;
    long cur_event_ = -1;
    bool last_md_sent_ = false;
    bool peer_terminated_;
    std::uint8_t peer_terminate_reason_;
    unsigned long next_id_;
    bool att_outstanding_;
    std::uint64_t rng_;
    vtime t_connect_end_;
    unsigned edge_tol_us_;
    bool multi_pdu_;
    long unheard_since_;
    long last_heard_event_;
    std::uint16_t value_handle_;
    unsigned connects_ = 0, max_connects_ = 1;
    long ticked_event_ = -1;
    bool ticked_valid_ = false;
    long last_unheard_event_ = -2;
    vtime last_unheard_t_ = 0;
    bool last_miss_injected_ = false;
    std::string last_miss_reason_;
    std::uint8_t init_addr_[6];
    std::vector<event_info> infos_;
    std::vector<int> procs_applied_;
    std::vector<procedure> procs_;
    std::vector<std::vector<std::uint8_t> > raw_, raw_data_;
    std::multimap<long, action> actions_;
    std::deque<central_pdu> txq_;
    central_pdu cur_pdu_;
    std::vector<received_pdu> rx_;
    std::vector<sent_id> sent_ids_;
    std::vector<std::uint8_t> connect_ind_;
};

} // namespace sim

#endif
