// Scenario generator and runner: the real bluetoe::link_layer::link_layer<> on top of sim::radio, against sim::central,
// watched by llconn::monitor.  One translation unit per link layer option set (conn_harness_<name>.cpp) includes this file,
// defines the link_layer<> type and a `traits` struct (name, local sleep clock accuracy, listen conditions per selectable
// latency configuration, how to select one) and calls llconn::harness_main< LL, traits >().
//
//   --mode=c20|c21|c22|c23  scenario family      --seed=N --first=N --ops=N  scenarios first..first+ops-1 (each with its own
//   random stream, so --skip=<n,n> and --first/--ops=1 reproduce a single scenario)   --trace  echo the radio log to stderr
#ifndef VERIF_LLCONN_CONN_HARNESS_HPP
#define VERIF_LLCONN_CONN_HARNESS_HPP

#include <bluetoe/link_layer.hpp>
#include <bluetoe/server.hpp>
#include <bluetoe/service.hpp>
#include <bluetoe/characteristic.hpp>
#include <bluetoe/gap_service.hpp>

#include "common/verif.hpp"
#include "llconn/sim_radio.hpp"
#include "llconn/central.hpp"
#include "llconn/monitors.hpp"

#include <set>
#include <string>
#include <vector>

namespace llconn {

// ------------------------------------------------------------------------------------------------ global context for C callbacks
struct context {
    monitor* mon;
    unsigned (*counter)(void*);
    void* ll;
    unsigned long last_written_id;
    context() : mon(nullptr), counter(nullptr), ll(nullptr), last_written_id(0) {}
};
inline context& ctx() { static context c; return c; }

// ------------------------------------------------------------------------------------------------ tiny GATT server
inline std::uint8_t value_write(std::size_t size, const std::uint8_t* value) {
    unsigned long id = 0;
    for (std::size_t i = 0; i < 4 && i < size; ++i) id |= static_cast<unsigned long>(value[i]) << (8 * i);
    ctx().last_written_id = id;
    if (ctx().mon) ctx().mon->server_processed_write(id);
    return bluetoe::error_codes::success;
}
inline std::uint8_t value_read(std::size_t read_size, std::uint8_t* out, std::size_t& out_size) {
    out_size = read_size < 4 ? read_size : 4;
    for (std::size_t i = 0; i < out_size; ++i) out[i] = static_cast<std::uint8_t>(ctx().last_written_id >> (8 * i));
    return bluetoe::error_codes::success;
}

typedef bluetoe::characteristic_uuid16<0x2345> value_uuid;

// handles: 1 service, 2 characteristic declaration, 3 value, 4 client characteristic configuration
typedef bluetoe::server<
    bluetoe::no_gap_service_for_gatt_servers,
    bluetoe::service<
        bluetoe::service_uuid16<0x1234>,
        bluetoe::characteristic<
            value_uuid,
            bluetoe::free_read_handler<&value_read>,
            bluetoe::free_raw_write_handler<&value_write>,
            bluetoe::notify
        >
    >
> server_t;

// ------------------------------------------------------------------------------------------------ connection callbacks -> monitor
struct callbacks_t {
    template <class C>
    void ll_connection_requested(const bluetoe::link_layer::connection_details&, const bluetoe::link_layer::connection_addresses&, C&) {}
    template <class C>
    void ll_connection_attempt_timeout(C&) { if (ctx().mon) { ctx().mon->radio->log("callback: connection attempt timeout"); ctx().mon->cb_attempt_timeout(); } }
    template <class C>
    void ll_connection_established(const bluetoe::link_layer::connection_details&, const bluetoe::link_layer::connection_addresses&, C&) {
        if (ctx().mon) ctx().mon->cb_established();
    }
    template <class C>
    void ll_connection_changed(const bluetoe::link_layer::connection_details& d, C&) {
        if (!ctx().mon) return;
        const unsigned cnt = ctx().counter(ctx().ll);
        char b[120];
        std::snprintf(b, sizeof b, "callback: connection_changed(interval=%u latency=%u timeout=%u) counter=%u", d.interval(), d.latency(), d.timeout(), cnt);
        ctx().mon->radio->log(b);
        ctx().mon->cb_connection_changed(cnt, d.interval(), d.latency(), d.timeout());
    }
    template <class C>
    void ll_connection_closed(std::uint8_t reason, C&) {
        if (!ctx().mon) return;
        char b[80];
        std::snprintf(b, sizeof b, "callback: connection_closed(reason=0x%02x)", reason);
        ctx().mon->radio->log(b);
        ctx().mon->cb_closed(reason);
    }
};

} // namespace llconn

// the object referenced by the connection_callbacks<> option needs external linkage
extern llconn::callbacks_t llconn_callbacks;

namespace llconn {

// ------------------------------------------------------------------------------------------------ scenarios
struct scenario {
    std::string mode, cls, desc;
    sim::conn_params params;
    int drift_ppm;
    unsigned win_delta0_us;
    sim::radio_options ropt;
    std::map<long, sim::fault_t> faults;
    std::vector<std::pair<long, sim::procedure> > procs;
    sim::traffic_policy traffic;
    bool multi_pdu;
    long run_events;                 // simulate until the central reaches this event number
    long terminate_at;
    bool subscribe;                  // the central enables notifications at its first event
    unsigned notify_permille;        // per completed connection event: chance that the application notifies somewhere before the next window
    unsigned switch_config_permille; // per completed event: chance to select another latency configuration (configuration sets only)
    int start_config;                // latency configuration selected at the start (configuration sets)
    unsigned notify_skips;           // number of sleeps (planned skips of >= 1 event) in which the application notifies ...
    unsigned notify_pos;             // ... 0: right after the sleep began, 1: in the middle, 2: just before the planned event (also inside the radio's safety margin), 3: anywhere
    long notify_not_before;          // ... counting only sleeps that begin at or after this central event / after the procedure arrived
    unsigned long max_steps;
    scenario() : drift_ppm(0), win_delta0_us(0), multi_pdu(false), run_events(60), terminate_at(-1), subscribe(false), notify_permille(0),
                 switch_config_permille(0), start_config(0), notify_skips(0), notify_pos(3), notify_not_before(0), max_steps(100000) {}
};

inline const char* fault_name(sim::fault_t f) {
    static const char* n[] = { "none", "lost", "crc_first", "resp_lost", "crc_later" };
    return n[f];
}

inline std::string describe(const scenario& s, unsigned local_ppm) {
    char b[400];
    std::snprintf(b, sizeof b,
                  "mode=%s class=%s CONNECT_IND{WinSize=%u WinOffset=%u Interval=%u Latency=%u Timeout=%u ChM=0x%llx Hop=%u SCA=%u} local_sca=%uppm drift=%dppm win_delta0=%uus "
                  "radio{max_exchanges=%u disarm_margin=%u setup_margin=%u fuzz_flags=%u} multi_pdu=%d run_events=%ld subscribe=%d notify=%u switch_config=%u traffic{mode=%d from=%ld to=%ld burst=%u len=%u..%u}",
                  s.mode.c_str(), s.cls.c_str(), s.params.win_size, s.params.win_offset, s.params.interval, s.params.latency, s.params.timeout,
                  static_cast<unsigned long long>(s.params.map), s.params.hop, s.params.sca, local_ppm, s.drift_ppm, s.win_delta0_us, s.ropt.max_exchanges,
                  s.ropt.disarm_margin_us, s.ropt.setup_margin_us, s.ropt.fuzz_flags_permille, s.multi_pdu ? 1 : 0, s.run_events, s.subscribe ? 1 : 0,
                  s.notify_permille, s.switch_config_permille, static_cast<int>(s.traffic.mode), s.traffic.from_event, s.traffic.to_event, s.traffic.burst,
                  s.traffic.min_len, s.traffic.max_len);
    std::string r = b;
    if (s.notify_skips) r += " notify_in_sleeps{count=" + std::to_string(s.notify_skips) + " pos=" + std::to_string(s.notify_pos) + " not_before_event=" + std::to_string(s.notify_not_before) + "} start_config=" + std::to_string(s.start_config);
    if (!s.faults.empty()) {
        r += " faults{";
        unsigned n = 0;
        for (std::map<long, sim::fault_t>::const_iterator i = s.faults.begin(); i != s.faults.end() && n < 24; ++i, ++n)
            r += std::to_string(i->first) + ":" + fault_name(i->second) + " ";
        if (s.faults.size() > 24) r += "... " + std::to_string(s.faults.size()) + " in total, last=" + std::to_string(s.faults.rbegin()->first);
        r += "}";
    }
    for (std::size_t i = 0; i < s.procs.size(); ++i) {
        const sim::procedure& p = s.procs[i].second;
        std::snprintf(b, sizeof b, " procedure{%s queued_at_event=%ld instant=tx_event%+ld WinSize=%u WinOffset=%u Interval=%u Latency=%u Timeout=%u ChM=0x%llx c2p=%u p2c=%u win_delta=%uus bind_late=%d lose_first=%u(%s)}",
                      p.name(), s.procs[i].first, p.delta, p.win_size, p.win_offset, p.interval, p.latency, p.timeout, static_cast<unsigned long long>(p.map), p.c2p, p.p2c,
                      p.win_delta_us, p.bind_late ? 1 : 0, p.lose_first, fault_name(p.lose_kind));
        r += b;
    }
    if (s.terminate_at >= 0) r += " terminate_at=" + std::to_string(s.terminate_at);
    return r;
}

// ---- helpers for valid parameter choice
inline unsigned min_timeout_for(unsigned interval, unsigned latency) {
    // smallest Timeout (10 ms units) strictly larger than (1 + latency) * interval * 1.25 ms * 2, at least 100 ms
    const unsigned long long limit_us = (1ull + latency) * interval * 2500ull;
    unsigned long long t = limit_us / 10000ull + 1;
    if (t < 10) t = 10;
    return static_cast<unsigned>(t);
}

inline std::uint64_t random_map(verif::prng& r, unsigned min_used) {
    for (;;) {
        const unsigned k = min_used + r.below(38 - min_used);
        std::uint64_t bits = 0; unsigned chosen = 0;
        for (unsigned c = 0; c < 37; ++c) if (r.below(37 - c) < k - chosen) { bits |= 1ull << c; ++chosen; }
        if (chosen >= min_used) return bits | (static_cast<std::uint64_t>(r.below(8)) << 37);
    }
}

inline void random_valid_params(verif::prng& r, sim::conn_params& p, unsigned max_latency) {
    static const unsigned intervals[] = { 6, 7, 8, 12, 24, 40, 80, 160, 400, 800, 1600, 3200 };
    p.interval = r.chance(1, 4) ? 6 + r.below(3195) : intervals[r.below(12)];
    if (r.chance(1, 2)) p.interval = 6 + r.below(40);
    // latency limited by the 32 s timeout bound
    unsigned lat_cap = 499;
    while (lat_cap > 0 && min_timeout_for(p.interval, lat_cap) > 3200) lat_cap /= 2;
    if (min_timeout_for(p.interval, lat_cap) > 3200) lat_cap = 0;
    if (lat_cap > max_latency) lat_cap = max_latency;
    p.latency = lat_cap ? r.below(lat_cap + 1) : 0;
    const unsigned tmin = min_timeout_for(p.interval, p.latency);
    p.timeout = r.chance(1, 3) ? tmin : (r.chance(1, 3) ? 3200 : tmin + r.below(3200 - tmin + 1));
    const unsigned ws_max = p.interval - 1 < 8 ? p.interval - 1 : 8;
    p.win_size = r.chance(1, 3) ? 1 : (r.chance(1, 2) ? ws_max : 1 + r.below(ws_max));
    p.win_offset = r.chance(1, 3) ? 0 : (r.chance(1, 2) ? p.interval : r.below(p.interval + 1));
    p.hop = 5 + r.below(12);
    p.sca = r.below(8);
    p.map = r.chance(1, 3) ? 0x1fffffffffull : random_map(r, 2);
    p.access_address = 0x8e89bed6ul ^ static_cast<std::uint32_t>(r.next());
    p.crc_init = static_cast<std::uint32_t>(r.next()) & 0xffffff;
}

inline void fit_window(sim::conn_params& p) {
    const unsigned ws_max = p.interval - 1 < 8 ? p.interval - 1 : 8;
    if (p.win_size > ws_max) p.win_size = ws_max;
    if (p.win_size < 1) p.win_size = 1;
    if (p.win_offset > p.interval) p.win_offset = p.win_offset % (p.interval + 1);
}

inline int pick_drift(verif::prng& r, unsigned combined_ppm) {
    switch (r.below(5)) {
    case 0: return static_cast<int>(combined_ppm);
    case 1: return -static_cast<int>(combined_ppm);
    case 2: return 0;
    default: return r.range(-static_cast<int>(combined_ppm), static_cast<int>(combined_ppm));
    }
}

inline sim::procedure random_update(verif::prng& r, const sim::conn_params& cur, unsigned max_latency) {
    sim::procedure p;
    p.kind = sim::procedure::conn_update;
    sim::conn_params n;
    random_valid_params(r, n, max_latency);
    if (r.chance(1, 2)) n.interval = 6 + r.below(60);
    if (n.latency > max_latency) n.latency = max_latency;
    unsigned lat = n.latency;
    while (min_timeout_for(n.interval, lat) > 3200) lat /= 2;
    n.latency = lat;
    const unsigned tmin = min_timeout_for(n.interval, n.latency);
    if (n.timeout < tmin) n.timeout = tmin;
    const unsigned ws_max = n.interval - 1 < 8 ? n.interval - 1 : 8;
    if (n.win_size > ws_max) n.win_size = ws_max;
    if (n.win_size < 1) n.win_size = 1;
    if (n.win_offset > n.interval) n.win_offset = n.interval;
    p.win_size = n.win_size; p.win_offset = n.win_offset; p.interval = n.interval; p.latency = n.latency; p.timeout = n.timeout;
    p.win_delta_us = r.chance(1, 3) ? 0 : (r.chance(1, 2) ? p.win_size * 1250u : r.below(p.win_size * 1250u + 1));
    (void)cur;
    return p;
}

// ------------------------------------------------------------------------------------------------ scenario generators (one per mode)
struct generator {
    unsigned local_ppm;
    unsigned features_all;       // union of the listen conditions of all selectable configurations
    unsigned n_configs;
    bool can_skip;               // some configuration lets the peripheral use latency
    unsigned wrap_every;         // every n-th scenario of c21 / c20 runs up to the 16 bit wrap of the event counter (0 = never)

    // ---------------------------------------------------------------- C22
    scenario c22(verif::prng& r, unsigned long long index) const {
        scenario s; s.mode = "c22";
        random_valid_params(r, s.params, 30);
        const unsigned combined = sim::sca_ppm_table[s.params.sca] + local_ppm;
        s.drift_ppm = pick_drift(r, combined);
        s.win_delta0_us = r.chance(1, 3) ? 0 : (r.chance(1, 2) ? s.params.win_size * 1250u : r.below(s.params.win_size * 1250u + 1));
        s.run_events = 30 + r.below(60);
        switch (index % 8) {
        case 0: {   // valid corners of the parameter space
            s.cls = "valid_corner";
            static const unsigned iv[] = { 6, 7, 3200, 3199, 24, 800 };
            s.params.interval = iv[r.below(6)];
            unsigned lat_cap = 499;
            while (lat_cap > 0 && min_timeout_for(s.params.interval, lat_cap) > 3200) --lat_cap;
            s.params.latency = r.chance(1, 2) ? lat_cap : 0;
            if (s.params.latency > 40 && !can_skip) s.params.latency = 0;
            s.params.timeout = r.chance(1, 2) ? min_timeout_for(s.params.interval, s.params.latency) : 3200;
            const unsigned ws_max = s.params.interval - 1 < 8 ? s.params.interval - 1 : 8;
            s.params.win_size = r.chance(1, 2) ? 1 : ws_max;
            s.params.win_offset = r.chance(1, 2) ? 0 : s.params.interval;
            s.win_delta0_us = r.chance(1, 2) ? 0 : s.params.win_size * 1250u;
            s.run_events = (s.params.latency + 1) * 6 + 10;
            if (s.params.interval >= 3199) s.run_events = 12;
            break;
        }
        case 1: {   // exactly one field of the CONNECT_IND outside its range
            s.cls = "invalid_single_field";
            s.params.interval = 8 + r.below(100); s.params.latency = r.below(4);
            s.params.timeout = min_timeout_for(s.params.interval, s.params.latency) + 1 + r.below(50);
            s.params.win_size = 1 + r.below(3); s.params.win_offset = r.below(s.params.interval);
            switch (r.below(14)) {
            case 0: s.params.interval = r.chance(1, 6) ? r.below(2) : 2 + r.below(4); s.params.win_size = s.params.interval >= 2 ? 1 : 0; s.params.win_offset = r.below(s.params.interval + 1);
                    s.params.latency = 0; s.params.timeout = 10 + r.below(100); break;   // < 7.5 ms (0 and 1.25 ms cannot be single field violations)
            case 1: s.params.interval = 5; s.params.win_size = 1 + r.below(4); s.params.win_offset = r.below(6); s.params.timeout = 10 + r.below(100); break;
            case 2: s.params.interval = 3201 + r.below(3000); s.params.latency = 0; s.params.timeout = 3200; break;
            case 3: s.params.interval = 3201; s.params.latency = 0; s.params.timeout = 801 + r.below(2000); break;
            case 4: s.params.latency = 500 + r.below(1000); s.params.interval = 6; s.params.timeout = 3200; break;
            case 5: s.params.timeout = r.below(10); s.params.interval = 6; s.params.latency = 0; break;
            case 6: s.params.timeout = 3201 + r.below(30000); break;
            case 7: {  // timeout == (1 + latency) * interval * 2 exactly (must be larger)
                static const unsigned iv2[] = { 40, 80, 400, 8, 16 };
                s.params.interval = iv2[r.below(5)]; s.params.latency = r.below(3);
                const unsigned long long us = (1ull + s.params.latency) * s.params.interval * 2500ull;
                if (us % 10000ull) { s.params.interval = 40; s.params.latency = 1; }
                s.params.timeout = static_cast<unsigned>((1ull + s.params.latency) * s.params.interval * 2500ull / 10000ull);
                if (s.params.timeout < 10) { s.params.interval = 80; s.params.latency = 0; s.params.timeout = 20; }
                break;
            }
            case 8: s.params.timeout = min_timeout_for(s.params.interval, s.params.latency) - 1 - r.below(3); if (s.params.timeout < 10) { s.params.interval = 400; s.params.latency = 2; s.params.timeout = 200; } break;
            case 9: s.params.win_size = 0; break;
            case 10: s.params.win_size = 9 + r.below(240); s.params.interval = 300 + r.below(100); s.params.timeout = 3200; break;
            case 11: s.params.interval = 6 + r.below(3); s.params.win_size = s.params.interval; s.params.latency = 0; s.params.timeout = 100; s.params.win_offset = 0; break;   // == interval, allowed is interval - 1.25 ms
            case 12: s.params.win_offset = s.params.interval + 1 + r.below(1000); break;
            default: s.params.interval = 6 + r.below(3); s.params.win_size = s.params.interval + 1 + r.below(2); if (s.params.win_size > 8) s.params.win_size = 8; s.params.win_offset = 0; s.params.timeout = 100; s.params.latency = 0; break;
            }
            s.run_events = 8;
            break;
        }
        case 2: {   // runs of consecutively missed events
            s.cls = "missed_events";
            if (s.params.latency > 3) s.params.latency = r.below(4);
            s.params.timeout = 3200;
            const unsigned run = r.below(9);
            const long at = 1 + r.below(10);
            for (unsigned i = 0; i < run; ++i) s.faults[at + i] = r.chance(1, 4) ? sim::f_crc_first : sim::f_lost;
            for (unsigned i = 0; i < 3; ++i) if (r.chance(1, 2)) s.faults[at + run + 3 + r.below(20)] = static_cast<sim::fault_t>(1 + r.below(4));
            s.run_events = at + run + 30;
            break;
        }
        case 3: {   // the central disappears: supervision timeout
            s.cls = "supervision";
            s.params.interval = r.chance(1, 2) ? 6 + r.below(40) : 6 + r.below(400);
            s.params.latency = r.chance(1, 2) ? 0 : r.below(4);
            const unsigned tmin = min_timeout_for(s.params.interval, s.params.latency);
            s.params.timeout = r.chance(1, 2) ? tmin : tmin + r.below(300);
            if (s.params.timeout > 3200) s.params.timeout = 3200;
            const long from = r.chance(1, 4) ? 0 : 1 + r.below(12);      // 0: never established
            const long events = static_cast<long>(s.params.timeout * 10000ull / (s.params.interval * 1250ull)) + 12 + from;
            for (long k = from; k < from + events + 8 * (s.params.latency + 1); ++k) s.faults[k] = r.chance(1, 8) ? sim::f_crc_first : sim::f_lost;
            s.run_events = from + events + 8 * (s.params.latency + 1);
            break;
        }
        case 4: case 5: {   // connection update with a comfortable instant
            s.cls = "update";
            if (s.params.latency > 6) s.params.latency = r.below(7);
            s.params.timeout = 3200;
            sim::procedure p = random_update(r, s.params, 6);
            p.delta = 6 + s.params.latency + r.below(8);
            const long at = 2 + r.below(6);
            s.procs.push_back(std::make_pair(at, p));
            if (r.chance(1, 3)) s.faults[at + p.delta + s.params.latency] = sim::f_lost;        // around the instant
            if (r.chance(1, 3)) s.faults[at + p.delta + s.params.latency + 1] = sim::f_lost;
            if (r.chance(1, 4)) s.faults[at + 1 + r.below(4)] = sim::f_lost;
            s.run_events = at + p.delta + (s.params.latency + 1) * 3 + (p.latency + 1) * 5 + 12;
            break;
        }
        case 6: {   // long gaps between anchors: latency (if the configuration uses it) and large intervals
            s.cls = "long_elapsed";
            s.params.interval = r.chance(1, 2) ? 400 + r.below(2800) : 6 + r.below(100);
            unsigned lat_cap = 60;
            while (lat_cap > 0 && min_timeout_for(s.params.interval, lat_cap) > 3200) --lat_cap;
            s.params.latency = lat_cap ? r.below(lat_cap + 1) : 0;
            s.params.timeout = 3200;
            s.run_events = (s.params.latency + 1) * 8 + 6;
            for (unsigned i = 0; i < 2; ++i) if (r.chance(1, 2)) s.faults[2 + r.below(static_cast<unsigned>(s.run_events))] = sim::f_lost;
            break;
        }
        default: {  // random traffic, random faults
            s.cls = "random";
            s.params.timeout = 3200;
            if (s.params.latency > 8) s.params.latency = r.below(9);
            s.traffic.mode = static_cast<sim::traffic_policy::mode_t>(r.below(4));
            s.traffic.from_event = 1; s.traffic.to_event = 1000000; s.traffic.burst = 1 + r.below(3);
            s.run_events = 60 + r.below(60);
            const unsigned nf = r.below(10);
            for (unsigned i = 0; i < nf; ++i) s.faults[1 + r.below(static_cast<unsigned>(s.run_events))] = static_cast<sim::fault_t>(1 + r.below(4));
            s.ropt.max_exchanges = r.chance(1, 2) ? 1 : 2 + r.below(4);
            s.multi_pdu = s.ropt.max_exchanges > 1;
            break;
        }
        }
        if (s.cls != "invalid_single_field") {
            fit_window(s.params);
            if (s.win_delta0_us > s.params.win_size * 1250u) s.win_delta0_us = s.params.win_size * 1250u;
        }
        return s;
    }

    // ---------------------------------------------------------------- C21
    scenario c21(verif::prng& r, unsigned long long index) const {
        scenario s; s.mode = "c21";
        static const long deltas[] = { -32768, -1000, -2, -1, 0, 1, 2, 6, 0 /*latency*/, 0 /*latency+1*/, 500, 32766, 32767, 3 };
        static const unsigned lats[] = { 0, 3, 10 };
        const unsigned di = static_cast<unsigned>(index % 14);
        const unsigned ki = static_cast<unsigned>((index / 14) % 3);
        const unsigned li = static_cast<unsigned>((index / 42) % 3);
        const unsigned ti = static_cast<unsigned>((index / 126) % 3);
        const unsigned losses = static_cast<unsigned>((index / 378) % 4);
        random_valid_params(r, s.params, 0);
        s.params.interval = 6 + r.below(60);
        s.params.latency = lats[li];
        s.params.timeout = 3200;
        fit_window(s.params);
        const unsigned combined = sim::sca_ppm_table[s.params.sca] + local_ppm;
        s.drift_ppm = pick_drift(r, combined);
        sim::procedure p;
        p.kind = static_cast<sim::procedure::kind_t>(ki);
        long delta = deltas[di];
        if (di == 8) delta = static_cast<long>(s.params.latency);
        if (di == 9) delta = static_cast<long>(s.params.latency) + 1;
        p.delta = delta;
        if (p.kind == sim::procedure::conn_update) {
            const sim::procedure u = random_update(r, s.params, 10);
            p.win_size = u.win_size; p.win_offset = u.win_offset; p.interval = u.interval; p.latency = u.latency; p.timeout = u.timeout; p.win_delta_us = u.win_delta_us;
            p.timeout = 3200;
            if (p.interval > 80) p.interval = 6 + r.below(75);
            if (p.win_size > p.interval - 1) p.win_size = p.interval - 1;
            if (p.win_offset > p.interval) p.win_offset = p.interval;
            if (p.win_delta_us > p.win_size * 1250u) p.win_delta_us = p.win_size * 1250u;
            if (p.interval == s.params.interval) p.interval = p.interval == 6 ? 9 : p.interval - 1;
            // the interval is final now: keep the carried parameters valid
            if (p.win_size > p.interval - 1) p.win_size = p.interval - 1;
            if (p.win_size > 8) p.win_size = 8;
            if (p.win_offset > p.interval) p.win_offset = p.interval;
            if (p.win_delta_us > p.win_size * 1250u) p.win_delta_us = p.win_size * 1250u;
            while (min_timeout_for(p.interval, p.latency) > 3200) p.latency /= 2;
        } else if (p.kind == sim::procedure::chan_map) {
            do { p.map = random_map(r, 2); } while ((p.map & 0x1fffffffffull) == (s.params.map & 0x1fffffffffull));
        } else {
            static const std::uint8_t phys[][2] = { { 2, 2 }, { 2, 0 }, { 0, 2 }, { 2, 1 }, { 1, 2 } };
            const unsigned k = r.below(5);
            p.c2p = phys[k][0]; p.p2c = phys[k][1];
        }
        // the event (counter) at which the indication goes out
        const bool wrap = wrap_every && (index % wrap_every) == 7 && can_skip_cheaply(s);
        long at;
        if (wrap) {
            s.cls = "counter_near_wrap";
            // reach the 16 bit wrap cheaply: long latency lets the peripheral sleep through most events
            s.params.interval = 6;
            s.params.latency = 400;
            s.params.timeout = 3200;
            fit_window(s.params);
            at = 65536 - 8 + static_cast<long>(r.below(14)) - (delta > 0 && delta < 1000 ? static_cast<long>(r.below(static_cast<unsigned>(delta) + 1)) : 0);
            if (delta >= 32766) at = 32768 + 4 + r.below(20);
        } else {
            s.cls = "instant_grid";
            at = r.chance(1, 3) ? static_cast<long>(r.below(3)) : 3 + static_cast<long>(r.below(12));
        }
        p.bind_late = !r.chance(1, 5);
        // losses of the indication before the peripheral gets it
        p.lose_first = losses;
        p.lose_kind = r.chance(1, 3) ? sim::f_lost : sim::f_crc_first;
        s.procs.push_back(std::make_pair(at, p));
        // traffic while the procedure is pending
        if (ti == 1) { s.traffic.mode = sim::traffic_policy::request_per_event; }
        else if (ti == 2) { s.traffic.mode = r.chance(1, 2) ? sim::traffic_policy::command_burst : sim::traffic_policy::mixed; s.traffic.burst = 1 + r.below(3); }
        s.traffic.from_event = r.chance(1, 2) ? (wrap ? at - 40 : 0) : at;       // earlier traffic moves the ring pointers around
        s.traffic.to_event = 1000000;
        s.traffic.min_len = r.chance(1, 2) ? 4 : 12 + r.below(9);
        s.traffic.max_len = 20;
        const long horizon = delta > 0 && delta < 600 ? delta : 0;
        s.run_events = at + losses * (s.params.latency + 1) + horizon + (s.params.latency + 1) * 8 + 14;
        // (the indication waits for the first attended event, up to latency + 1 events after it was queued)
        if (wrap) s.run_events = at + 401 + losses * 401 + horizon + (s.traffic.mode == sim::traffic_policy::none ? 401 * 8 : 401 + 120);
        if (wrap && delta >= 32766) s.run_events = at + 10 * 401;
        return s;
    }
    bool can_skip_cheaply(const scenario&) const { return can_skip; }

    // ---------------------------------------------------------------- C23
    scenario c23(verif::prng& r, unsigned long long index) const {
        scenario s; s.mode = "c23";
        random_valid_params(r, s.params, 20);
        s.params.interval = 6 + r.below(80);
        if (index % 11 == 3) { s.params.interval = 6 + r.below(4); s.params.latency = 499; }
        else s.params.latency = r.below(21);
        s.params.timeout = 3200;
        fit_window(s.params);
        while (min_timeout_for(s.params.interval, s.params.latency) > 3200) s.params.latency /= 2;
        s.cls = s.params.latency == 499 ? "latency_499" : (s.params.latency == 0 ? "latency_0" : "latency_1_20");
        const unsigned combined = sim::sca_ppm_table[s.params.sca] + local_ppm;
        s.drift_ppm = pick_drift(r, combined);
        s.traffic.mode = static_cast<sim::traffic_policy::mode_t>(r.below(4));
        s.traffic.from_event = 2; s.traffic.to_event = 1000000; s.traffic.burst = 1 + r.below(2);
        s.traffic.min_len = 4; s.traffic.max_len = 20;
        s.ropt.max_exchanges = r.chance(1, 2) ? 1 : 2 + r.below(3);
        s.multi_pdu = s.ropt.max_exchanges > 1;
        s.ropt.fuzz_flags_permille = r.chance(1, 2) ? 0 : 100 + r.below(400);
        s.ropt.disarm_margin_us = r.chance(1, 2) ? 300 : 100 + r.below(3000);
        s.ropt.setup_margin_us = r.chance(1, 2) ? 0 : s.ropt.disarm_margin_us;
        s.subscribe = !r.chance(1, 4);
        s.notify_permille = s.subscribe ? (r.chance(1, 3) ? 0 : 50 + r.below(500)) : 0;
        s.switch_config_permille = n_configs > 1 ? 100 : 0;
        // about 60..120 attended connection events: with traffic nearly every event is attended, without it one in latency+1
        s.run_events = s.traffic.mode != sim::traffic_policy::none ? 60 + static_cast<long>(r.below(60)) + 2 * (s.params.latency + 1)
                                                                    : (20 + static_cast<long>(r.below(20))) * (s.params.latency + 1);
        if (s.run_events > 12000) s.run_events = 12000;
        const unsigned nf = r.below(8);
        for (unsigned i = 0; i < nf; ++i) s.faults[1 + r.below(static_cast<unsigned>(s.run_events))] = static_cast<sim::fault_t>(1 + r.below(4));
        // a connection update changes the latency in force; without traffic, so that the known loss of a pending indication's
        // memory (C21) cannot desynchronise the link in a C23 run
        if (r.chance(1, 5)) { s.traffic.mode = sim::traffic_policy::none; s.subscribe = false; s.notify_permille = 0; }
        if (s.traffic.mode == sim::traffic_policy::none && !s.subscribe) {
            sim::procedure p = random_update(r, s.params, 20);
            p.timeout = 3200; if (p.interval > 100) p.interval = 6 + r.below(90);
            if (p.win_size > p.interval - 1) p.win_size = p.interval - 1;
            if (p.win_offset > p.interval) p.win_offset = p.interval;
            if (p.win_delta_us > p.win_size * 1250u) p.win_delta_us = p.win_size * 1250u;
            p.delta = 6 + s.params.latency + r.below(10);
            s.procs.push_back(std::make_pair(3 + r.below(10), p));
        }
        return s;
    }

    // ---------------------------------------------------------------- shared by c21 / c22 / c23
    // A sleeping peripheral (latency > 0, listen_if_pending_transmit_data) whose planned event is pulled back because the
    // application notifies mid-sleep - while an instant based procedure is pending (instant 2..latency+3 events ahead, so
    // that the skip is both clamped and not clamped by the instant) and, as control, without a procedure.
    scenario pull_back_family(verif::prng& r, unsigned long long idx, const std::string& mode) const {
        scenario s; s.mode = mode;
        static const unsigned lats[] = { 1, 3, 10 };
        random_valid_params(r, s.params, 0);
        s.params.interval = 6 + r.below(60);
        s.params.latency = lats[idx % 3];
        s.params.timeout = 3200;
        fit_window(s.params);
        const unsigned kind = static_cast<unsigned>((idx / 3) % 4);          // 3 = control
        // 2 .. latency + 3 events ahead; where the reception of the indication itself forces the next event to be attended
        // (listen_if_last_received_not_empty in every selectable configuration) the sleep starts one event later
        const long first = n_configs == 1 && (features_all & F_RX_NOT_EMPTY) ? 3 : 2;
        const long delta = first + static_cast<long>((idx / 12) % (s.params.latency + 4 - first));
        s.cls = kind == 3 ? "pull_back_control" : "pending_procedure_pull_back";
        s.drift_ppm = pick_drift(r, sim::sca_ppm_table[s.params.sca] + local_ppm);
        static const unsigned margins[] = { 100, 300, 1000, 3000 };
        s.ropt.disarm_margin_us = margins[r.below(4)];
        s.ropt.setup_margin_us = r.chance(1, 2) ? 0 : s.ropt.disarm_margin_us;
        s.subscribe = true;
        s.notify_skips = 1 + r.below(3);
        s.notify_pos = static_cast<unsigned>((idx / 12 / 13) % 3);
        if (r.chance(1, 5)) s.notify_pos = 3;
        // configuration sets: strict (pending data | MD) or the default configuration, both contain listen_if_pending_transmit_data
        s.start_config = n_configs > 1 ? (r.chance(1, 2) ? 1 : 3) : 0;
        const long at = 6 + static_cast<long>(r.below(2 * (s.params.latency + 1)));
        s.notify_not_before = at;
        if (kind != 3) {
            sim::procedure p;
            p.kind = static_cast<sim::procedure::kind_t>(kind);
            p.delta = delta;
            if (p.kind == sim::procedure::conn_update) {
                const sim::procedure u = random_update(r, s.params, 10);
                p.win_size = u.win_size; p.win_offset = u.win_offset; p.interval = u.interval; p.latency = u.latency; p.win_delta_us = u.win_delta_us;
                p.timeout = 3200;
                if (p.interval > 80) p.interval = 6 + r.below(75);
                if (p.interval == s.params.interval) p.interval = p.interval == 6 ? 9 : p.interval - 1;
                if (p.win_size > p.interval - 1) p.win_size = p.interval - 1;
                if (p.win_size > 8) p.win_size = 8;
                if (p.win_offset > p.interval) p.win_offset = p.interval;
                if (p.win_delta_us > p.win_size * 1250u) p.win_delta_us = p.win_size * 1250u;
                while (min_timeout_for(p.interval, p.latency) > 3200) p.latency /= 2;
            } else if (p.kind == sim::procedure::chan_map) {
                do { p.map = random_map(r, 2); } while ((p.map & 0x1fffffffffull) == (s.params.map & 0x1fffffffffull));
            } else {
                static const std::uint8_t phys[][2] = { { 2, 2 }, { 2, 0 }, { 0, 2 }, { 2, 1 }, { 1, 2 } };
                const unsigned k = r.below(5);
                p.c2p = phys[k][0]; p.p2c = phys[k][1];
            }
            p.bind_late = true;
            s.procs.push_back(std::make_pair(at, p));
        }
        s.run_events = at + (s.params.latency + 1) * (5 + 2 * s.notify_skips) + delta + 12;
        return s;
    }
    bool has_pending_data_option() const { return (features_all & F_PENDING) != 0; }

    // ---------------------------------------------------------------- C20 end to end
    scenario c20(verif::prng& r, unsigned long long index) const {
        scenario s; s.mode = "c20";
        random_valid_params(r, s.params, 12);
        s.params.interval = 6 + r.below(30);
        s.params.timeout = 3200;
        fit_window(s.params);
        while (min_timeout_for(s.params.interval, s.params.latency) > 3200) s.params.latency /= 2;
        s.params.map = random_map(r, 2);
        if (r.chance(1, 4)) s.params.map = (1ull << r.below(37)) | (1ull << r.below(37)) | (1ull << r.below(37));
        if (csa1::num_used(s.params.map) < 2) s.params.map = 0x1000000001ull;
        const unsigned combined = sim::sca_ppm_table[s.params.sca] + local_ppm;
        s.drift_ppm = pick_drift(r, combined);
        s.cls = "map_updates";
        s.run_events = 90 + r.below(80);
        switch (index % 8) {
        case 0: {   // CONNECT_IND with an invalid hop / fewer than two channels: must not produce a connection
            s.cls = "invalid_channel_parameters";
            if (r.chance(1, 2)) s.params.hop = r.chance(1, 2) ? r.below(5) : 17 + r.below(15);
            else s.params.map = r.chance(1, 3) ? 0 : ((1ull << r.below(37)) | (static_cast<std::uint64_t>(r.below(8)) << 37));
            s.run_events = 8;
            return s;
        }
        case 1: {   // channel map update carrying fewer than two channels: must not be applied
            s.cls = "invalid_map_update";
            sim::procedure p; p.kind = sim::procedure::chan_map;
            p.map = r.chance(1, 3) ? 0 : ((1ull << r.below(37)) | (static_cast<std::uint64_t>(r.below(8)) << 37));
            p.delta = 6 + s.params.latency + r.below(6);
            s.procs.push_back(std::make_pair(2 + r.below(6), p));
            return s;
        }
        case 2: {   // across the 16 bit wrap of the event counter
            if (can_skip && wrap_every && (index / 8) % ((wrap_every + 7) / 8) == 0) {
                s.cls = "counter_wrap";
                s.params.interval = 6; s.params.latency = 300 + r.below(150); s.params.timeout = 3200; fit_window(s.params);
                s.run_events = 65536 + 40 * (s.params.latency + 1);
                sim::procedure p; p.kind = sim::procedure::chan_map; p.map = random_map(r, 2);
                p.delta = 6 + s.params.latency + r.below(700);
                s.procs.push_back(std::make_pair(65536 - 900 + r.below(1000), p));
                return s;
            }
        }   // fall through
        default: {
            const unsigned n = 1 + r.below(4);
            long at = 2 + r.below(6);
            for (unsigned i = 0; i < n; ++i) {
                sim::procedure p; p.kind = sim::procedure::chan_map;
                p.map = random_map(r, 2);
                if (r.chance(1, 4)) p.map = (1ull << r.below(37)) | (1ull << (r.below(36) + 1)) | 1ull;
                p.delta = 6 + s.params.latency + r.below(10);
                s.procs.push_back(std::make_pair(at, p));
                at += p.delta + (s.params.latency + 1) * 2 + 3 + r.below(10);
            }
            s.run_events = at + 40 + (s.params.latency + 1) * 4;
            const unsigned nf = r.below(5);
            for (unsigned i = 0; i < nf; ++i) s.faults[1 + r.below(static_cast<unsigned>(s.run_events))] = static_cast<sim::fault_t>(1 + r.below(4));
            return s;
        }
        }
    }
};

// ------------------------------------------------------------------------------------------------ runner
inline bool& trace_flag() { static bool t = false; return t; }

template <class LL, class Traits>
struct runner {
    static unsigned counter_of(void* p) { return static_cast<LL*>(p)->connection_event_counter(); }

    static void run(const scenario& s, unsigned long long step, std::uint64_t seed) {
        verif::prng r(seed ^ 0x5bd1e995u);
        LL* ll = new LL;                                 // on the heap: ASan red zones around the whole object
        sim::radio_core& rc = *ll;
        sim::central central;
        monitor mon;
        central.params = s.params;
        central.faults = s.faults;
        central.traffic = s.traffic;
        central.drift_ppm(s.drift_ppm);
        central.first_event_window_delta(s.win_delta0_us);
        central.multi_pdu_events(s.multi_pdu);
        central.seed(seed * 0x9e3779b97f4a7c15ull + 11);
        for (std::size_t i = 0; i < s.procs.size(); ++i) central.add_procedure(s.procs[i].second, s.procs[i].first);
        if (s.terminate_at >= 0) central.terminate_at(s.terminate_at, 0x13);
        if (s.subscribe) { std::vector<std::uint8_t> v; v.push_back(1); v.push_back(0); central.write_request_at(0, 4, v); }
        int cfg = s.start_config >= 0 && s.start_config < static_cast<int>(Traits::configs) ? s.start_config : 0;
        Traits::select(*ll, cfg);
        mon.c = &central; mon.radio = &rc; mon.local_ppm = Traits::local_sca_ppm; mon.features = Traits::features(cfg);
        mon.config = Traits::name(); mon.scenario = describe(s, Traits::local_sca_ppm); mon.step = step;
        for (std::size_t i = 0; i < s.procs.size(); ++i) {
            const sim::procedure& p = s.procs[i].second;
            if (p.kind == sim::procedure::conn_update && !sim::connect_ind_defects(update_as_params(p, s.params)).empty()) mon.pending_invalid_update_ = true;
        }
        ctx().mon = &mon; ctx().counter = &counter_of; ctx().ll = ll; ctx().last_written_id = 0;
        rc.attach(&central, &mon, s.ropt, seed);
        rc.echo_log(trace_flag());

        unsigned long steps = 0;
        unsigned long adv_at_close = 0;
        bool closed_seen = false;
        unsigned last_heard = 0;
        unsigned notify_skips_left = s.notify_skips;
        bool planned_end = false;
        const bool expect_connection = sim::connect_ind_defects(s.params).empty();
        while (steps++ < s.max_steps) {
            if (mon.closed && !closed_seen) { closed_seen = true; adv_at_close = rc.advertising_events(); central.disconnect_silently(); }
            if (closed_seen && rc.advertising_events() >= adv_at_close + 2) break;
            if (mon.connect_seen && !mon.closed && central.connected() && central.next_event() > s.run_events) { planned_end = true; break; }
            if (mon.connect_seen && !mon.closed && !central.connected() && rc.advertising_events() > 3 && !rc.connection_event_pending()) break;
            if (mon.connect_seen && !mon.established && rc.advertising_events() >= 6) break;      // CONNECT_IND ignored
            if (mon.consecutive_in_past > 3000) {
                // virtual time does not advance any more: every event is scheduled for a time that already passed
                mon.viol(s.mode == "c21" ? "C21" : (s.mode == "c23" ? "C23" : (s.mode == "c20" ? "C20" : "C22")), std::string("C") + s.mode.substr(1) + ":hang:connection_events_scheduled_in_the_past_forever",
                         "3000 consecutive schedule_connection_event calls for a window that was already over");
                break;
            }
            if (rc.idle_runs() > 3) {
                if (mon.connect_seen && !mon.established) verif::mon("C22").count("diag_link_layer_idle_after_rejected_connect_ind");
                if (mon.established && !mon.closed)
                    mon.viol("C22", "C22:schedule:nothing_scheduled", "the link layer has neither an advertising nor a connection event scheduled");
                break;
            }
            // the application: notifications between two connection events, configuration switches
            if (mon.connect_seen && !mon.closed && rc.connection_event_pending() && mon.heard_count != last_heard) {
                last_heard = mon.heard_count;
                if (s.switch_config_permille && r.below(1000) < s.switch_config_permille && Traits::configs > 1) {
                    cfg = static_cast<int>(r.below(Traits::configs));
                    Traits::select(*ll, cfg);
                    mon.features = Traits::features(cfg);
                    rc.log(std::string("application selects latency configuration #") + std::to_string(cfg) + ": " + features_str(mon.features));
                    verif::mon("C23").count("configuration_switches");
                }
                if (notify_skips_left && rc.connection_event_pending() && !rc.current().in_past) {
                    // a sleep: the planned event is not the next one. Only sleeps that begin after the procedure arrived (control: after
                    // the event it would have been queued at) are used
                    const long planned = monitor::K_of(rc.current());
                    const bool armed = s.procs.empty() ? mon.last_completed_K >= s.notify_not_before : (!mon.pobs.empty() && mon.pobs[0].c_rx >= 0);
                    const sim::vtime opens = rc.pending_window_start();
                    const sim::vtime gap = opens - rc.now();
                    if (armed && planned - mon.last_completed_K >= 2 && gap > 10) {
                        --notify_skips_left;
                        sim::vtime at;
                        const sim::vtime span = static_cast<sim::vtime>(s.ropt.disarm_margin_us) * 2 + 50;
                        switch (s.notify_pos) {
                        case 0: at = rc.now() + 1 + static_cast<sim::vtime>(r.below(static_cast<std::uint32_t>(gap < 2000 ? gap : 2000))); break;
                        case 1: at = rc.now() + gap / 2 + static_cast<sim::vtime>(r.below(static_cast<std::uint32_t>(gap / 4 + 1))) - gap / 8; break;
                        case 2: at = opens - 1 - static_cast<sim::vtime>(r.below(static_cast<std::uint32_t>(gap < span ? gap : span))); break;
                        default: at = rc.now() + 1 + static_cast<sim::vtime>(r.next() % static_cast<std::uint64_t>(gap - 1)); break;
                        }
                        rc.pause_at(at);
                        mon.note_notify_in_sleep(planned);
                    }
                }
                if (s.notify_permille && r.below(1000) < s.notify_permille) {
                    const sim::vtime opens = rc.pending_window_start();
                    const sim::vtime gap = opens - rc.now();
                    if (gap > 10) {
                        // anywhere in the gap, biased to the very end (inside the radio's safety margin) and the very beginning
                        sim::vtime at;
                        switch (r.below(4)) {
                        case 0: at = opens - 1 - static_cast<sim::vtime>(r.below(static_cast<std::uint32_t>(gap < 4000 ? gap : 4000))); break;
                        case 1: at = rc.now() + 1 + static_cast<sim::vtime>(r.below(static_cast<std::uint32_t>(gap < 2000 ? gap : 2000))); break;
                        default: at = rc.now() + 1 + static_cast<sim::vtime>(r.next() % static_cast<std::uint64_t>(gap - 1)); break;
                        }
                        rc.pause_at(at);
                    }
                }
            }
            verif::ctx_step(step);
            ll->run();
            if (rc.paused()) {
                rc.log("application: notify()");
                verif::mon("C23").count("notify_calls");
                ll->template notify<value_uuid>();
            }
        }
        if (steps >= s.max_steps)
            mon.viol(s.mode == "c21" ? "C21" : (s.mode == "c23" ? "C23" : (s.mode == "c20" ? "C20" : "C22")), std::string("C") + s.mode.substr(1) + ":hang:scenario_step_budget",
                     "scenario did not finish within " + std::to_string(s.max_steps) + " radio steps");
        mon.finish_scenario(planned_end);

        // coverage bookkeeping of the scenario as a whole
        verif::monitor& M = verif::mon(s.mode == "c21" ? "C21" : (s.mode == "c23" ? "C23" : (s.mode == "c20" ? "C20" : "C22")));
        M.cls("scenario_" + s.cls);
        M.count("scenarios");
        M.count("connection_events_completed", mon.heard_count);
        M.count("schedule_calls", mon.recs.size());
        if (mon.established) M.count("connections_established");
        if (!expect_connection) {
            M.cls(mon.established ? "invalid_connect_ind_accepted" : "invalid_connect_ind_ignored");
            verif::mon("C22").eval(); verif::mon("C20").eval();
        }
        if (mon.ring_full_events) M.count("events_with_full_receive_ring", mon.ring_full_events);
        if (s.mode == "c20" && s.cls == "invalid_map_update") judge_invalid_map_update(mon, central, s);
        if (M.samples.size() < 4 && mon.established) {
            std::string js = "{\"config\":\"" + verif::jesc(mon.config) + "\",\"scenario\":\"" + verif::jesc(mon.scenario) + "\",\"completed_events\":" + std::to_string(mon.heard_count) +
                             ",\"schedule_calls\":" + std::to_string(mon.recs.size()) + ",\"closed_reason\":" + std::to_string(mon.closed_reason) + ",\"log_tail\":\"" + verif::jesc(rc.log_excerpt(6)) + "\"}";
            M.sample_json(js, 4);
        }
        ctx().mon = nullptr;
        delete ll;
    }

    static sim::conn_params update_as_params(const sim::procedure& p, const sim::conn_params& base) {
        sim::conn_params q = base;
        q.win_size = p.win_size; q.win_offset = p.win_offset; q.interval = p.interval; q.latency = p.latency; q.timeout = p.timeout;
        return q;
    }

    // C20: a channel map indication with fewer than two used channels is not applied: the old map stays in use after the instant
    static void judge_invalid_map_update(monitor& mon, sim::central& central, const scenario& s) {
        verif::monitor& M = verif::mon("C20");
        const std::vector<sim::procedure>& ps = central.procedures();
        if (ps.empty() || ps[0].tx_event < 0 || mon.pobs.empty() || mon.pobs[0].c_rx < 0) return;
        // the central model applied the (invalid) map at the instant: ground truth for "not applied" is the old map
        const std::uint64_t oldmap = s.params.map & 0x1fffffffffull;
        unsigned judged = 0;
        for (std::size_t i = 0; i < mon.recs.size(); ++i) {
            const long K = mon.rec_K[i];
            if (K < ps[0].instant) continue;
            const unsigned expect = csa1::data_channel(oldmap, s.params.hop, static_cast<unsigned long>(K));
            M.eval(); ++judged;
            if (mon.recs[i].channel != expect) {
                mon.viol("C20", "C20:e2e:invalid_channel_map_update_applied",
                         "LL_CHANNEL_MAP_IND with ChM=0x" + monitor::hex64(ps[0].map) + " (fewer than two used channels), instant event " + std::to_string(ps[0].instant) + ": central event " + std::to_string(K) +
                             " scheduled on channel " + std::to_string(mon.recs[i].channel) + ", the unchanged map gives " + std::to_string(expect));
                break;
            }
        }
        if (judged) M.cls("invalid_map_update_not_applied_checked");
    }
};

template <class LL, class Traits>
int harness_main(int argc, char** argv) {
    verif::args a(argc, argv);
    verif::install_crash_handler();
    const std::string mode = a.str("mode", "c22");
    const unsigned long long seed = a.num("seed", 1);
    const unsigned long long ops = a.num("ops", 200);
    const unsigned long long first = a.num("first", 0);
    const std::string prop = mode == "c21" ? "C21" : (mode == "c23" ? "C23" : (mode == "c20" ? "C20" : "C22"));
    verif::ctx_prop(prop.c_str());
    verif::run_config() = std::string("conn ") + Traits::name() + " mode=" + mode;
    verif::ctx_config(verif::run_config());
    std::set<unsigned long long> skips;
    {
        const std::string sk = a.str("skip", "");
        std::size_t pos = 0;
        while (pos < sk.size()) { skips.insert(std::strtoull(sk.c_str() + pos, nullptr, 10)); pos = sk.find(',', pos); if (pos == std::string::npos) break; ++pos; }
    }
    trace_flag() = a.has("trace");
    generator g;
    g.local_ppm = Traits::local_sca_ppm;
    g.n_configs = Traits::configs;
    g.features_all = 0; g.can_skip = false;
    g.wrap_every = static_cast<unsigned>(a.num("wrap_every", 97));
    for (unsigned i = 0; i < Traits::configs; ++i) { g.features_all |= Traits::features(static_cast<int>(i)); if (!(Traits::features(static_cast<int>(i)) & F_ALWAYS)) g.can_skip = true; }

    for (unsigned long long n = first; n < first + ops; ++n) {
        // every scenario has its own random stream: skipping one does not change the others
        std::uint64_t ss = verif::mix(verif::mix(verif::hstr(mode), seed), n);
        verif::prng r(ss);
        // the scenario index walks the grid; the seed shifts the walk so that different seeds visit different grid cells first
        const unsigned long long index = n + seed * 7919ull;
        // every 4th scenario of c21 / c22 / c23 belongs to the shared pull-back family (option sets with listen_if_pending_transmit_data
        // only); the others walk the mode's own grid without gaps
        const bool family = mode != "c20" && g.has_pending_data_option() && index % 4 == 3;
        const unsigned long long own = mode != "c20" && g.has_pending_data_option() ? index - index / 4 - (index % 4 == 3 ? 1 : 0) : index;
        scenario s = family ? g.pull_back_family(r, index / 4, mode)
                            : (mode == "c21" ? g.c21(r, own) : (mode == "c23" ? g.c23(r, own) : (mode == "c20" ? g.c20(r, index) : g.c22(r, own))));
        if (a.has("only_class") && s.cls != a.str("only_class")) continue;
        verif::ctx_step(n);
        const std::string d = describe(s, Traits::local_sca_ppm);
        verif::ctx_op(d.c_str());
        if (skips.count(n)) continue;
        if (a.has("trace")) std::fprintf(stderr, "#%llu %s\n", n, d.c_str());
        runner<LL, Traits>::run(s, n, ss);
    }
    // the monitors that did not take part in this mode still report (zero) so that the driver sees them
    verif::finish();
    return 0;
}

} // namespace llconn

#endif
