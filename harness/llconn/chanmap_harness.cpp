// C20 (unit part): bluetoe::link_layer::channel_map against an independent Channel Selection Algorithm #1.
//
// For every (map, hop) of the enumerated families and of a random sample the real class is driven through the
// three ways the link layer uses it
//   connect : reset( map, hop ) on a fresh object                (CONNECT_IND)
//   update  : reset( map ) on an object holding (A, hopA)        (LL_CHANNEL_MAP_IND at its instant)
//   reject  : reset( map, hop ) on an object holding (A, hopA)   (must not touch the active map if it returns false)
// and data_channel( 0..36 ) is compared with csa1::data_channel().
#include <bluetoe/channel_map.hpp>
#include "common/verif.hpp"
#include "llconn/csa1_ref.hpp"

#include <string>

namespace ll = bluetoe::link_layer;
using verif::mon;

static unsigned long long g_step = 0;

static std::string map_hex(std::uint64_t bits) {
    char b[32];
    std::snprintf(b, sizeof b, "%010llx", static_cast<unsigned long long>(bits));
    return b;
}

static std::string describe(const char* family, std::uint64_t bits, unsigned hop) {
    return std::string("family=") + family + " map(bit i=channel i)=0x" + map_hex(bits) + " used=" + std::to_string(csa1::num_used(bits)) +
           " hop=" + std::to_string(hop);
}

// the active map as the class exposes it
struct snapshot {
    unsigned ch[37];
    bool operator==(const snapshot& o) const { return std::memcmp(ch, o.ch, sizeof ch) == 0; }
};
static snapshot take(const ll::channel_map& m) {
    snapshot s;
    for (unsigned i = 0; i < 37; ++i) s.ch[i] = m.data_channel(i);
    return s;
}
static std::string snap_str(const snapshot& s) {
    std::string r;
    for (unsigned i = 0; i < 37; ++i) { if (i) r += ","; r += std::to_string(s.ch[i]); }
    return r;
}

static void compare(const char* family, const char* path, const ll::channel_map& cm, std::uint64_t bits, unsigned ref_hop,
                    const std::string& what) {
    verif::monitor& M = mon("C20");
    unsigned remapped = 0;
    for (unsigned i = 0; i < 37; ++i) {
        const unsigned expect = csa1::data_channel(bits, ref_hop, i);
        const unsigned got = cm.data_channel(i);
        M.eval();
        if (!csa1::used(bits, csa1::unmapped_channel(ref_hop, i))) ++remapped;
        if (got != expect) {
            const bool got_unused = !csa1::used(bits, got);
            verif::violation("C20", std::string("C20:chanmap:") + path + (got_unused ? ":unused_channel_selected" : ":wrong_channel"),
                             what + " event_index=" + std::to_string(i) + " expected=" + std::to_string(expect) + " observed=" +
                                 std::to_string(got) + " observed_sequence=" + snap_str(take(cm)),
                             g_step);
            break;
        }
    }
    M.cls(remapped ? "remapped_index" : "all_unmapped_used");
    std::uint64_t h = verif::hstr(std::string(family) + path);
    h = verif::mix(h, csa1::num_used(bits)); h = verif::mix(h, ref_hop); h = verif::mix(h, remapped);
    M.nontrivial(h);
}

// one (map, hop) through all three paths
static void check_case(const char* family, std::uint64_t bits40, unsigned hop, verif::prng& r) {
    verif::monitor& M = mon("C20");
    const std::uint64_t bits = bits40;                      // including the reserved bits 37..39
    const bool v_hop = csa1::valid_hop(hop);
    const bool v_map = csa1::valid_map(bits);
    const csa1::map_t raw = csa1::make_map(bits);
    verif::exact_buffer map(raw.b, 5);                      // exactly 5 octets: reading a 6th is an ASan report
    const std::string what = describe(family, bits, hop);
    verif::ctx_step(++g_step);
    verif::ctx_op(what.c_str());

    M.cls(family);
    if (bits >> 37) M.cls("rfu_bits_set");

    // ---- connect: fresh object
    {
        ll::channel_map cm;
        const bool got = cm.reset(map.data(), hop);
        M.eval();
        if (got != (v_hop && v_map)) {
            const char* kind = got ? (!v_hop ? "invalid_hop_accepted" : "too_few_channels_accepted") : "valid_parameters_rejected";
            verif::violation("C20", std::string("C20:chanmap:connect:") + kind, what + " reset(map,hop) returned " + (got ? "true" : "false"), g_step);
        } else if (got) {
            compare(family, "connect", cm, bits, hop, what);
        } else {
            M.cls(!v_hop ? "invalid_hop_rejected" : (csa1::num_used(bits) == 0 ? "empty_rejected" : "single_channel_rejected"));
            std::uint64_t h = verif::hstr(std::string(family) + "rejected");
            h = verif::mix(h, csa1::num_used(bits) < 2 ? csa1::num_used(bits) : 2); h = verif::mix(h, hop);
            M.nontrivial(h);
        }
    }

    // ---- an object that already carries a valid map A / hop A (an established connection)
    static const std::uint64_t A_maps[3] = { 0x1fffffffffull, 0x0000000c03ull, 0x1555555555ull };
    const std::uint64_t A = A_maps[r.below(3)];
    const unsigned hopA = 5 + r.below(12);
    const csa1::map_t rawA = csa1::make_map(A);
    verif::exact_buffer mapA(rawA.b, 5);

    // ---- update: reset( map ) keeps the hop
    {
        ll::channel_map cm;
        cm.reset(mapA.data(), hopA);
        const snapshot before = take(cm);
        const bool got = cm.reset(map.data());
        M.eval();
        const std::string w = what + " (channel map update on a connection with map=0x" + map_hex(A) + " hop=" + std::to_string(hopA) + ")";
        if (got != v_map) {
            verif::violation("C20", std::string("C20:chanmap:update:") + (got ? "too_few_channels_accepted" : "valid_map_rejected"),
                             w + " reset(map) returned " + (got ? "true" : "false"), g_step);
        } else if (got) {
            M.cls("update_keep_hop");
            compare(family, "update", cm, bits, hopA, w);
        } else {
            M.cls("reject_keeps_active_map");
            M.eval();
            if (!(take(cm) == before))
                verif::violation("C20", "C20:chanmap:update:active_map_modified_by_rejected_map",
                                 w + " before=" + snap_str(before) + " after=" + snap_str(take(cm)), g_step);
        }
    }

    // ---- reject: reset( map, hop ) returning false must leave the active sequence alone
    if (!(v_hop && v_map)) {
        ll::channel_map cm;
        cm.reset(mapA.data(), hopA);
        const snapshot before = take(cm);
        const bool got = cm.reset(map.data(), hop);
        M.eval(2);
        const std::string w = what + " (on an object holding map=0x" + map_hex(A) + " hop=" + std::to_string(hopA) + ")";
        if (got)
            verif::violation("C20", std::string("C20:chanmap:reject:") + (!v_hop ? "invalid_hop_accepted" : "too_few_channels_accepted"), w, g_step);
        else if (!(take(cm) == before))
            verif::violation("C20", "C20:chanmap:reject:active_map_modified_by_rejected_parameters",
                             w + " before=" + snap_str(before) + " after=" + snap_str(take(cm)), g_step);
        M.cls("reject_keeps_active_map");

        // diagnostic only (no call sequence of the link layer reaches it: a rejected CONNECT_IND leaves no connection whose
        // map could be updated): does a later reset( map ) still use the hop of the last *accepted* reset?
        const std::uint64_t C = 0x1ffffffffeull;
        const csa1::map_t rawC = csa1::make_map(C);
        verif::exact_buffer mapC(rawC.b, 5);
        if (cm.reset(mapC.data())) {
            bool same = true;
            for (unsigned i = 0; i < 37 && same; ++i) same = cm.data_channel(i) == csa1::data_channel(C, hopA, i);
            if (!same) M.count("diag_hop_replaced_by_rejected_reset_then_used_by_reset_map");
        }
    }
}

static void with_rfu_variants(const char* family, std::uint64_t bits, verif::prng& r, unsigned long long& maps) {
    const std::uint64_t rfu[3] = { 0, 7, static_cast<std::uint64_t>(1 + r.below(6)) };
    for (int v = 0; v < 3; ++v) {
        for (unsigned hop = 0; hop < 32; ++hop) check_case(family, bits | (rfu[v] << 37), hop, r);
        ++maps;
    }
}

int main(int argc, char** argv) {
    verif::args a(argc, argv);
    verif::install_crash_handler();
    verif::ctx_prop("C20");
    const unsigned long long seed = a.num("seed", 1);
    verif::prng r(seed);
    const unsigned long long random_maps = a.num("ops", 100000);
    const bool families = a.num("families", 1) != 0;
    verif::run_config() = std::string("chanmap families=") + (families ? "1" : "0") + " random_maps=" + std::to_string(random_maps);
    verif::ctx_config(verif::run_config());
    verif::monitor& M = mon("C20");

    if (families) {
        unsigned long long maps = 0;
        // all C(37,2) = 666 maps with exactly two used channels
        for (unsigned i = 0; i < 37; ++i)
            for (unsigned j = i + 1; j < 37; ++j)
                with_rfu_variants("two_channel", (1ull << i) | (1ull << j), r, maps);
        // the full map and all 37 maps with exactly one channel removed
        const std::uint64_t full = (1ull << 37) - 1;
        with_rfu_variants("full_map", full, r, maps);
        for (unsigned i = 0; i < 37; ++i) with_rfu_variants("one_removed", full & ~(1ull << i), r, maps);
        // all 37 single channel maps and the empty map: must be rejected
        with_rfu_variants("empty", 0, r, maps);
        for (unsigned i = 0; i < 37; ++i) with_rfu_variants("single_channel", 1ull << i, r, maps);
        // used channels contiguous at the low / high end
        for (unsigned k = 2; k <= 37; ++k) {
            with_rfu_variants("contiguous_low", (1ull << k) - 1, r, maps);
            with_rfu_variants("contiguous_high", (full >> (37 - k)) << (37 - k), r, maps);
        }
        M.count("enumerated_maps_x_rfu_variants", maps);
        M.sample_json("{\"enumerated\":\"666 two-channel + full + 37 one-removed + empty + 37 single + 2x36 contiguous maps, x3 variants of reserved bits 37..39, x hops 0..31, x 37 event indices, x {connect, update, reject} paths\",\"maps_x_variants\":" + std::to_string(maps) + "}");
    }

    // random maps: number of used channels uniform in 0..37 (so sparse and dense maps are equally likely), random
    // subset, random reserved bits, hop biased to the valid range
    for (unsigned long long n = 0; n < random_maps; ++n) {
        const unsigned k = r.below(38);
        std::uint64_t bits = 0;
        unsigned chosen = 0;
        for (unsigned c = 0; c < 37; ++c) {
            // selection sampling: exactly k of 37
            if (r.below(37 - c) < k - chosen) { bits |= 1ull << c; ++chosen; }
        }
        bits |= static_cast<std::uint64_t>(r.below(8)) << 37;
        const unsigned hop = r.chance(3, 4) ? 5 + r.below(12) : r.below(32);
        check_case("random_map", bits, hop, r);
        if (n < 3) M.sample_json("{\"random_case\":\"" + describe("random_map", bits, hop) + "\"}");
    }
    M.count("random_maps", random_maps);
    M.exhaustive = false;   // the enumerated families are complete, the 2^37 space is sampled
    verif::finish();
    return 0;
}
