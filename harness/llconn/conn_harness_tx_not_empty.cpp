// link layer option set "tx_not_empty": peripheral_latency_configuration< listen_if_last_transmitted_not_empty > alone, 300 ppm
#include "llconn/conn_harness.hpp"

llconn::callbacks_t llconn_callbacks;

namespace bl = bluetoe::link_layer;

typedef bl::link_layer<
    llconn::server_t, sim::radio,
    bl::connection_callbacks< llconn::callbacks_t, llconn_callbacks >,
    bl::peripheral_latency_configuration< bl::peripheral_latency::listen_if_last_transmitted_not_empty >,
    bl::sleep_clock_accuracy_ppm< 300 >,
    bl::buffer_sizes< 61, 122 >
> ll_t;

struct traits {
    static const char* name() { return "tx_not_empty"; }
    static const unsigned local_sca_ppm = 300;
    static const unsigned configs = 1;
    // listen conditions per selectable configuration, written from the documentation in bluetoe/peripheral_latency.hpp
    static unsigned features(int cfg) {
        (void)cfg; return llconn::F_TX_NOT_EMPTY;
    }
    template <class LL> static void select(LL& ll, int cfg) {
        (void)ll; (void)cfg;
    }
};

int main(int argc, char** argv) { return llconn::harness_main< ll_t, traits >(argc, argv); }
