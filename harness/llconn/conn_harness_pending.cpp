// link layer option set "pending": peripheral_latency_configuration< listen_if_pending_transmit_data > alone, 30 ppm
#include "llconn/conn_harness.hpp"

llconn::callbacks_t llconn_callbacks;

namespace bl = bluetoe::link_layer;

typedef bl::link_layer<
    llconn::server_t, sim::radio,
    bl::connection_callbacks< llconn::callbacks_t, llconn_callbacks >,
    bl::peripheral_latency_configuration< bl::peripheral_latency::listen_if_pending_transmit_data >,
    bl::sleep_clock_accuracy_ppm< 30 >
> ll_t;

struct traits {
    static const char* name() { return "pending"; }
    static const unsigned local_sca_ppm = 30;
    static const unsigned configs = 1;
    // listen conditions per selectable configuration, written from the documentation in bluetoe/peripheral_latency.hpp
    static unsigned features(int cfg) {
        (void)cfg; return llconn::F_PENDING;
    }
    template <class LL> static void select(LL& ll, int cfg) {
        (void)ll; (void)cfg;
    }
};

int main(int argc, char** argv) { return llconn::harness_main< ll_t, traits >(argc, argv); }
