// Independent reference for Channel Selection Algorithm #1, Bluetooth Core Vol 6 Part B 4.5.8.2.
//
//   unmappedChannel     = (lastUnmappedChannel + hopIncrement) mod 37
//   lastUnmappedChannel = 0 for the first connection event of a connection, afterwards the unmappedChannel
//                         of the previous connection event (whether or not the peripheral listened to it)
//   if unmappedChannel is a used channel:  data channel = unmappedChannel
//   else remappingIndex = unmappedChannel mod numUsedChannels, data channel = remapping table[remappingIndex],
//        the remapping table holding all used channels in ascending order.
//
// The reference is written as the recurrence of the specification (it iterates from the first event), it is
// not a closed form and shares no code or table with bluetoe::link_layer::channel_map.
#ifndef VERIF_LLCONN_CSA1_REF_HPP
#define VERIF_LLCONN_CSA1_REF_HPP

#include <cstdint>
#include <vector>

namespace csa1 {

static const unsigned num_data_channels = 37;

struct map_t {
    std::uint8_t b[5];
};

inline map_t make_map(std::uint64_t bits) {
    map_t m;
    for (int i = 0; i < 5; ++i) m.b[i] = static_cast<std::uint8_t>(bits >> (8 * i));
    return m;
}

inline std::uint64_t map_bits(const std::uint8_t* map) {
    std::uint64_t r = 0;
    for (int i = 0; i < 5; ++i) r |= static_cast<std::uint64_t>(map[i]) << (8 * i);
    return r;
}

// bits 37..39 are reserved for future use and carry no channel
inline bool used(std::uint64_t bits, unsigned channel) {
    return channel < num_data_channels && ((bits >> channel) & 1u) != 0;
}

inline std::vector<unsigned> remapping_table(std::uint64_t bits) {
    std::vector<unsigned> t;
    for (unsigned c = 0; c < num_data_channels; ++c)
        if (used(bits, c)) t.push_back(c);
    return t;
}

inline unsigned num_used(std::uint64_t bits) { return static_cast<unsigned>(remapping_table(bits).size()); }

inline bool valid_hop(unsigned hop) { return hop >= 5 && hop <= 16; }
inline bool valid_map(std::uint64_t bits) { return num_used(bits) >= 2; }

// unmapped channel of the connection event with the given (unbounded) event number, first event = 0
inline unsigned unmapped_channel(unsigned hop, unsigned long event) {
    unsigned last = 0;
    unsigned unmapped = 0;
    // the sequence of unmapped channels has period 37 (37 is prime, 0 < hop < 37)
    const unsigned long n = event % num_data_channels;
    for (unsigned long e = 0; e <= n; ++e) {
        unmapped = (last + hop) % num_data_channels;
        last = unmapped;
    }
    return unmapped;
}

// data channel of connection event `event` (first event of the connection = 0) given the map in use at that event
inline unsigned data_channel(std::uint64_t bits, unsigned hop, unsigned long event) {
    const unsigned unmapped = unmapped_channel(hop, event);
    if (used(bits, unmapped)) return unmapped;
    const std::vector<unsigned> table = remapping_table(bits);
    return table[unmapped % table.size()];
}

} // namespace csa1

#endif
