/* Minimal host stand-in for the Nordic MDK's nrf.h, just enough to COMPILE the headers
 * bluetoe/nrf.hpp and bluetoe/nrf52.hpp on the host (lladv family, scan request clause of C25).
 * Only nrf52_radio_base<> is instantiated, with a mock Hardware and a mock sleep clock option, so
 * none of these registers is ever touched by the code that runs; they are inert storage. */
#ifndef VERIF_LLADV_STUB_NRF_H
#define VERIF_LLADV_STUB_NRF_H

#include <stdint.h>

#define __NVIC_PRIO_BITS 3

typedef struct { volatile uint32_t PACKETPTR, TASKS_TXEN, TASKS_RXEN, TASKS_DISABLE, EVENTS_DISABLED, STATE; } NRF_RADIO_Type;
typedef struct { volatile uint32_t TASKS_START, TASKS_STOP, TASKS_CLEAR, TASKS_CAPTURE[ 6 ], CC[ 6 ], EVENTS_COMPARE[ 6 ], SHORTS, INTENSET, INTENCLR; } NRF_TIMER_Type;
typedef struct { volatile uint32_t TASKS_HFCLKSTART, TASKS_HFCLKSTOP, TASKS_LFCLKSTART, TASKS_LFCLKSTOP, EVENTS_HFCLKSTARTED, EVENTS_LFCLKSTARTED, LFCLKSRC, TASKS_CAL, EVENTS_DONE, INTENSET, INTENCLR; } NRF_CLOCK_Type;
typedef struct { volatile uint32_t TASKS_START, TASKS_STOP, EVENTS_DATARDY, TEMP; } NRF_TEMP_Type;
typedef struct { volatile uint32_t TASKS_START, TASKS_STOP, TASKS_CLEAR, COUNTER, CC[ 4 ], EVENTS_COMPARE[ 4 ], EVENTS_OVRFLW, EVTEN, EVTENSET, EVTENCLR, INTENSET, INTENCLR, PRESCALER; } NRF_RTC_Type;
typedef struct { volatile uint32_t ENABLE, MODE, CNFPTR, INPTR, OUTPTR, SCRATCHPTR, MICSTATUS; } NRF_CCM_Type;
typedef struct { volatile uint32_t ENABLE, NIRK, IRKPTR, ADDRPTR, SCRATCHPTR, STATUS; } NRF_AAR_Type;
typedef struct { volatile uint32_t CHENSET, CHENCLR; struct { volatile uint32_t EEP, TEP; } CH[ 20 ]; } NRF_PPI_Type;
typedef struct { volatile uint32_t TASKS_START, TASKS_STOP, EVENTS_VALRDY, VALUE, CONFIG; } NRF_RNG_Type;
typedef struct { volatile uint32_t TASKS_STARTECB, TASKS_STOPECB, EVENTS_ENDECB, EVENTS_ERRORECB, ECBDATAPTR; } NRF_ECB_Type;
typedef struct { volatile uint32_t CONFIG[ 8 ], TASKS_OUT[ 8 ]; } NRF_GPIOTE_Type;
typedef struct { volatile uint32_t ISER[ 8 ], ICER[ 8 ], ISPR[ 8 ], ICPR[ 8 ]; volatile uint8_t IP[ 240 ]; } NVIC_Type;

#define VERIF_STUB_PERIPHERAL( type, name ) static inline type* verif_stub_##name( void ) { static type block; return &block; }
VERIF_STUB_PERIPHERAL( NRF_RADIO_Type, radio )
VERIF_STUB_PERIPHERAL( NRF_TIMER_Type, timer0 )
VERIF_STUB_PERIPHERAL( NRF_TIMER_Type, timer1 )
VERIF_STUB_PERIPHERAL( NRF_CLOCK_Type, clock )
VERIF_STUB_PERIPHERAL( NRF_TEMP_Type, temp )
VERIF_STUB_PERIPHERAL( NRF_RTC_Type, rtc0 )
VERIF_STUB_PERIPHERAL( NRF_CCM_Type, ccm )
VERIF_STUB_PERIPHERAL( NRF_AAR_Type, aar )
VERIF_STUB_PERIPHERAL( NRF_PPI_Type, ppi )
VERIF_STUB_PERIPHERAL( NRF_RNG_Type, rng )
VERIF_STUB_PERIPHERAL( NRF_ECB_Type, ecb )
VERIF_STUB_PERIPHERAL( NRF_GPIOTE_Type, gpiote )
VERIF_STUB_PERIPHERAL( NVIC_Type, nvic )

#define NRF_RADIO   verif_stub_radio()
#define NRF_TIMER0  verif_stub_timer0()
#define NRF_TIMER1  verif_stub_timer1()
#define NRF_CLOCK   verif_stub_clock()
#define NRF_TEMP    verif_stub_temp()
#define NRF_RTC0    verif_stub_rtc0()
#define NRF_CCM     verif_stub_ccm()
#define NRF_AAR     verif_stub_aar()
#define NRF_PPI     verif_stub_ppi()
#define NRF_RNG     verif_stub_rng()
#define NRF_ECB     verif_stub_ecb()
#define NRF_GPIOTE  verif_stub_gpiote()
#define NVIC        verif_stub_nvic()

#define CLOCK_LFCLKSRCCOPY_SRC_Pos      0
#define CLOCK_LFCLKSRCCOPY_SRC_RC       0
#define CLOCK_LFCLKSRCCOPY_SRC_Xtal     1
#define CLOCK_LFCLKSRCCOPY_SRC_Synth    2
#define RTC_EVTEN_OVRFLW_Pos            1
#define RTC_EVTEN_OVRFLW_Enabled        1
#define RTC_EVTEN_COMPARE0_Pos          16
#define RTC_EVTEN_COMPARE0_Enabled      1
#define RTC_EVTEN_COMPARE1_Pos          17
#define RTC_EVTEN_COMPARE1_Enabled      1

static inline uint32_t __get_PRIMASK( void ) { return 0; }
static inline void     __set_PRIMASK( uint32_t v ) { (void)v; }
static inline void     __disable_irq( void ) {}
static inline void     __enable_irq( void ) {}
static inline void     __WFI( void ) {}

#endif
