// C25, scan request clause: "while advertising, the peripheral answers a scan request only if it is addressed
// to its own address and address type and passes the scan filter".
//
// The link layer proper delegates the answer to the radio; in this repository the logic lives in
// bluetoe::nrf52_details::nrf52_radio_base (radio_interrupt_handler / is_valid_scan_request).  That class is
// instantiated here on the host, unmodified, with
//   * a mock Hardware (static functions; the register level is not involved at all),
//   * a mock sleep clock option (the real ones poll clock registers),
//   * the real ll_data_pdu_buffer as Buffer,
//   * CallBacks whose is_scan_request_in_filter() is the real software white list of white_list.hpp.
// The harness plays the link layer (schedule_advertisment with an advertising PDU and a scan response PDU) and
// the air (a received PDU is put into the receive buffer, then the radio interrupt handler is called).
// "Answered" == the radio configured the final transmission of the scan response (Hardware::configure_final_transmit).
//
// Two memory layouts are driven: Hardware without crypto support (PDU bytes contiguous) and with crypto support
// (one byte gap between header and payload, pdu_gap_required_by_encryption() == 1).
#include <bluetoe/nrf52.hpp>
#include <bluetoe/white_list.hpp>
#include "common/verif.hpp"

#include <new>
#include <set>
#include <tuple>
#include <vector>

namespace ll = bluetoe::link_layer;
using verif::mon;
typedef std::vector< std::uint8_t > bytes;

enum { ADV_IND = 0, ADV_DIRECT_IND = 1, ADV_NONCONN_IND = 2, SCAN_REQ = 3, SCAN_RSP = 4, CONNECT_IND = 5, ADV_SCAN_IND = 6 };

struct addr_t {
    std::uint8_t b[ 6 ];
    bool         random;
    bool operator<( const addr_t& o ) const { const int c = std::memcmp( b, o.b, 6 ); return c < 0 || ( c == 0 && random < o.random ); }
    ll::device_address dev() const { return ll::device_address( b, random ); }
    std::string str() const { return verif::hex( b, 6 ) + ( random ? "/random" : "/public" ); }
};

static addr_t universe( unsigned i )
{
    static const std::uint8_t raw[ 3 ][ 6 ] = {
        { 0x3c, 0x1c, 0x62, 0x92, 0xf0, 0x48 },
        { 0x3c, 0x1c, 0x62, 0x92, 0xf0, 0x49 },
        { 0x11, 0x22, 0x33, 0x44, 0x55, 0xc6 },
    };
    static const struct { int raw; bool rnd; } u[] = { { 0, false }, { 0, true }, { 1, false }, { 1, true }, { 2, true }, { 2, false } };
    addr_t a; std::memcpy( a.b, raw[ u[ i ].raw ], 6 ); a.random = u[ i ].rnd; return a;
}
static const unsigned universe_size = 6;

// ---------------------------------------------------------------------------------------------- mock hardware
struct hw_state {
    void ( *isr )( void* );
    void*       that;
    bool        valid_anchor, valid_pdu, valid_crc;
    unsigned    final_transmits;
    const std::uint8_t* final_transmit_buffer;
    std::size_t final_transmit_size;
    unsigned    channel;
    unsigned    stop_radio_calls;
    unsigned    receive_trains;
    bool        resolving_invalid;
};
static hw_state hw;

template < int Gap >
struct mock_hardware
{
    static int  pdu_gap_required_by_encryption() { return Gap; }
    static void init( void ( *isr )( void* ), void* that ) { hw.isr = isr; hw.that = that; }
    static void init( std::uint8_t*, void ( *isr )( void* ), void* that ) { hw.isr = isr; hw.that = that; }
    static void configure_radio_channel( unsigned c ) { hw.channel = c; }
    static void configure_transmit_train( const ll::write_buffer& ) {}
    static void configure_final_transmit( const ll::write_buffer& b ) { ++hw.final_transmits; hw.final_transmit_buffer = b.buffer; hw.final_transmit_size = b.size; }
    static void configure_receive_train( const ll::read_buffer& ) { ++hw.receive_trains; }
    static void stop_radio() { ++hw.stop_radio_calls; }
    static void store_timer_anchor( int ) {}
    static std::tuple< bool, bool, bool > received_pdu() { return std::make_tuple( hw.valid_anchor, hw.valid_pdu, hw.valid_crc ); }
    static std::uint32_t now() { return 0; }
    static std::pair< bool, ll::delta_time > can_stop_connection_event_timer( std::uint32_t ) { return std::make_pair( false, ll::delta_time() ); }
    static void setup_identity_resolving( const std::uint8_t* ) {}
    static bool resolving_address_invalid() { return hw.resolving_invalid; }
    static void set_phy( ll::phy_ll_encoding::phy_ll_encoding_t, ll::phy_ll_encoding::phy_ll_encoding_t ) {}
    static bool schedule_advertisment_event_timer( ll::delta_time when, std::uint32_t, std::uint32_t ) { return !when.zero(); }
    static void schedule_connection_event_timer( std::uint32_t, std::uint32_t, std::uint32_t ) {}
    static bool schedule_user_timer( void ( * )( void* ), std::uint32_t, std::uint32_t ) { return false; }
    static bool stop_user_timer() { return false; }
    static void stop_timeout_timer() {}
    static std::uint32_t static_random_address_seed() { return 0x47110815; }
    static void set_access_address_and_crc_init( std::uint32_t, std::uint32_t ) {}
    static bool user_timer_anchor_moved() { return false; }

    class lock_guard {
    public:
        lock_guard() {}
        ~lock_guard() {}
        lock_guard( const lock_guard& ) = delete;
        lock_guard& operator=( const lock_guard& ) = delete;
    };
};

struct mock_sleep_clock
{
    using meta_type = bluetoe::nrf::nrf_details::sleep_clock_source_meta_type;
    static void start_clocks() {}
    static void stop_high_frequency_crystal_oscilator() {}
};

struct null_radio {};
struct null_ll {};
typedef ll::details::white_list_implementation< 4, true, null_radio, null_ll > real_white_list;

template < int Gap >
struct scan_radio :
    bluetoe::nrf52_details::nrf52_radio_base<
        scan_radio< Gap >, mock_hardware< Gap >,
        ll::ll_data_pdu_buffer< 61, 61, scan_radio< Gap > >,
        mock_sleep_clock >
{
    // CallBacks
    unsigned received_calls, timeout_calls;
    bytes    last_received;
    real_white_list white_list;

    scan_radio() : received_calls( 0 ), timeout_calls( 0 ) {}

    void adv_received( const ll::read_buffer& r ) { ++received_calls; last_received.assign( r.buffer, r.buffer + r.size ); }
    void adv_timeout() { ++timeout_calls; }
    void timeout() {}
    void end_event( ll::connection_event_events ) {}
    void user_timer( bool ) {}
    void try_event_cancelation() {}
    bool is_scan_request_in_filter( const ll::device_address& a ) const { return white_list.is_scan_request_in_filter( a ); }
    void increment_receive_packet_counter() {}
    void increment_transmit_packet_counter() {}
};

// type erased access, so that the workload below is compiled once for both layouts
struct radio_if {
    virtual ~radio_if() {}
    virtual void schedule( unsigned channel, const ll::write_buffer& adv, const ll::write_buffer& rsp, const ll::read_buffer& rx ) = 0;
    virtual void run() = 0;
    virtual real_white_list& wl() = 0;
    virtual unsigned received_calls() const = 0;
    virtual unsigned timeout_calls() const = 0;
};

template < int Gap >
struct radio_holder : radio_if {
    scan_radio< Gap >* r;
    // nrf52_radio_base leaves its flags and its state uninitialised and relies on living in zero-initialised static
    // storage (that is how every example of the repository defines its link layer): give it zeroed memory.
    radio_holder() { void* mem = std::calloc( 1, sizeof( scan_radio< Gap > ) ); r = new ( mem ) scan_radio< Gap >; }
    ~radio_holder() { r->~scan_radio< Gap >(); std::free( r ); }
    void schedule( unsigned channel, const ll::write_buffer& adv, const ll::write_buffer& rsp, const ll::read_buffer& rx )
    {
        r->schedule_advertisment( channel, adv, rsp, ll::delta_time::now(), rx );
    }
    void run() { r->run(); }
    real_white_list& wl() { return r->white_list; }
    unsigned received_calls() const { return r->received_calls; }
    unsigned timeout_calls() const { return r->timeout_calls; }
};

static radio_if* make_radio( int gap )
{
    if ( gap ) return new radio_holder< 1 >;
    return new radio_holder< 0 >;
}

// ---------------------------------------------------------------------------------------------- PDUs in memory layout
// on-air PDU (header, length, payload) -> memory layout with `gap` bytes between header and payload
static bytes to_memory( const bytes& air, int gap )
{
    bytes m( air.begin(), air.begin() + std::min< std::size_t >( 2, air.size() ) );
    if ( air.size() > 2 ) { m.insert( m.end(), gap, 0 ); m.insert( m.end(), air.begin() + 2, air.end() ); }
    return m;
}

static bytes adv_pdu( unsigned type, const addr_t& own, const addr_t& target )
{
    bytes p;
    if ( type == ADV_DIRECT_IND )
    {
        p.push_back( type | ( own.random ? 0x40 : 0 ) | ( target.random ? 0x80 : 0 ) ); p.push_back( 12 );
        p.insert( p.end(), own.b, own.b + 6 ); p.insert( p.end(), target.b, target.b + 6 );
    }
    else
    {
        p.push_back( type | ( own.random ? 0x40 : 0 ) ); p.push_back( 9 );
        p.insert( p.end(), own.b, own.b + 6 ); p.push_back( 2 ); p.push_back( 1 ); p.push_back( 6 );
    }
    return p;
}

static bytes scan_rsp( const addr_t& own )
{
    bytes p;
    p.push_back( SCAN_RSP | ( own.random ? 0x40 : 0 ) ); p.push_back( 8 );
    p.insert( p.end(), own.b, own.b + 6 ); p.push_back( 0 ); p.push_back( 0 );
    return p;
}

struct model {
    std::set< addr_t > wl;
    bool scan_filter;
    model() : scan_filter( false ) {}
    bool passes( const addr_t& a ) const { return !scan_filter || wl.count( a ) != 0; }
};

struct expectation { enum v_t { MUST_ANSWER, MUST_NOT, EITHER } v; std::string reason; };

// the predicate of the property, on the bytes as they were on air
static expectation predicate( unsigned adv_type, bool has_response, const bytes& rx, std::size_t delivered, bool crc_ok, const addr_t& own, const model& m )
{
    expectation e; e.v = expectation::MUST_NOT;
    if ( !has_response || ( adv_type != ADV_IND && adv_type != ADV_SCAN_IND ) ) { e.reason = "advertising_not_scannable"; return e; }
    if ( !crc_ok ) { e.reason = "crc_error"; return e; }
    if ( ( rx[ 0 ] & 0x0f ) != SCAN_REQ ) { e.reason = "pdu_type_not_scan_req"; return e; }
    if ( ( rx[ 1 ] & 0x3f ) != 12 ) { e.reason = "length_field_not_12"; return e; }
    if ( delivered < 14 ) { e.reason = "truncated"; return e; }
    if ( std::memcmp( &rx[ 8 ], own.b, 6 ) != 0 ) { e.reason = "adva_not_own_address"; return e; }
    if ( ( ( rx[ 0 ] & 0x80 ) != 0 ) != own.random ) { e.reason = "rxadd_not_own_address_type"; return e; }
    addr_t scanner; std::memcpy( scanner.b, &rx[ 2 ], 6 ); scanner.random = ( rx[ 0 ] & 0x40 ) != 0;
    if ( !m.passes( scanner ) ) { e.reason = "scanner_not_in_white_list"; return e; }
    if ( rx[ 1 ] & 0xc0 ) { e.v = expectation::EITHER; e.reason = "length_byte_upper_bits_set"; return e; }
    e.v = expectation::MUST_ANSWER;
    e.reason = std::string( "valid_scan_request_" ) + ( m.scan_filter ? "filter_on" : "filter_off" ) + ( scanner.random == own.random ? "_same_address_type" : "_other_address_type" );
    return e;
}

static unsigned long long g_case = 0;

struct case_data {
    std::string cfgname, setup;
    addr_t      own;
    unsigned    adv_type;
    bool        has_response, crc_ok, answered;
    bytes       rx;
    const model* m;
    expectation e;
};

static std::string describe( const case_data& c ) __attribute__(( noinline ));
static std::string describe( const case_data& c )
{
    std::string wl;
    for ( auto& x : c.m->wl ) wl += x.str() + " ";
    return c.cfgname + " own=" + c.own.str() + " advertising_pdu_type=" + std::to_string( c.adv_type )
        + " scan_response=" + ( c.has_response ? verif::hex( scan_rsp( c.own ) ) : std::string( "none" ) )
        + " received(on air)=" + verif::hex( c.rx ) + " crc_ok=" + ( c.crc_ok ? "1" : "0" )
        + " scan_filter=" + ( c.m->scan_filter ? "on" : "off" ) + " white_list=[ " + wl + "]"
        + " expectation=" + ( c.e.v == expectation::MUST_ANSWER ? "must_answer" : c.e.v == expectation::MUST_NOT ? "must_not_answer" : "either" ) + "(" + c.e.reason + ")"
        + " observed=" + ( c.answered ? "scan response transmitted" : "not answered" ) + " white list setup:" + c.setup;
}

static void run( const int Gap, verif::prng& r, unsigned long cases, const std::set< unsigned long long >& skip )
{
    verif::monitor& M = mon( "C25" );
    const std::string cfgname = std::string( "nrf52_radio_base/" ) + ( Gap ? "hardware_with_crypto_layout" : "hardware_without_crypto_layout" );
    verif::ctx_config( cfgname );

    radio_if* radio = make_radio( Gap );
    model m;
    std::string setup;
    unsigned setup_len = 0;

    for ( unsigned long c = 0; c < cases; ++c )
    {
        verif::prng cr( r.next() );
        ++g_case;
        if ( skip.count( g_case ) ) continue;
        verif::ctx_step( g_case );

        // now and then a fresh radio; white list operations in between
        if ( cr.chance( 1, 200 ) || setup_len > 40 ) { delete radio; radio = make_radio( Gap ); m = model(); setup.clear(); setup_len = 0; }
        if ( cr.chance( 1, 4 ) )
        {
            ++setup_len;
            switch ( cr.below( 5 ) )
            {
            case 0: case 1: {
                const addr_t a = universe( cr.below( universe_size ) );
                verif::ctx_op( "add_to_white_list" );
                const bool ok = radio->wl().add_to_white_list( a.dev() );
                if ( m.wl.count( a ) || m.wl.size() < 4 ) m.wl.insert( a );
                (void)ok;
                setup += " add(" + a.str() + ")"; M.cls( "wl_add" );
                break;
            }
            case 2: {
                if ( cr.chance( 1, 3 ) ) { radio->wl().clear_white_list(); m.wl.clear(); setup += " clear"; M.cls( "wl_clear" ); }
                break;
            }
            default:
                m.scan_filter = cr.chance( 2, 3 );
                verif::ctx_op( "scan_request_filter" );
                radio->wl().scan_request_filter( m.scan_filter );
                setup += m.scan_filter ? " scan_filter(on)" : " scan_filter(off)";
                M.cls( m.scan_filter ? "scan_filter_on" : "scan_filter_off" );
                break;
            }
        }

        // the link layer's part: own address, advertising type
        addr_t own; for ( auto& x : own.b ) x = cr.byte(); own.random = cr.chance( 1, 2 );
        if ( cr.chance( 1, 4 ) ) own = universe( cr.below( universe_size ) );      // the advertiser may even share bytes with a scanner
        static const unsigned types[] = { ADV_IND, ADV_SCAN_IND, ADV_IND, ADV_SCAN_IND, ADV_DIRECT_IND, ADV_NONCONN_IND };
        const unsigned adv_type = types[ cr.below( 6 ) ];
        const bool has_response = adv_type == ADV_IND || adv_type == ADV_SCAN_IND;
        const bytes adv_mem = to_memory( adv_pdu( adv_type, own, universe( 2 ) ), Gap );
        const bytes rsp_mem = to_memory( scan_rsp( own ), Gap );
        verif::exact_buffer adv_buf( adv_mem.data(), adv_mem.size() );
        verif::exact_buffer rsp_buf( rsp_mem.data(), rsp_mem.size() );
        // receive buffer as the link layer provides it: room for a connect request
        const std::size_t cap = 36 + Gap;
        verif::exact_buffer rx_buf( cap, 0xA5 );

        // the scanner's part
        addr_t scanner = universe( cr.below( universe_size ) );
        if ( !m.wl.empty() && cr.chance( 1, 2 ) ) { auto it = m.wl.begin(); std::advance( it, cr.below( m.wl.size() ) ); scanner = *it; }
        // same bytes, other address type: the case an address-type mix-up would get wrong
        if ( cr.chance( 1, 4 ) ) scanner.random = !scanner.random;
        bytes rx;
        rx.push_back( SCAN_REQ | ( scanner.random ? 0x40 : 0 ) | ( own.random ? 0x80 : 0 ) ); rx.push_back( 12 );
        rx.insert( rx.end(), scanner.b, scanner.b + 6 ); rx.insert( rx.end(), own.b, own.b + 6 );

        if ( cr.chance( 1, 6 ) ) { rx[ 0 ] = ( rx[ 0 ] & 0xf0 ) | cr.below( 16 ); M.cls( "gen_type_any" ); }
        if ( cr.chance( 1, 12 ) ) { rx[ 0 ] ^= 0x10 << cr.below( 2 ); M.cls( "gen_header_rfu_bits" ); }
        if ( cr.chance( 1, 8 ) ) { rx[ 0 ] ^= 0x80; M.cls( "gen_rxadd_flipped" ); }
        if ( cr.chance( 1, 8 ) )
        {
            if ( cr.chance( 2, 3 ) ) { rx[ 8 + cr.below( 6 ) ] ^= 1u << cr.below( 8 ); M.cls( "gen_adva_one_bit_off" ); }
            else { std::memcpy( &rx[ 8 ], &rx[ 2 ], 6 ); M.cls( "gen_adva_is_scana" ); }
        }
        bool stale = false;
        if ( cr.chance( 1, 6 ) )
        {
            unsigned len;
            switch ( cr.below( 5 ) ) { case 0: len = 11; break; case 1: len = 13; break; case 2: len = cr.below( 38 ); break; case 3: len = 34; break; default: len = 12 | ( ( 1 + cr.below( 3 ) ) << 6 ); break; }
            rx[ 1 ] = len;
            rx.resize( 2 + ( len & 0x3f ), 0x5a );
            M.cls( "gen_length_field" );
            // what a shorter PDU leaves untouched in the buffer is the previous, perfectly valid request
            stale = cr.chance( 1, 2 );
        }
        const bool crc_ok = !cr.chance( 1, 25 );
        const bool anchor_ok = true;

        // ---- drive the radio
        hw.final_transmits = 0; hw.final_transmit_buffer = nullptr; hw.stop_radio_calls = 0; hw.resolving_invalid = false;
        const unsigned rec_before = radio->received_calls(), to_before = radio->timeout_calls();

        verif::ctx_op( "schedule_advertisment", adv_buf.data(), adv_buf.n );
        radio->schedule( 37 + cr.below( 3 ), ll::write_buffer{ adv_buf.data(), adv_buf.n },
            has_response ? ll::write_buffer{ rsp_buf.data(), rsp_buf.n } : ll::write_buffer{ nullptr, 0 },
            ll::read_buffer{ rx_buf.data(), cap } );

        hw.isr( hw.that );      // advertisement transmitted, radio turned to receive

        // the PDU arrives in the receive buffer
        const bytes rx_mem = to_memory( rx, Gap );
        if ( stale )
        {
            bytes valid;
            valid.push_back( SCAN_REQ | ( scanner.random ? 0x40 : 0 ) | ( own.random ? 0x80 : 0 ) ); valid.push_back( 12 );
            valid.insert( valid.end(), scanner.b, scanner.b + 6 ); valid.insert( valid.end(), own.b, own.b + 6 );
            const bytes vm = to_memory( valid, Gap );
            std::memcpy( rx_buf.data(), vm.data(), std::min( vm.size(), cap ) );
            M.cls( "gen_stale_valid_request_behind_short_pdu" );
        }
        const std::size_t delivered_mem = std::min( rx_mem.size(), cap );
        std::memcpy( rx_buf.data(), rx_mem.data(), delivered_mem );
        const std::size_t delivered_air = delivered_mem > 2 ? delivered_mem - Gap : delivered_mem;
        hw.valid_anchor = anchor_ok; hw.valid_pdu = crc_ok; hw.valid_crc = crc_ok;

        verif::ctx_op( "radio_interrupt_handler(received)", rx.data(), rx.size() );
        hw.isr( hw.that );

        const bool answered = hw.final_transmits != 0;
        const bool answered_with_response = answered && hw.final_transmit_buffer == rsp_buf.data();
        if ( answered ) hw.isr( hw.that );      // response transmitted
        verif::ctx_op( "run" );
        radio->run();

        const expectation e = predicate( adv_type, has_response, rx, delivered_air, crc_ok, own, m );

        case_data cd;
        cd.cfgname = cfgname; cd.setup = setup; cd.own = own; cd.adv_type = adv_type; cd.has_response = has_response; cd.crc_ok = crc_ok;
        cd.answered = answered; cd.rx = rx; cd.m = &m; cd.e = e;

        M.eval();
        M.cls( ( e.v == expectation::MUST_ANSWER ? "must_answer_" : e.v == expectation::MUST_NOT ? "must_not_" : "either_" ) + e.reason );
        M.cls( answered ? "observed_answered" : "observed_not_answered" );
        M.cls( own.random ? "own_address_random" : "own_address_public" );

        if ( e.v == expectation::MUST_NOT && answered )
            verif::violation( "C25", "C25:scan:answered_although_" + e.reason, describe( cd ), g_case );
        if ( e.v == expectation::MUST_ANSWER && !answered )
            verif::violation( "C25", "C25:scan:" + e.reason + "_not_answered", describe( cd ), g_case );
        if ( answered && !answered_with_response )
            verif::violation( "C25", "C25:scan:answered_with_something_else_than_the_scan_response", describe( cd ), g_case );

        // whatever was not answered has to reach the link layer (it may be a connect request), an answered request must not
        M.eval();
        const bool got_received = radio->received_calls() > rec_before, got_timeout = radio->timeout_calls() > to_before;
        if ( answered && ( got_received || !got_timeout ) )
            verif::violation( "C25", "C25:scan:answered_request_also_reported_as_received", describe( cd ), g_case );
        if ( !answered && crc_ok && !got_received )
            verif::violation( "C25", "C25:scan:unanswered_pdu_not_handed_to_link_layer", describe( cd ), g_case );

        std::uint64_t h = verif::hstr( cfgname );
        h = verif::mix( h, adv_type ); h = verif::mix( h, own.random ); h = verif::mix( h, m.scan_filter ); h = verif::mix( h, m.wl.size() );
        h = verif::mix( h, verif::hstr( e.reason ) ); h = verif::mix( h, rx[ 0 ] ); h = verif::mix( h, rx[ 1 ] ); h = verif::mix( h, answered );
        M.nontrivial( h );
        if ( answered && e.v == expectation::MUST_ANSWER ) M.sample( describe( cd ), 2 );
    }
    delete radio;
    M.count( std::string( "scan_cases_" ) + ( Gap ? "crypto_layout" : "plain_layout" ), cases );
}

int main( int argc, char** argv )
{
    verif::args a( argc, argv );
    verif::install_crash_handler();
    verif::ctx_prop( "C25" );
    verif::prng r( a.num( "seed", 1 ) * 0x9e3779b97f4a7c15ull + 77 );
    const unsigned long ops = a.num( "ops", 20000 );
    verif::run_config() = "nrf52_radio_base scan request path";

    std::set< unsigned long long > skip;
    {
        const std::string s = a.str( "skip" );
        std::size_t pos = 0;
        while ( pos < s.size() ) { skip.insert( std::strtoull( s.c_str() + pos, nullptr, 10 ) ); pos = s.find( ',', pos ); if ( pos == std::string::npos ) break; ++pos; }
    }

    run( 0, r, ops, skip );
    run( 1, r, ops, skip );
    verif::finish();
    return 0;
}
