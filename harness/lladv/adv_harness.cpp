// lladv family: C24 (advertising uses exactly the enabled channels at the configured rate) and
// C25 (only properly addressed and permitted connect requests are answered while advertising; the scan
// request clause lives in scan_harness.cpp).
//
// The real bluetoe::link_layer::link_layer<> (one option set per binary, -DLLADV_CFG=n) runs against the
// simulated radio of sim_radio.hpp on virtual time.  The harness owns a model of what the *user* asked for
// (channel map, interval, start/stop/count, white list, directed peer) and judges the logged radio calls:
//   C24: offline trace checker over the logged schedule_advertisment() calls of every scenario,
//   C25: predicate over every received advertising channel PDU, written from Core Vol 6 Part B 2.3 / 4.4.2.
//
// modes: --mode=c24enum  all ordered pairs of channel maps x change position, start/stop/count sequences
//        --mode=c24rand  random histories (map / interval / type changes, start/stop/count, received PDUs)
//        --mode=c25      received PDUs built field by field
#include "lladv/ll_configs.hpp"

#include <algorithm>
#include <set>
#include <string>
#include <vector>

using namespace lladv;
using verif::mon;

typedef std::vector< std::uint8_t > bytes;

// ------------------------------------------------------------------------------------------------ helpers
static std::string map_str( unsigned m )
{
    std::string s = "{";
    for ( unsigned i = 0; i < 3; ++i )
        if ( m & ( 1u << i ) ) { if ( s.size() > 1 ) s += ","; s += std::to_string( 37 + i ); }
    return s + "}";
}

static std::vector< unsigned > map_channels( unsigned m )
{
    std::vector< unsigned > r;
    for ( unsigned i = 0; i < 3; ++i )
        if ( m & ( 1u << i ) ) r.push_back( 37 + i );
    return r;
}

static std::string chan_list( const std::vector< unsigned >& v )
{
    std::string s;
    for ( std::size_t i = 0; i < v.size(); ++i ) { if ( i ) s += ","; s += std::to_string( v[ i ] ); }
    return "[" + s + "]";
}

struct addr_t {
    std::uint8_t b[ 6 ];
    bool         random;
    bool operator<( const addr_t& o ) const { const int c = std::memcmp( b, o.b, 6 ); return c < 0 || ( c == 0 && random < o.random ); }
    bool operator==( const addr_t& o ) const { return std::memcmp( b, o.b, 6 ) == 0 && random == o.random; }
    ll::device_address dev() const { return ll::device_address( b, random ); }
    std::string str() const { return verif::hex( b, 6 ) + ( random ? "/random" : "/public" ); }
};

static addr_t from_dev( const ll::device_address& d )
{
    addr_t a; std::copy( d.begin(), d.end(), a.b ); a.random = d.is_random(); return a;
}

// initiators: same bytes as public and as random address, one bit off, unrelated ones
static addr_t universe( unsigned i )
{
    static const std::uint8_t raw[ 4 ][ 6 ] = {
        { 0x3c, 0x1c, 0x62, 0x92, 0xf0, 0x48 },
        { 0x3c, 0x1c, 0x62, 0x92, 0xf0, 0x49 },     // last byte, lowest bit flipped
        { 0x11, 0x22, 0x33, 0x44, 0x55, 0xc6 },
        { 0xbc, 0x1c, 0x62, 0x92, 0xf0, 0x48 },     // first byte, highest bit flipped
    };
    static const struct { int raw; bool rnd; } u[] = { { 0, false }, { 0, true }, { 1, false }, { 2, true }, { 3, false }, { 2, false } };
    addr_t a; std::memcpy( a.b, raw[ u[ i ].raw ], 6 ); a.random = u[ i ].rnd; return a;
}
static const unsigned universe_size = 6;

// ------------------------------------------------------------------------------------------------ PDUs
struct conn_params {
    std::uint32_t aa; std::uint32_t crc_init; unsigned win_size, win_offset, interval, latency, timeout; std::uint8_t chm[ 5 ]; unsigned hop, sca;
    conn_params() : aa( 0xaf9ab35a ), crc_init( 0xf68108 ), win_size( 3 ), win_offset( 11 ), interval( 24 ), latency( 0 ), timeout( 72 ), hop( 10 ), sca( 5 )
    { chm[ 0 ] = chm[ 1 ] = chm[ 2 ] = chm[ 3 ] = 0xff; chm[ 4 ] = 0x1f; }
};

static bytes connect_ind( const addr_t& init, const addr_t& adv, const conn_params& p )
{
    bytes r( 36, 0 );
    r[ 0 ] = CONNECT_IND | ( init.random ? 0x40 : 0 ) | ( adv.random ? 0x80 : 0 );
    r[ 1 ] = 34;
    std::memcpy( &r[ 2 ], init.b, 6 );
    std::memcpy( &r[ 8 ], adv.b, 6 );
    r[ 14 ] = p.aa; r[ 15 ] = p.aa >> 8; r[ 16 ] = p.aa >> 16; r[ 17 ] = p.aa >> 24;
    r[ 18 ] = p.crc_init; r[ 19 ] = p.crc_init >> 8; r[ 20 ] = p.crc_init >> 16;
    r[ 21 ] = p.win_size;
    r[ 22 ] = p.win_offset; r[ 23 ] = p.win_offset >> 8;
    r[ 24 ] = p.interval;   r[ 25 ] = p.interval >> 8;
    r[ 26 ] = p.latency;    r[ 27 ] = p.latency >> 8;
    r[ 28 ] = p.timeout;    r[ 29 ] = p.timeout >> 8;
    std::memcpy( &r[ 30 ], p.chm, 5 );
    r[ 35 ] = ( p.hop & 0x1f ) | ( ( p.sca & 7 ) << 5 );
    return r;
}

// Core Vol 6 Part B 2.3.3.1 / 4.5.2: is the LLData of this (36 byte) CONNECT_IND valid?  Empty string: yes.
static std::string llddata_invalid( const bytes& p )
{
    const unsigned win_size = p[ 21 ], win_offset = p[ 22 ] | ( p[ 23 ] << 8 ), interval = p[ 24 ] | ( p[ 25 ] << 8 ),
                   latency = p[ 26 ] | ( p[ 27 ] << 8 ), timeout = p[ 28 ] | ( p[ 29 ] << 8 ), hop = p[ 35 ] & 0x1f;
    if ( interval < 6 || interval > 3200 ) return "interval";
    if ( win_size < 1 || win_size > 8 || win_size > interval - 1 ) return "win_size";
    if ( win_offset > interval ) return "win_offset";
    if ( latency > 499 ) return "latency";
    if ( timeout < 10 || timeout > 3200 ) return "timeout_range";
    // timeout (10 ms units) must be larger than (1 + latency) * interval (1.25 ms units) * 2
    if ( !( 4ull * timeout > ( 1ull + latency ) * interval ) ) return "timeout_vs_latency";
    if ( hop < 5 || hop > 16 ) return "hop";
    unsigned used = 0;
    for ( unsigned c = 0; c < 37; ++c ) if ( p[ 30 + c / 8 ] & ( 1u << ( c % 8 ) ) ) ++used;
    if ( used < 2 ) return "channel_map";
    const std::uint32_t aa = p[ 14 ] | ( p[ 15 ] << 8 ) | ( p[ 16 ] << 16 ) | ( static_cast< std::uint32_t >( p[ 17 ] ) << 24 );
    if ( aa != 0xaf9ab35a ) return "access_address_not_vetted";
    return "";
}

// ------------------------------------------------------------------------------------------------ scenario engine
enum rx_kind { RX_NONE, RX_CRC, RX_GARBAGE, RX_SCANREQ, RX_CONNECT_VALID, RX_CONNECT_BADPARAM, RX_CONNECT_WRONG_ADVA, RX_KINDS };
static const char* rx_name( int k )
{
    static const char* n[] = { "timeout", "crc_error", "garbage_pdu", "scan_request", "valid_connect_request", "connect_request_with_invalid_parameters", "connect_request_for_other_device" };
    return n[ k ];
}

struct op {
    enum kind_t { RUN, PASS, SETMAP, START, STARTN, STOP, INTERVAL, TYPE, RX, DIRADDR } kind;
    unsigned long a;
    op( kind_t k, unsigned long v = 0 ) : kind( k ), a( v ) {}
};

// Markers are ordered against the advertisements by INDEX (number of schedule_advertisment() calls made before the
// user action), not by virtual time: several user actions may happen at the same microsecond.
struct marker {
    enum kind_t { RUN_START, STOP, REBUDGET, CONNECT } kind;
    vtime       t;
    long        count;       // -1: unlimited
    std::size_t idx;         // number of advertisements logged before the action; RUN_START: index of the first advertisement of the run
    const char* why;
};

static unsigned long long g_scenario = 0;

class scenario
{
public:
    explicit scenario( verif::prng& r )
        : l( new ll_t ), rnd( r ), map( 7 ), interval_us( cfg::interval_ms * 1000u ), first_run_done( false )
        , enabled( !cfg::no_auto_start ), unlimited( true ), connected( false ), dir_addr_set( false ), next_rx( RX_NONE )
        , last_rx( RX_NONE ), stalled( false ), ops_done( 0 )
    {
        map_hist.push_back( std::make_pair( std::size_t( 0 ), 7u ) );
        int_hist.push_back( std::make_pair( std::size_t( 0 ), interval_us ) );
        own = from_dev( l->local_address() );
        peer = universe( 3 );
        l->responder = [this]( const adv_record& a ) { return respond( a ); };
        if ( cfg::no_auto_start )
        {
            marker m = { marker::STOP, 0, 0, 0, "initial" };   // idx 0: belongs to no run
            markers.push_back( m );
        }
    }

    ~scenario() { delete l; }

    ll_t*                                       l;
    verif::prng&                                rnd;
    unsigned                                    map;
    std::vector< std::pair< std::size_t, unsigned > > map_hist;   // (advertisements logged before the change, map)
    unsigned                                    interval_us;
    std::vector< std::pair< std::size_t, unsigned > > int_hist;
    bool                                        first_run_done, enabled, unlimited, connected, dir_addr_set;
    int                                         next_rx, last_rx;
    bool                                        stalled;
    std::vector< marker >                       markers;
    std::string                                 hist;
    addr_t                                      own, peer;
    unsigned long                               ops_done;

    std::string context() const
    {
        return std::string( cfg::name() ) + " history: " + hist;
    }

    void note( const std::string& s )
    {
        if ( hist.size() < 1500 ) { if ( !hist.empty() ) hist += ' '; hist += s; }
        else if ( hist.size() < 1504 ) hist += " ...";
    }

    // the advertising type that needs a peer address is selected and the address was never given
    bool needs_peer() const { return cfg::has_directed && cfg::ntypes == 1 && !dir_addr_set; }

    bool want_advertising() const
    {
        return first_run_done && !connected && enabled && unlimited && !needs_peer();
    }

    rx_outcome respond( const adv_record& a )
    {
        const int k = next_rx;
        next_rx = RX_NONE;
        last_rx = k;
        conn_params p;
        switch ( k )
        {
        case RX_CRC:     return rx_outcome::crc();
        case RX_GARBAGE: {
            bytes g( 2 + rnd.below( 35 ) );
            for ( auto& x : g ) x = rnd.byte();
            g[ 1 ] = ( g[ 1 ] & 0xc0 ) | ( ( g.size() - 2 ) & 0x3f );
            if ( ( g[ 0 ] & 0xf ) == CONNECT_IND ) g[ 0 ] ^= 1;
            return rx_outcome::rx( g );
        }
        case RX_SCANREQ: {
            bytes s( 14 );
            s[ 0 ] = SCAN_REQ | ( peer.random ? 0x40 : 0 ) | ( own.random ? 0x80 : 0 ); s[ 1 ] = 12;
            std::memcpy( &s[ 2 ], peer.b, 6 ); std::memcpy( &s[ 8 ], own.b, 6 );
            return rx_outcome::rx( s );
        }
        case RX_CONNECT_VALID:
            return rx_outcome::rx( connect_ind( peer, own, p ) );
        case RX_CONNECT_BADPARAM:
            switch ( rnd.below( 4 ) ) {
            case 0: p.hop = rnd.chance( 1, 2 ) ? 0 : 17 + rnd.below( 15 ); break;
            case 1: std::memset( p.chm, 0, 5 ); p.chm[ rnd.below( 4 ) ] = 1u << rnd.below( 8 ); break;
            case 2: p.timeout = rnd.chance( 1, 2 ) ? rnd.below( 10 ) : 3201 + rnd.below( 1000 ); break;
            default: p.latency = 500 + rnd.below( 1000 ); break;
            }
            return rx_outcome::rx( connect_ind( peer, own, p ) );
        case RX_CONNECT_WRONG_ADVA: {
            addr_t other = own; other.b[ rnd.below( 6 ) ] ^= 1u << rnd.below( 8 );
            return rx_outcome::rx( connect_ind( peer, other, p ) );
        }
        default: break;
        }
        (void)a;
        return rx_outcome::none();
    }

    // ---- one harness action
    void apply( const op& o )
    {
        verif::monitor& M = mon( "C24" );
        ++ops_done;
        const std::size_t advs_before = l->advs.size();

        switch ( o.kind )
        {
        case op::RUN:
            for ( unsigned long i = 0; i < o.a && !stalled; ++i )
                step();
            note( "run" + std::to_string( o.a ) );
            return;

        case op::PASS:
            l->pass_time( o.a );
            note( "pass" + std::to_string( o.a ) );
            return;

        case op::SETMAP: {
            // user code runs some time after the last radio callback
            l->pass_time( 1 + rnd.below( 30 ) );
            const unsigned target = static_cast< unsigned >( o.a ) & 7u;
            note( "map" + map_str( map ) + "->" + map_str( target ) + "@" + std::to_string( l->now ) );
            // never pass through the empty map: add first, then remove
            for ( unsigned i = 0; i < 3; ++i )
                if ( ( target & ( 1u << i ) ) && !( map & ( 1u << i ) ) ) { verif::ctx_op( "add_channel" ); cfg::add_ch( *l, 37 + i ); }
            for ( unsigned i = 0; i < 3; ++i )
                if ( !( target & ( 1u << i ) ) && ( map & ( 1u << i ) ) ) { verif::ctx_op( "remove_channel" ); cfg::rem_ch( *l, 37 + i ); }
            if ( target != map )
                M.cls( l->pending == sim_radio_base::pending_advertisment && l->advs[ l->pending_adv ].when_us == 0 ? "map_change_inside_event"
                     : ( l->pending == sim_radio_base::pending_advertisment ? "map_change_between_events" : "map_change_while_not_advertising" ) );
            map = target;
            map_hist.push_back( std::make_pair( l->advs.size(), map ) );
            break;
        }

        case op::START:
        case op::STARTN: {
            l->pass_time( 1 + rnd.below( 30 ) );
            const bool n_given = o.kind == op::STARTN;
            note( ( n_given ? "start(" + std::to_string( o.a ) + ")" : std::string( "start" ) ) + "@" + std::to_string( l->now ) );
            verif::ctx_op( "start_advertising" );
            if ( n_given ) cfg::start_n( *l, static_cast< unsigned >( o.a ) ); else cfg::start( *l );
            enabled   = true;
            unlimited = !n_given;
            const long count = n_given ? static_cast< long >( o.a ) : -1;
            budget = count;
            if ( l->advs.size() > advs_before )
            {
                marker m = { marker::RUN_START, l->now, count, advs_before, "start_advertising" };
                markers.push_back( m );
                M.cls( "restart_by_start_advertising" );
            }
            else
            {
                marker m = { marker::REBUDGET, l->now, count, advs_before, "start_advertising" };
                markers.push_back( m );
                if ( first_run_done && !connected ) M.cls( "start_while_advertising" );
            }
            M.cls( n_given ? "start_with_count" : "start_unlimited" );
            // "none after start_advertising"
            if ( first_run_done && !connected && !needs_peer() )
            {
                M.eval();
                if ( l->pending != sim_radio_base::pending_advertisment )
                    verif::violation( "C24", "C24:start:no_advertising_after_start_advertising", context(), g_scenario );
            }
            break;
        }

        case op::STOP: {
            l->pass_time( 1 + rnd.below( 30 ) );
            note( "stop@" + std::to_string( l->now ) );
            verif::ctx_op( "stop_advertising" );
            cfg::stop( *l );
            enabled = false;
            marker m = { marker::STOP, l->now, 0, advs_before, "stop_advertising" };
            markers.push_back( m );
            M.cls( "stop" );
            break;
        }

        case op::INTERVAL: {
            l->pass_time( 1 + rnd.below( 30 ) );
            note( "interval" + std::to_string( o.a ) + "ms@" + std::to_string( l->now ) );
            verif::ctx_op( "advertising_interval_ms" );
            cfg::interval( *l, static_cast< unsigned >( o.a ) );
            if ( o.a >= 20 && o.a <= 10240 )       // documented: other values are not accepted
            {
                interval_us = static_cast< unsigned >( o.a ) * 1000u;
                int_hist.push_back( std::make_pair( l->advs.size(), interval_us ) );
                M.cls( "interval_change" );
            }
            else M.cls( "interval_change_out_of_range" );
            break;
        }

        case op::TYPE:
            l->pass_time( 1 + rnd.below( 30 ) );
            note( "type" + std::to_string( o.a ) );
            verif::ctx_op( "change_advertising" );
            cfg::select_type( *l, static_cast< int >( o.a ) );
            M.cls( "advertising_type_change" );
            break;

        case op::RX:
            next_rx = static_cast< int >( o.a );
            note( std::string( "rx:" ) + rx_name( next_rx ) );
            return;

        case op::DIRADDR:
            l->pass_time( 1 + rnd.below( 30 ) );
            note( "peer@" + std::to_string( l->now ) );
            verif::ctx_op( "directed_advertising_address" );
            cfg::directed( *l, peer.dev() );
            dir_addr_set = true;
            if ( l->advs.size() > advs_before )
            {
                marker m = { marker::RUN_START, l->now, -1, advs_before, "directed_advertising_address" };
                markers.push_back( m );
            }
            break;
        }

        if ( l->schedule_while_pending )
            report_radio_misuse();
    }

    // Not a verdict of C24 (the property speaks about what goes on air): recorded for the evidence only.
    void report_radio_misuse()
    {
        if ( misuse_reported ) return;
        misuse_reported = true;
        mon( "C24" ).count( "observation_scheduling_call_while_previous_advertisment_still_pending" );
        mon( "C24" ).sample( "observation (no verdict): schedule_advertisment() called while the advertisement scheduled before was still outstanding: " + context()
            + " last advertisement call_time=" + std::to_string( l->advs.back().call_time ) + " channel=" + std::to_string( l->advs.back().channel ), 2 );
    }
    bool misuse_reported = false;

    // ---- one radio action + callback
    void step()
    {
        verif::monitor& M = mon( "C24" );
        verif::ctx_op( "run" );

        if ( first_run_done && l->idle() )
        {
            // nothing scheduled: only time passes
            l->pass_time( 1000 + rnd.below( 50000 ) );
            l->run();
            return;
        }

        const std::size_t advs_before  = l->advs.size();
        const std::size_t conns_before = l->conns.size();
        const bool        was_first    = !first_run_done;
        const bool        had_adv      = l->pending == sim_radio_base::pending_advertisment || was_first;

        l->run();
        first_run_done = true;

        if ( was_first )
        {
            if ( l->advs.size() > advs_before )
            {
                marker m = { marker::RUN_START, l->advs[ advs_before ].call_time, budget, advs_before, "first_run" };
                markers.push_back( m );
            }
            if ( enabled && !needs_peer() )
            {
                M.eval();
                if ( l->advs.empty() )
                    verif::violation( "C24", "C24:start:no_advertising_after_run", context(), g_scenario );
            }
            // the first run() schedules and, as the radio does one action per run(), also performs the first advertisement
        }

        if ( !connected && l->conns.size() > conns_before )
        {
            connected = true;
            if ( cfg::no_auto_start ) enabled = false;
            marker m = { marker::CONNECT, l->now, 0, l->advs.size(), "connection" };
            markers.push_back( m );
            M.cls( "connection_entered" );
        }
        else if ( connected && l->pending == sim_radio_base::pending_advertisment )
        {
            connected = false;
            marker m = { marker::RUN_START, l->advs.back().call_time, -1, l->advs.size() - 1, "reconnect" };
            markers.push_back( m );
            M.cls( "restart_after_connection" );
        }
        else if ( connected && l->idle() )
        {
            connected = false;      // no_auto_start: back to not advertising
            M.cls( "idle_after_connection" );
        }

        if ( l->schedule_while_pending )
            report_radio_misuse();

        // liveness: advertising was asked for without limit, nothing stopped it, and yet nothing is scheduled any more
        if ( had_adv && want_advertising() )
        {
            M.eval();
            if ( l->idle() )
            {
                stalled = true;
                verif::violation( "C24", std::string( "C24:liveness:advertising_stalled:after_" ) + rx_name( last_rx ),
                    context() + " | after the advertisement #" + std::to_string( l->advs.size() - 1 ) + " on channel " + std::to_string( l->advs.back().channel )
                    + " was answered by: " + rx_name( last_rx ) + ", the link layer neither scheduled another advertisement nor a connection event; "
                    "advertising was never stopped (map " + map_str( map ) + ", virtual time " + std::to_string( l->now ) + " us)", g_scenario );
            }
        }
    }

    long budget = -1;    // count given with the last start_advertising( count ), -1: none

    // ---- offline trace check of the whole scenario
    // the map / the interval that was set when advertisement #i was scheduled
    unsigned map_at( std::size_t i ) const
    {
        unsigned m = map_hist.front().second;
        for ( auto& c : map_hist ) if ( c.first <= i ) m = c.second;
        return m;
    }

    // a change was made after advertisement #from was scheduled and not later than advertisement #to was scheduled
    bool map_changed_in( std::size_t from, std::size_t to ) const
    {
        for ( auto& c : map_hist ) if ( c.first > from && c.first <= to ) return true;
        return false;
    }

    std::vector< unsigned > intervals_in( std::size_t from, std::size_t to ) const
    {
        std::vector< unsigned > r;
        unsigned cur = int_hist.front().second;
        for ( auto& c : int_hist )
        {
            if ( c.first <= from ) cur = c.second;
            else if ( c.first <= to ) r.push_back( c.second );
        }
        r.push_back( cur );
        return r;
    }

    struct event { std::vector< std::size_t > pdus; };

    std::string dump_run( std::size_t first, std::size_t last ) const
    {
        std::string s;
        for ( std::size_t i = first; i < last && i < first + 14 && i < l->advs.size(); ++i )
        {
            const adv_record& a = l->advs[ i ];
            s += " #" + std::to_string( i ) + "(ch" + std::to_string( a.channel ) + " call@" + std::to_string( a.call_time ) + " air@" + std::to_string( a.start )
               + ( a.replaced ? " REPLACED" : "" ) + ")";
        }
        return s;
    }

    static std::string classify( const std::vector< unsigned >& seen )
    {
        std::set< unsigned > s( seen.begin(), seen.end() );
        if ( s.size() != seen.size() )                    return "channel_repeated_in_event";
        if ( !std::is_sorted( seen.begin(), seen.end() ) ) return "channels_not_ascending";
        return "enabled_channel_missing_in_event";
    }

    void check()
    {
        verif::monitor& M = mon( "C24" );
        const std::vector< adv_record >& advs = l->advs;

        if ( l->late_schedules )
            verif::violation( "C24", "C24:interval:advertisment_scheduled_into_the_past", context(), g_scenario );

        // runs
        std::vector< const marker* > starts;
        for ( auto& m : markers ) if ( m.kind == marker::RUN_START ) starts.push_back( &m );

        const std::size_t first_run_adv = starts.empty() ? advs.size() : starts.front()->idx;
        if ( first_run_adv > 0 )
        {
            M.eval();
            verif::violation( "C24", "C24:start:advertising_without_being_started", context() + dump_run( 0, first_run_adv ), g_scenario );
        }

        for ( std::size_t ri = 0; ri < starts.size(); ++ri )
        {
            const marker&     rs    = *starts[ ri ];
            const std::size_t first = rs.idx;
            const std::size_t last  = ri + 1 < starts.size() ? starts[ ri + 1 ]->idx : advs.size();

            // group into advertising events: PDUs of one event follow each other within 10 ms
            std::vector< event > events;
            for ( std::size_t i = first; i < last; ++i )
            {
                if ( advs[ i ].replaced ) continue;
                if ( events.empty() || advs[ i ].start - advs[ events.back().pdus.back() ].start > 10000 )
                    events.push_back( event() );
                events.back().pdus.push_back( i );
            }
            if ( events.empty() ) continue;

            const std::string where = std::string( rs.why ) == "reconnect" ? "first_event_after_connection"
                                    : ( std::string( rs.why ) == "first_run" ? "first_event_after_run" : "first_event_after_start" );

            // stop / count markers of this run: made after the run's first advertisement was scheduled and
            // not later than the next run's first advertisement
            for ( auto& m : markers )
            {
                const bool own_start = &m == &rs;
                if ( !own_start && ( m.kind == marker::RUN_START || m.idx <= first || m.idx > last ) ) continue;

                if ( m.kind == marker::STOP || m.kind == marker::CONNECT )
                {
                    for ( auto& e : events )
                    {
                        M.eval();
                        if ( e.pdus.front() >= m.idx )
                        {
                            verif::violation( "C24", m.kind == marker::STOP ? "C24:stop:advertising_event_after_stop_advertising" : "C24:stop:advertising_event_while_connected",
                                context() + " | stopped at " + std::to_string( m.t ) + " but a new event starts with" + dump_run( e.pdus.front(), e.pdus.front() + 3 ), g_scenario );
                            break;
                        }
                    }
                }
                else if ( m.count >= 0 )
                {
                    // the budget holds until the next start/stop
                    std::size_t until = last;
                    for ( auto& n : markers )
                        if ( &n != &m && n.idx >= m.idx && n.idx < until && ( n.kind == marker::REBUDGET || n.kind == marker::STOP || n.kind == marker::CONNECT ) && &n > &m ) until = n.idx;
                    long started = 0;
                    for ( auto& e : events )
                        if ( e.pdus.front() >= m.idx && e.pdus.front() < until ) ++started;
                    M.eval();
                    M.cls( "count_bound_checked" );
                    if ( started > m.count )
                        verif::violation( "C24", "C24:count:more_advertising_events_than_count",
                            context() + " | start_advertising(" + std::to_string( m.count ) + ") at " + std::to_string( m.t ) + " was followed by " + std::to_string( started ) + " advertising events"
                            + dump_run( m.idx, until ), g_scenario );
                    if ( started == m.count ) M.cls( "count_reached_exactly" );
                }
            }

            for ( std::size_t ei = 0; ei < events.size(); ++ei )
            {
                const event&      e       = events[ ei ];
                const std::size_t fi      = e.pdus.front(), bi = e.pdus.back();
                const adv_record& f       = advs[ fi ];
                const adv_record& b       = advs[ bi ];
                const bool        is_last = ei + 1 == events.size();
                // the map was changed after the first PDU of the event had been scheduled and before the event was over
                // (a change made while the last PDU is on air shows up in what follows that PDU)
                // (index bi + 1: changed after the last PDU had been scheduled, before whatever followed it was scheduled)
                const bool        transitional = map_changed_in( fi, bi + 1 );
                const unsigned    m       = map_at( fi );
                const std::vector< unsigned > expected = map_channels( m );
                std::vector< unsigned > seen;
                for ( auto i : e.pdus ) seen.push_back( advs[ i ].channel );
                const std::string ctx = ei == 0 ? where : "steady";

                M.eval();

                // never on a channel that was disabled when the transmission was scheduled
                bool disabled = false;
                for ( auto i : e.pdus )
                {
                    const unsigned mm = map_at( i );
                    if ( advs[ i ].channel < 37 || advs[ i ].channel > 39 || !( mm & ( 1u << ( advs[ i ].channel - 37 ) ) ) )
                    {
                        disabled = true;
                        verif::violation( "C24", std::string( "C24:channel:transmission_on_disabled_channel:" ) + ( transitional ? "event_with_map_change" : ctx ),
                            context() + " | map " + map_str( mm ) + " but advertisement #" + std::to_string( i ) + " on channel " + std::to_string( advs[ i ].channel )
                            + "; event channels " + chan_list( seen ) + dump_run( fi, bi + 1 ), g_scenario );
                        break;
                    }
                }

                // inside an event the next PDU follows at once
                for ( std::size_t k = 1; k < e.pdus.size(); ++k )
                {
                    const adv_record& p = advs[ e.pdus[ k - 1 ] ];
                    const adv_record& q = advs[ e.pdus[ k ] ];
                    if ( p.callback_time && q.start > p.callback_time + 1000 )
                        verif::violation( "C24", "C24:event:pdu_delayed_inside_event", context() + dump_run( fi, bi + 1 ), g_scenario );
                }

                if ( transitional )
                {
                    M.cls( "event_with_map_change" );
                }
                else if ( !disabled )
                {
                    std::string kind;
                    if ( !is_last || seen.size() >= expected.size() )
                    {
                        if ( seen != expected ) kind = classify( seen );
                    }
                    else
                    {
                        // last event of a run: stop/count/connection/end of observation may cut it short; what was sent has to be
                        // the beginning of the enabled channels
                        if ( !std::equal( seen.begin(), seen.end(), expected.begin() ) ) kind = classify( seen );
                        else M.cls( "last_event_cut_short" );
                    }

                    if ( !kind.empty() )
                        verif::violation( "C24", "C24:event:" + kind + ":" + ctx,
                            context() + " | map " + map_str( m ) + " expected channels " + chan_list( expected ) + " but the event used " + chan_list( seen )
                            + " (run started by " + rs.why + ")" + dump_run( fi, bi + 1 ), g_scenario );

                    M.cls( "event_map_" + map_str( m ) );
                    std::uint64_t h = verif::hstr( cfg::name() );
                    h = verif::mix( h, m ); h = verif::mix( h, ei == 0 ? verif::hstr( where ) : 1 ); h = verif::mix( h, is_last ); h = verif::mix( h, seen.size() );
                    h = verif::mix( h, kind.empty() ); h = verif::mix( h, int_hist.size() > 1 ); h = verif::mix( h, f.pdu.empty() ? 99 : ( f.pdu[ 0 ] & 0xf ) );
                    h = verif::mix( h, interval_us ); h = verif::mix( h, map_hist.size() > 2 );
                    M.nontrivial( h );
                }

                M.cls( std::string( "adv_pdu_type_" ) + std::to_string( f.pdu.empty() ? 99 : ( f.pdu[ 0 ] & 0xf ) ) );

                // distance to the next event of the same run
                if ( !is_last )
                {
                    const std::size_t ni = events[ ei + 1 ].pdus.front();
                    const adv_record& n = advs[ ni ];
                    // the radio's T0 is the last transmission of the event: the advertising delay is measured from there
                    const vtime d = n.start - b.start;
                    const std::vector< unsigned > iv = intervals_in( fi, ni );
                    bool ok = false;
                    for ( auto i : iv ) if ( d >= i && d <= vtime( i ) + 10000 ) ok = true;
                    M.eval();
                    M.cls( "gap_checked" );
                    if ( !ok )
                    {
                        bool shorter = true;
                        for ( auto i : iv ) if ( d >= i ) shorter = false;
                        verif::violation( "C24", std::string( "C24:interval:" ) + ( shorter ? "next_event_earlier_than_interval" : "next_event_later_than_interval_plus_10ms" ),
                            context() + " | interval " + std::to_string( iv.back() ) + " us, distance " + std::to_string( d ) + " us between" + dump_run( bi, bi + 1 ) + " and" + dump_run( ni, ni + 1 ), g_scenario );
                    }
                    // statistics only: start of event to start of next event, net of interval + 10 ms
                    const vtime s2s = n.start - f.start;
                    unsigned maxint = iv[ 0 ];
                    for ( auto i : iv ) maxint = std::max( maxint, i );
                    if ( s2s > vtime( maxint ) + 10000 )
                    {
                        const vtime x = s2s - maxint - 10000;
                        M.cls( x <= 1000 ? "start_to_start_exceeds_interval_plus_10ms_by_up_to_1ms" : x <= 2000 ? "start_to_start_exceeds_interval_plus_10ms_by_up_to_2ms" : "start_to_start_exceeds_interval_plus_10ms_by_more_than_2ms" );
                    }
                    M.cls( "interval_ms_" + std::to_string( iv.back() / 1000 ) );
                }
            }
        }

        M.count( "advertisements_logged", advs.size() );
        M.count( "scenarios" );
    }
};

// ------------------------------------------------------------------------------------------------ C24 workloads
static void run_script( verif::prng& r, const std::vector< op >& script, bool sample = false )
{
    ++g_scenario;
    verif::ctx_step( g_scenario );
    scenario s( r );
    for ( auto& o : script )
    {
        s.apply( o );
        if ( s.stalled ) break;
    }
    s.check();
    if ( sample )
        mon( "C24" ).sample( s.context() + " ->" + s.dump_run( 0, 12 ) );
}

static std::vector< op > prologue( verif::prng& r, unsigned initial_map )
{
    std::vector< op > p;
    if ( cfg::has_directed )
    {
        // directed advertising only: the peer address may also be given after run() was called for the first time
        if ( cfg::ntypes == 1 && r.chance( 1, 3 ) ) p.push_back( op( op::RUN, 1 ) );
        p.push_back( op( op::DIRADDR ) );
    }
    if ( cfg::ntypes > 1 ) p.push_back( op( op::TYPE, r.below( cfg::ntypes ) ) );
    if ( cfg::variable_map && initial_map != 7 ) p.push_back( op( op::SETMAP, initial_map ) );
    if ( cfg::variable_interval && r.chance( 1, 2 ) )
    {
        static const unsigned iv[] = { 20, 100, 10240, 1285, 21 };
        p.push_back( op( op::INTERVAL, iv[ r.below( 5 ) ] ) );
    }
    return p;
}

// all ordered pairs of maps x position of the change
static void c24_enumerate_maps( verif::prng& r, unsigned part, unsigned parts )
{
    if ( !cfg::variable_map ) return;
    unsigned n = 0;
    for ( unsigned a = 1; a < 8; ++a )
        for ( unsigned b = 1; b < 8; ++b )
        {
            const unsigned na = static_cast< unsigned >( map_channels( a ).size() );
            // position k: after the k-th advertisement of the third event (k == na: between two events)
            for ( unsigned k = 1; k <= na; ++k )
                for ( unsigned variant = 0; variant < ( cfg::no_auto_start ? 3u : 2u ); ++variant )
                {
                    if ( n++ % parts != part ) continue;
                    std::vector< op > s = prologue( r, a );
                    if ( cfg::no_auto_start ) s.push_back( op( op::START ) );
                    s.push_back( op( op::RUN, 2 * na + k ) );
                    if ( variant == 1 ) s.push_back( op( op::PASS, 100 + r.below( 15000 ) ) );
                    if ( variant == 2 ) { s.push_back( op( op::STOP ) ); s.push_back( op( op::RUN, 2 ) ); }
                    s.push_back( op( op::SETMAP, b ) );
                    if ( variant == 2 ) s.push_back( op( op::START ) );
                    s.push_back( op( op::RUN, 10 ) );
                    run_script( r, s, a == 5 && b == 3 && k == 1 && variant == 0 );
                }
        }
    mon( "C24" ).count( "map_pair_scripts", ( n + parts - 1 - part ) / parts );
}

// start/stop/count sequences up to the given length over a small alphabet, on every initial map
static void c24_enumerate_controls( verif::prng& r, unsigned depth, unsigned part, unsigned parts )
{
    if ( !cfg::no_auto_start ) return;
    static const op alphabet[] = {
        op( op::START ), op( op::STARTN, 1 ), op( op::STARTN, 2 ), op( op::STARTN, 4 ), op( op::STOP ), op( op::RUN, 1 ), op( op::RUN, 4 ),
    };
    const unsigned A = sizeof alphabet / sizeof alphabet[ 0 ];
    unsigned long total = 1;
    for ( unsigned d = 0; d < depth; ++d ) total *= A;
    unsigned long n = 0;
    for ( unsigned long code = 0; code < total; ++code )
    {
        if ( n++ % parts != part ) continue;
        const unsigned m = cfg::variable_map ? 1 + static_cast< unsigned >( code % 7 ) : 7;
        std::vector< op > s = prologue( r, m );
        if ( code & 1 ) s.push_back( op( op::RUN, 1 ) );        // run() before or after the first control
        unsigned long c = code;
        for ( unsigned d = 0; d < depth; ++d ) { s.push_back( alphabet[ c % A ] ); c /= A; }
        s.push_back( op( op::RUN, 7 ) );
        run_script( r, s );
    }
    mon( "C24" ).count( "control_sequences_enumerated", n / parts );
}

static void c24_random( verif::prng& r, unsigned long scenarios, const std::set< unsigned long long >& skip )
{
    for ( unsigned long sc = 0; sc < scenarios; ++sc )
    {
        // every scenario has its own stream so that skipped scenarios do not shift the others
        verif::prng sr( r.next() );
        if ( skip.count( g_scenario + 1 ) ) { ++g_scenario; continue; }

        std::vector< op > s = prologue( sr, cfg::variable_map ? 1 + sr.below( 7 ) : 7 );
        if ( cfg::no_auto_start && sr.chance( 3, 4 ) ) s.push_back( op( op::START ) );
        const unsigned len = 4 + sr.below( 14 );
        for ( unsigned i = 0; i < len; ++i )
        {
            switch ( sr.below( 12 ) )
            {
            case 0: if ( cfg::variable_map ) s.push_back( op( op::SETMAP, 1 + sr.below( 7 ) ) ); break;
            case 1: if ( cfg::no_auto_start ) s.push_back( op( op::START ) ); break;
            case 2: if ( cfg::no_auto_start ) s.push_back( op( op::STARTN, 1 + sr.below( 7 ) ) ); break;
            case 3: if ( cfg::no_auto_start ) s.push_back( op( op::STOP ) ); break;
            case 4: if ( cfg::variable_interval ) { static const unsigned iv[] = { 20, 100, 10240, 19, 10241, 0, 625, 30 }; s.push_back( op( op::INTERVAL, iv[ sr.below( 8 ) ] ) ); } break;
            case 5: if ( cfg::ntypes > 1 ) s.push_back( op( op::TYPE, sr.below( cfg::ntypes ) ) ); break;
            case 6: s.push_back( op( op::RX, 1 + sr.below( RX_KINDS - 1 ) ) ); s.push_back( op( op::RUN, 1 ) ); break;
            case 7: s.push_back( op( op::PASS, sr.below( 20000 ) ) ); break;
            default: s.push_back( op( op::RUN, 1 + sr.below( 9 ) ) ); break;
            }
        }
        s.push_back( op( op::RUN, 8 ) );
        run_script( sr, s );
    }
}

// a valid connect request on every advertising channel, then the connection attempt times out and advertising resumes;
// a connect request with invalid parameters on every channel
static void c24_connect_scripts( verif::prng& r )
{
    for ( unsigned kind = 0; kind < 2; ++kind )
        for ( unsigned ch = 0; ch < 3; ++ch )
        {
            std::vector< op > s = prologue( r, 7 );
            if ( cfg::no_auto_start ) s.push_back( op( op::START ) );
            s.push_back( op( op::RUN, 3 + ch ) );
            s.push_back( op( op::RX, kind == 0 ? RX_CONNECT_VALID : RX_CONNECT_BADPARAM ) );
            s.push_back( op( op::RUN, 1 ) );
            s.push_back( op( op::RUN, 12 ) );
            if ( cfg::no_auto_start ) s.push_back( op( op::START ) );
            s.push_back( op( op::RUN, 8 ) );
            run_script( r, s );
        }
}

// ------------------------------------------------------------------------------------------------ C25
struct wl_model {
    std::set< addr_t > s;
    bool               conn_filter;
    wl_model() : conn_filter( false ) {}
    bool passes( const addr_t& a ) const { return !conn_filter || s.count( a ) != 0; }
};

struct c25_expect {
    enum verdict_t { MUST_ENTER, MUST_NOT, EITHER } verdict;
    std::string reason;      // first reason why it must not / may not
};

// Predicate of C25, evaluated on the bytes the radio delivered and on the advertising PDU that was on air.
static c25_expect c25_predicate( const adv_record& adv, const bytes& p, const addr_t& own, bool peer_valid, const addr_t& peer, const wl_model& wl )
{
    c25_expect e; e.verdict = c25_expect::MUST_NOT;
    const unsigned adv_type = adv.pdu.empty() ? 99 : ( adv.pdu[ 0 ] & 0x0f );
    if ( adv_type != ADV_IND && adv_type != ADV_DIRECT_IND ) { e.reason = "advertising_not_connectable"; return e; }
    if ( p.size() < 2 ) { e.reason = "truncated"; return e; }
    if ( ( p[ 0 ] & 0x0f ) != CONNECT_IND ) { e.reason = "pdu_type_not_connect_ind"; return e; }
    if ( ( p[ 1 ] & 0x3f ) != 34 ) { e.reason = "length_field_not_34"; return e; }
    if ( p.size() != 36 ) { e.reason = "truncated"; return e; }
    if ( std::memcmp( &p[ 8 ], own.b, 6 ) != 0 ) { e.reason = "adva_not_own_address"; return e; }
    if ( ( ( p[ 0 ] & 0x80 ) != 0 ) != own.random ) { e.reason = "rxadd_not_own_address_type"; return e; }
    addr_t init; std::memcpy( init.b, &p[ 2 ], 6 ); init.random = ( p[ 0 ] & 0x40 ) != 0;
    if ( adv_type == ADV_DIRECT_IND )
    {
        if ( !peer_valid || std::memcmp( init.b, peer.b, 6 ) != 0 ) { e.reason = "inita_not_directed_peer"; return e; }
        if ( init.random != peer.random ) { e.reason = "txadd_not_directed_peer_type"; return e; }
    }
    if ( !wl.passes( init ) ) { e.reason = "initiator_not_in_white_list"; return e; }
    // from here on the request satisfies the predicate of C25; whether its parameters are acceptable is C22's business
    if ( p[ 1 ] & 0xc0 ) { e.verdict = c25_expect::EITHER; e.reason = "length_byte_upper_bits_set"; return e; }
    const std::string inv = llddata_invalid( p );
    if ( !inv.empty() ) { e.verdict = c25_expect::EITHER; e.reason = "parameters_invalid_" + inv; return e; }
    e.verdict = c25_expect::MUST_ENTER;
    e.reason = adv_type == ADV_DIRECT_IND ? "valid_directed" : "valid_undirected";
    return e;
}

struct c25_driver
{
    verif::prng&    rnd;
    ll_t*           l;
    addr_t          own, peer;
    bool            peer_valid;
    wl_model        wl;
    int             type_sel;
    // last injected
    bool            injected;
    bytes           last_pdu;
    c25_expect      last_expect;
    std::size_t     last_adv;
    std::string     hist;
    unsigned long long judged;

    explicit c25_driver( verif::prng& r ) : rnd( r ), l( new ll_t ), peer_valid( false ), type_sel( 0 ), injected( false ), last_adv( 0 ), judged( 0 )
    {
        l->responder = [this]( const adv_record& a ) { return respond( a ); };
    }
    ~c25_driver() { delete l; }

    void note( const std::string& s ) { if ( hist.size() < 900 ) { if ( !hist.empty() ) hist += ' '; hist += s; } }

    bytes generate( const adv_record& adv )
    {
        verif::monitor& M = mon( "C25" );
        // initiator
        addr_t init = universe( rnd.below( universe_size ) );
        if ( !wl.s.empty() && rnd.chance( 1, 2 ) ) { auto it = wl.s.begin(); std::advance( it, rnd.below( wl.s.size() ) ); init = *it; }
        const unsigned adv_type = adv.pdu.empty() ? 99 : ( adv.pdu[ 0 ] & 0x0f );
        if ( adv_type == ADV_DIRECT_IND && peer_valid && rnd.chance( 3, 4 ) ) init = peer;

        conn_params cp;
        // valid corners
        switch ( rnd.below( 8 ) ) {
        case 0: cp.interval = 6; cp.win_size = 1; cp.win_offset = 0; cp.timeout = 10; break;
        case 1: cp.interval = 3200; cp.win_size = 8; cp.win_offset = 3200; cp.timeout = 3200; cp.latency = 0; break;
        case 2: cp.interval = 24; cp.latency = 10; cp.timeout = 100; cp.hop = 5; break;
        case 3: cp.interval = 8; cp.latency = 499; cp.timeout = 1001; cp.hop = 16; cp.win_size = 7; cp.win_offset = 8; break;
        case 4: std::memset( cp.chm, 0, 5 ); cp.chm[ 0 ] = 0x01; cp.chm[ 4 ] = 0x10; break;       // exactly two channels
        default: cp.sca = rnd.below( 8 ); break;
        }
        std::string field;
        if ( rnd.chance( 1, 5 ) )
        {
            switch ( rnd.below( 12 ) ) {
            case 0: cp.interval = rnd.below( 6 ); field = "interval_low"; break;
            case 1: cp.interval = 3201 + rnd.below( 60000 ); cp.timeout = 3200; field = "interval_high"; break;
            case 2: cp.latency = 500 + rnd.below( 65000 ); field = "latency"; break;
            case 3: cp.timeout = rnd.below( 10 ); field = "timeout_low"; break;
            case 4: cp.timeout = 3201 + rnd.below( 62000 ); field = "timeout_high"; break;
            case 5: cp.latency = 3; cp.interval = 100; cp.timeout = 100; field = "timeout_vs_latency"; break;
            case 6: cp.win_size = 0; field = "win_size_zero"; break;
            case 7: cp.win_size = 9 + rnd.below( 240 ); field = "win_size_high"; break;
            case 8: cp.win_offset = cp.interval + 1 + rnd.below( 1000 ); field = "win_offset"; break;
            case 9: cp.hop = rnd.chance( 1, 2 ) ? rnd.below( 5 ) : 17 + rnd.below( 15 ); field = "hop"; break;
            case 10: std::memset( cp.chm, 0, 5 ); if ( rnd.chance( 1, 2 ) ) cp.chm[ rnd.below( 4 ) ] = 1u << rnd.below( 8 ); else cp.chm[ 4 ] = 0xe0; field = "channel_map"; break;
            default: cp.aa = static_cast< std::uint32_t >( rnd.next() ); field = "access_address"; break;
            }
            M.cls( "gen_param_" + field );
        }

        bytes p = connect_ind( init, own, cp );

        // every header / address field independently wrong
        if ( rnd.chance( 1, 5 ) ) { p[ 0 ] = ( p[ 0 ] & 0xf0 ) | rnd.below( 16 ); M.cls( "gen_type_any" ); }
        if ( rnd.chance( 1, 10 ) ) { p[ 0 ] ^= 0x10 << rnd.below( 2 ); M.cls( "gen_header_rfu_chsel_bits" ); }
        if ( rnd.chance( 1, 8 ) ) { p[ 0 ] ^= 0x80; M.cls( "gen_rxadd_flipped" ); }
        if ( rnd.chance( 1, 8 ) ) { p[ 0 ] ^= 0x40; M.cls( "gen_txadd_flipped" ); }
        if ( rnd.chance( 1, 8 ) )
        {
            switch ( rnd.below( 4 ) ) {
            case 0: case 1: p[ 8 + rnd.below( 6 ) ] ^= 1u << rnd.below( 8 ); M.cls( "gen_adva_one_bit_off" ); break;
            case 2: for ( int i = 0; i < 6; ++i ) p[ 8 + i ] = rnd.byte(); M.cls( "gen_adva_random" ); break;
            default: std::memcpy( &p[ 8 ], &p[ 2 ], 6 ); M.cls( "gen_adva_is_inita" ); break;
            }
        }
        if ( adv_type == ADV_DIRECT_IND && rnd.chance( 1, 8 ) ) { p[ 2 + rnd.below( 6 ) ] ^= 1u << rnd.below( 8 ); M.cls( "gen_inita_one_bit_off" ); }

        // length field and the number of bytes the radio delivers
        std::size_t deliver = 36;
        if ( rnd.chance( 1, 5 ) )
        {
            unsigned len;
            switch ( rnd.below( 6 ) ) {
            case 0: len = 33; break;
            case 1: len = 35; break;
            case 2: len = rnd.below( 38 ); break;
            case 3: len = 63; break;
            case 4: len = 12; break;
            default: len = 34 | ( ( 1 + rnd.below( 3 ) ) << 6 ); break;
            }
            p[ 1 ] = len;
            // a radio delivers the announced bytes, as far as the receive buffer (36 bytes) has room
            deliver = std::min< std::size_t >( 36, 2 + ( len & 0x3f ) );
            if ( ( len & 0x3f ) != 34 && rnd.chance( 1, 4 ) ) deliver = 36;       // trailing bytes stay in the buffer
            M.cls( "gen_length_field" );
        }
        if ( rnd.chance( 1, 10 ) ) { deliver = 2 + rnd.below( 34 ); M.cls( "gen_truncated_buffer" ); }
        p.resize( deliver, 0 );
        return p;
    }

    rx_outcome respond( const adv_record& adv )
    {
        injected = false;
        if ( rnd.chance( 1, 8 ) ) return rx_outcome::none();
        if ( rnd.chance( 1, 40 ) ) return rx_outcome::crc();
        last_pdu    = generate( adv );
        last_expect = c25_predicate( adv, last_pdu, own, peer_valid, peer, wl );
        last_adv    = adv.index;
        injected    = true;
        verif::ctx_op( "adv_received", last_pdu.data(), last_pdu.size() );
        return rx_outcome::rx( last_pdu );
    }

    std::string describe() const
    {
        const adv_record& a = l->advs[ last_adv ];
        std::string w;
        for ( auto& x : wl.s ) w += x.str() + " ";
        return std::string( cfg::name() ) + " own=" + own.str() + " advertised=" + verif::hex( a.pdu ) + " on channel " + std::to_string( a.channel )
            + " received=" + verif::hex( last_pdu ) + " (" + std::to_string( last_pdu.size() ) + " bytes delivered)"
            + " connection_filter=" + ( wl.conn_filter ? "on" : "off" ) + " white_list=[ " + w + "]"
            + ( cfg::has_directed ? " directed_peer=" + ( peer_valid ? peer.str() : std::string( "none" ) ) : std::string() )
            + " expectation=" + ( last_expect.verdict == c25_expect::MUST_ENTER ? "must_enter" : last_expect.verdict == c25_expect::MUST_NOT ? "must_not_enter" : "either" )
            + "(" + last_expect.reason + ") setup: " + hist;
    }

    void white_list_ops()
    {
        verif::monitor& M = mon( "C25" );
        if ( !cfg::wl_size ) return;
        if ( !rnd.chance( 1, 6 ) ) return;
        l->pass_time( 1 + rnd.below( 20 ) );
        switch ( rnd.below( 6 ) )
        {
        case 0: case 1: {
            const addr_t a = universe( rnd.below( universe_size ) );
            verif::ctx_op( "add_to_white_list" );
            const bool ok = cfg::wl_add( *l, a.dev() );
            const bool expect = wl.s.count( a ) || wl.s.size() < cfg::wl_size;
            if ( expect ) wl.s.insert( a );
            if ( ok != expect ) { note( "white list add result differs from the set model (C26)" ); M.count( "white_list_model_divergence" ); }
            M.cls( "wl_add" );
            break;
        }
        case 2: {
            const addr_t a = universe( rnd.below( universe_size ) );
            verif::ctx_op( "remove_from_white_list" );
            cfg::wl_remove( *l, a.dev() );
            wl.s.erase( a );
            M.cls( "wl_remove" );
            break;
        }
        case 3:
            if ( rnd.chance( 1, 3 ) ) { verif::ctx_op( "clear_white_list" ); cfg::wl_clear( *l ); wl.s.clear(); M.cls( "wl_clear" ); }
            break;
        default:
            wl.conn_filter = rnd.chance( 2, 3 );
            verif::ctx_op( "connection_request_filter" );
            cfg::wl_conn_filter( *l, wl.conn_filter );
            M.cls( wl.conn_filter ? "conn_filter_on" : "conn_filter_off" );
            break;
        }
    }

    // returns false when the scenario cannot go on
    bool run( unsigned pdus )
    {
        verif::monitor& M = mon( "C25" );

        // own address: the configured static random address, or one given at run time (public or random)
        if ( rnd.chance( 1, 2 ) )
        {
            addr_t a; for ( auto& x : a.b ) x = rnd.byte(); a.random = rnd.chance( 1, 2 );
            if ( a.random ) a.b[ 5 ] |= 0xc0;
            verif::ctx_op( "local_address" );
            l->local_address( a.dev() );
            note( "local_address(" + a.str() + ")" );
        }
        own = from_dev( l->local_address() );
        M.cls( own.random ? "own_address_random" : "own_address_public" );

        if ( cfg::has_directed )
        {
            peer = universe( rnd.below( universe_size ) );
            peer_valid = true;
            verif::ctx_op( "directed_advertising_address" );
            cfg::directed( *l, peer.dev() );
            note( "directed_peer(" + peer.str() + ")" );
        }
        if ( cfg::ntypes > 1 ) { type_sel = rnd.below( cfg::ntypes ); cfg::select_type( *l, type_sel ); note( "type" + std::to_string( type_sel ) ); }
        if ( cfg::no_auto_start ) { verif::ctx_op( "start_advertising" ); cfg::start( *l ); }

        unsigned idle_steps = 0;
        for ( unsigned n = 0; n < pdus; )
        {
            white_list_ops();
            if ( cfg::ntypes > 1 && rnd.chance( 1, 20 ) ) { type_sel = rnd.below( cfg::ntypes ); verif::ctx_op( "change_advertising" ); cfg::select_type( *l, type_sel ); }

            if ( l->idle() )
            {
                // not advertising (e.g. after a connection with no_auto_start, or stalled): start again
                if ( ++idle_steps > 3 ) { M.count( "scenario_abandoned_radio_idle" ); return false; }
                l->pass_time( 1000 );
                if ( cfg::no_auto_start ) { verif::ctx_op( "start_advertising" ); cfg::start( *l ); }
                verif::ctx_op( "run" );
                l->run();
                continue;
            }

            const bool        adv_pending  = l->pending == sim_radio_base::pending_advertisment;
            const std::size_t conns_before = l->conns.size();
            const unsigned long req_before = recorder.requested;
            injected = false;
            verif::ctx_op( "run" );
            l->run();

            if ( !adv_pending ) continue;      // a connection event timed out
            idle_steps = 0;
            if ( !injected ) continue;
            ++n;
            ++judged;

            const bool entered = l->conns.size() > conns_before;
            const adv_record& adv = l->advs[ last_adv ];
            const unsigned adv_type = adv.pdu.empty() ? 99 : ( adv.pdu[ 0 ] & 0x0f );

            M.eval();
            M.cls( "adv_type_" + std::to_string( adv_type ) );
            M.cls( ( last_expect.verdict == c25_expect::MUST_ENTER ? "must_enter_" : last_expect.verdict == c25_expect::MUST_NOT ? "must_not_" : "either_" ) + last_expect.reason );
            M.cls( entered ? "observed_entered" : "observed_not_entered" );

            if ( last_expect.verdict == c25_expect::MUST_NOT && entered )
                verif::violation( "C25", "C25:connect:connection_entered_although_" + last_expect.reason, describe(), g_scenario );
            if ( last_expect.verdict == c25_expect::MUST_ENTER && !entered )
                verif::violation( "C25", "C25:connect:valid_request_not_accepted:" + last_expect.reason, describe(), g_scenario );
            if ( cfg::has_recorder )
            {
                M.eval();
                if ( ( recorder.requested > req_before ) != entered )
                    verif::violation( "C25", "C25:connect:connection_requested_callback_disagrees_with_scheduling", describe(), g_scenario );
                else if ( entered )
                {
                    addr_t init; std::memcpy( init.b, &last_pdu[ 2 ], 6 ); init.random = ( last_pdu[ 0 ] & 0x40 ) != 0;
                    if ( !( from_dev( recorder.last_remote ) == init ) )
                        verif::violation( "C25", "C25:connect:reported_remote_address_is_not_the_initiator", describe() + " reported=" + from_dev( recorder.last_remote ).str(), g_scenario );
                    M.cls( "callback_remote_address_checked" );
                }
            }

            std::uint64_t h = verif::hstr( cfg::name() );
            h = verif::mix( h, adv_type ); h = verif::mix( h, own.random ); h = verif::mix( h, wl.conn_filter ); h = verif::mix( h, wl.s.size() );
            h = verif::mix( h, verif::hstr( last_expect.reason ) ); h = verif::mix( h, last_pdu.size() ); h = verif::mix( h, last_pdu.size() > 1 ? last_pdu[ 1 ] : 0 );
            h = verif::mix( h, last_pdu[ 0 ] ); h = verif::mix( h, entered );
            M.nontrivial( h );
            if ( entered && last_expect.verdict == c25_expect::MUST_ENTER ) M.sample( describe(), 3 );

            if ( !entered && l->idle() ) M.count( "advertising_stopped_after_rejected_request" );
        }
        return true;
    }
};

// `scenarios` link layer objects, each fed with up to `pdus` received PDUs.  When advertising comes to a halt (which
// is C24's business) the scenario ends early and a fresh link layer takes over, so that the number of judged PDUs
// does not depend on it.
static void c25_random( verif::prng& r, unsigned long scenarios, unsigned pdus, const std::set< unsigned long long >& skip )
{
    unsigned long long wanted = static_cast< unsigned long long >( scenarios ) * pdus;
    const unsigned long long max_scenarios = scenarios * 40ull;
    for ( unsigned long long sc = 0; sc < max_scenarios && wanted; ++sc )
    {
        verif::prng sr( r.next() );
        ++g_scenario;
        if ( skip.count( g_scenario ) ) continue;
        verif::ctx_step( g_scenario );
        c25_driver d( sr );
        const unsigned long long before = mon( "C25" ).evaluations;
        d.run( static_cast< unsigned >( std::min< unsigned long long >( pdus, wanted ) ) );
        const unsigned long long done = d.judged;
        (void)before;
        wanted -= std::min( wanted, done );
        mon( "C25" ).count( "scenarios" );
        mon( "C25" ).count( "advertisements_logged", d.l->advs.size() );
        mon( "C25" ).count( "connection_events_logged", d.l->conns.size() );
    }
}

// ------------------------------------------------------------------------------------------------ main
int main( int argc, char** argv )
{
    verif::args a( argc, argv );
    verif::install_crash_handler();
    const std::string mode = a.str( "mode", "c24rand" );
    verif::prng r( a.num( "seed", 1 ) * 0x9e3779b97f4a7c15ull + verif::hstr( cfg::name() ) + verif::hstr( mode ) );
    const unsigned long ops = a.num( "ops", 200 );
    verif::run_config() = std::string( cfg::name() ) + " mode=" + mode;
    verif::ctx_config( cfg::name() );

    std::set< unsigned long long > skip;
    {
        const std::string s = a.str( "skip" );
        std::size_t pos = 0;
        while ( pos < s.size() ) { skip.insert( std::strtoull( s.c_str() + pos, nullptr, 10 ) ); pos = s.find( ',', pos ); if ( pos == std::string::npos ) break; ++pos; }
    }

    if ( mode == "c24enum" )
    {
        verif::ctx_prop( "C24" );
        const unsigned part = static_cast< unsigned >( a.num( "part", 0 ) ), parts = static_cast< unsigned >( a.num( "parts", 1 ) );
        c24_enumerate_maps( r, part, parts );
        c24_enumerate_controls( r, static_cast< unsigned >( a.num( "depth", 3 ) ), part, parts );
        if ( part == 0 ) c24_connect_scripts( r );
    }
    else if ( mode == "c24rand" )
    {
        verif::ctx_prop( "C24" );
        c24_random( r, ops, skip );
    }
    else if ( mode == "c25" )
    {
        verif::ctx_prop( "C25" );
        c25_random( r, ops, static_cast< unsigned >( a.num( "pdus", 150 ) ), skip );
    }
    verif::finish();
    return 0;
}
