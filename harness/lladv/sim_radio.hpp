// Simulated scheduled radio on VIRTUAL TIME (microseconds) for the lladv family (C24, C25).
//
// Implements the interface documented in bluetoe/link_layer/scheduled_radio.hpp as far as the link layer
// uses it; derives from the real ll_data_pdu_buffer like every radio binding of the repository does.
// Nothing here decides anything for the link layer: every scheduling call is only logged (virtual time of
// the call, virtual time of the first bit on air, channel, PDU bytes) and the harness decides the outcome of
// every scheduled advertisement (time out / CRC error / received PDU) and of every connection event (time out).
//
// Time model (documented in scheduled_radio.hpp): scheduling calls are relative to T0; after
// schedule_advertisment( when ) the new T0 is the time that transmission was scheduled for.  `when == now`
// (zero) means "as soon as possible": the transmission starts one transmitter ramp-up after the call and
// T0 becomes that start (this is also what the nRF52 binding of the repository does: it captures the current
// time as the anchor of the next advertisement).
#ifndef VERIF_LLADV_SIM_RADIO_HPP
#define VERIF_LLADV_SIM_RADIO_HPP

#include <bluetoe/ll_data_pdu_buffer.hpp>
#include <bluetoe/delta_time.hpp>
#include <bluetoe/buffer.hpp>
#include <bluetoe/address.hpp>
#include <bluetoe/connection_events.hpp>
#include <bluetoe/phy_encodings.hpp>

#include "common/verif.hpp"

#include <vector>
#include <functional>
#include <utility>

namespace lladv {

typedef unsigned long long vtime;   // microseconds of virtual time

struct adv_record {
    unsigned                    index;
    vtime                       call_time;      // virtual time of the schedule_advertisment() call
    vtime                       start;          // first bit on air
    vtime                       callback_time;  // when adv_timeout()/adv_received() was called (0: not yet)
    unsigned                    channel;
    unsigned long               when_us;
    std::vector< std::uint8_t > pdu;            // header + payload as announced by the header's length field
    std::size_t                 pdu_buffer_size;
    std::vector< std::uint8_t > response;       // scan response PDU (empty: none)
    std::size_t                 receive_size;
    std::uint32_t               access_address;
    std::uint32_t               crc_init;
    bool                        while_pending;  // called although an earlier scheduled action was still outstanding
    bool                        late;           // T0 + when was already in the past
    bool                        replaced;       // never went on air, because a later scheduling call replaced it
    int                         outcome;        // -1 not yet, 0 timeout, 1 crc error, 2 received
};

struct conn_record {
    vtime           call_time;
    unsigned        channel;
    unsigned long   start_receive_us, end_receive_us, interval_us;
    std::uint32_t   access_address, crc_init;
    bool            while_pending;
};

struct rx_outcome {
    enum kind_t { timeout = 0, crc_error = 1, received = 2 } kind;
    std::vector< std::uint8_t > pdu;    // bytes handed to adv_received(); its size is the size of the read_buffer
    rx_outcome() : kind( timeout ) {}
    static rx_outcome none() { return rx_outcome(); }
    static rx_outcome crc() { rx_outcome r; r.kind = crc_error; return r; }
    static rx_outcome rx( const std::vector< std::uint8_t >& p ) { rx_outcome r; r.kind = received; r.pdu = p; return r; }
};

class sim_radio_base
{
public:
    sim_radio_base()
        : now( 0 ), t0( 0 ), conn_anchor( 0 ), pending( pending_none ), pending_adv( 0 )
        , access_address_( 0 ), crc_init_( 0 ), aa_valid_( false )
        , tx_rampup_us( 130 ), callback_latency_us( 40 )
        , schedule_while_pending( 0 ), schedule_without_access_address( 0 ), late_schedules( 0 )
        , wake_ups_( 0 ), cancelation_requested_( false )
        , pending_conn_end( 0 ), callbacks_made( 0 )
    {
    }

    // ------------------------------------------------------------------ state visible to the harness
    vtime                       now;            // virtual time
    vtime                       t0;             // anchor of the next schedule_advertisment() call
    vtime                       conn_anchor;    // anchor of the connection events: end of the connect request
    enum pending_t { pending_none, pending_advertisment, pending_connection_event } pending;
    std::size_t                 pending_adv;    // index into advs
    std::vector< adv_record >   advs;
    std::vector< conn_record >  conns;

    // outcome of the advertisement that is about to go on air; default: nobody answers
    std::function< rx_outcome ( const adv_record& ) > responder;

    unsigned                    tx_rampup_us;
    unsigned                    callback_latency_us;

    // interface misuse by the link layer
    unsigned long               schedule_while_pending;
    unsigned long               schedule_without_access_address;
    unsigned long               late_schedules;
    unsigned long               callbacks_made;

    // the time the next callback will be made, if the pending action runs undisturbed
    vtime next_callback_time() const
    {
        if ( pending == pending_advertisment )
            return advs[ pending_adv ].start;
        if ( pending == pending_connection_event )
            return pending_conn_end;
        return now;
    }

    // let virtual time pass without any radio activity (user code running between two run() calls);
    // never moves past the start of the pending action
    void pass_time_to( vtime t )
    {
        if ( pending != pending_none && t > next_callback_time() )
            t = next_callback_time();
        if ( t > now )
            now = t;
    }

    void pass_time( vtime d )
    {
        if ( pending == pending_none )
            now += d;
        else
            pass_time_to( now + d );
    }

    bool idle() const { return pending == pending_none; }

    // ------------------------------------------------------------------ scheduled_radio interface (non template part)
    void set_access_address_and_crc_init( std::uint32_t access_address, std::uint32_t crc_init )
    {
        access_address_ = access_address;
        crc_init_       = crc_init;
        aa_valid_       = true;
    }

    std::uint32_t static_random_address_seed() const { return 0x47110815; }

    void wake_up() { ++wake_ups_; }
    void request_event_cancelation() { cancelation_requested_ = true; }

    std::pair< bool, bluetoe::link_layer::delta_time > disarm_connection_event()
    {
        return std::pair< bool, bluetoe::link_layer::delta_time >( false, bluetoe::link_layer::delta_time() );
    }

    bool schedule_synchronized_user_timer( bluetoe::link_layer::delta_time, bluetoe::link_layer::delta_time ) { return false; }
    bool cancel_synchronized_user_timer() { return false; }

    void radio_set_phy( bluetoe::link_layer::phy_ll_encoding::phy_ll_encoding_t, bluetoe::link_layer::phy_ll_encoding::phy_ll_encoding_t ) {}

    void increment_receive_packet_counter() {}
    void increment_transmit_packet_counter() {}

    class lock_guard
    {
    public:
        lock_guard() {}
        ~lock_guard() {}
        lock_guard( const lock_guard& ) = delete;
        lock_guard& operator=( const lock_guard& ) = delete;
    };

    static constexpr std::size_t radio_maximum_white_list_entries       = 0;
    static constexpr bool        hardware_supports_encryption           = false;
    static constexpr bool        hardware_supports_2mbit                = true;
    static constexpr bool        hardware_supports_synchronized_user_timer = false;
    static constexpr unsigned    connection_event_setup_time_us         = 100u;

protected:
    void log_advertisment(
        unsigned channel, const bluetoe::link_layer::write_buffer& adv, const bluetoe::link_layer::write_buffer& rsp,
        bluetoe::link_layer::delta_time when, const bluetoe::link_layer::read_buffer& receive )
    {
        adv_record r;
        r.index         = static_cast< unsigned >( advs.size() );
        r.call_time     = now;
        r.channel       = channel;
        r.when_us       = when.usec();
        r.callback_time = 0;
        r.late          = false;
        r.replaced      = false;
        r.outcome       = -1;
        r.while_pending = pending != pending_none;
        r.access_address= access_address_;
        r.crc_init      = crc_init_;
        r.receive_size  = receive.size;
        r.pdu_buffer_size = adv.size;

        if ( !aa_valid_ )
            ++schedule_without_access_address;

        if ( r.while_pending )
        {
            ++schedule_while_pending;
            // the radio gets reprogrammed: the action that was outstanding never happens
            if ( pending == pending_advertisment )
                advs[ pending_adv ].replaced = true;
        }

        if ( when.zero() )
        {
            r.start = now + tx_rampup_us;
        }
        else
        {
            r.start = t0 + when.usec();
            if ( r.start < now + tx_rampup_us )
            {
                r.late  = true;
                r.start = now + tx_rampup_us;
                ++late_schedules;
            }
        }

        copy_pdu( adv, r.pdu );
        copy_pdu( rsp, r.response );

        receive_buffer_ = receive;
        advs.push_back( r );
        pending     = pending_advertisment;
        pending_adv = advs.size() - 1;
    }

    bluetoe::link_layer::delta_time log_connection_event(
        unsigned channel, bluetoe::link_layer::delta_time start_receive, bluetoe::link_layer::delta_time end_receive,
        bluetoe::link_layer::delta_time connection_interval )
    {
        conn_record c;
        c.call_time         = now;
        c.channel           = channel;
        c.start_receive_us  = start_receive.usec();
        c.end_receive_us    = end_receive.usec();
        c.interval_us       = connection_interval.usec();
        c.access_address    = access_address_;
        c.crc_init          = crc_init_;
        c.while_pending     = pending != pending_none;

        if ( c.while_pending )
        {
            ++schedule_while_pending;
            if ( pending == pending_advertisment )
                advs[ pending_adv ].replaced = true;
        }

        conns.push_back( c );
        pending          = pending_connection_event;

        const vtime start = conn_anchor + start_receive.usec();
        pending_conn_end  = conn_anchor + end_receive.usec();

        if ( start <= now )
        {
            // already in the past: timeout() will be called at once
            pending_conn_end = now;
            return bluetoe::link_layer::delta_time();
        }

        return bluetoe::link_layer::delta_time( static_cast< std::uint32_t >( start - now ) );
    }

    static void copy_pdu( const bluetoe::link_layer::write_buffer& b, std::vector< std::uint8_t >& out )
    {
        out.clear();
        if ( !b.buffer || b.size < 2 )
            return;
        std::size_t n = 2u + ( b.buffer[ 1 ] & 0x3f );
        if ( n > b.size )
            n = b.size;
        out.assign( b.buffer, b.buffer + n );
    }

    bluetoe::link_layer::read_buffer    receive_buffer_;
    std::uint32_t                       access_address_;
    std::uint32_t                       crc_init_;
    bool                                aa_valid_;
    int                                 wake_ups_;
    bool                                cancelation_requested_;
    vtime                               pending_conn_end;
};

/**
 * The radio handed to bluetoe::link_layer::link_layer<>.  run() performs at most ONE outstanding radio
 * action (the advertisement or connection event that is scheduled) and makes the one callback that belongs to
 * it; when nothing is scheduled it returns at once.
 */
template < std::size_t TransmitSize, std::size_t ReceiveSize, typename CallBack >
class sim_radio :
    public sim_radio_base,
    public bluetoe::link_layer::ll_data_pdu_buffer< TransmitSize, ReceiveSize, sim_radio< TransmitSize, ReceiveSize, CallBack > >
{
public:
    void schedule_advertisment(
        unsigned                                    channel,
        const bluetoe::link_layer::write_buffer&    advertising_data,
        const bluetoe::link_layer::write_buffer&    response_data,
        bluetoe::link_layer::delta_time             when,
        const bluetoe::link_layer::read_buffer&     receive )
    {
        this->log_advertisment( channel, advertising_data, response_data, when, receive );
    }

    bluetoe::link_layer::delta_time schedule_connection_event(
        unsigned                                    channel,
        bluetoe::link_layer::delta_time             start_receive,
        bluetoe::link_layer::delta_time             end_receive,
        bluetoe::link_layer::delta_time             connection_interval )
    {
        return this->log_connection_event( channel, start_receive, end_receive, connection_interval );
    }

    void run()
    {
        if ( pending == pending_advertisment )
        {
            adv_record& r = advs[ pending_adv ];
            const std::size_t idx = pending_adv;
            pending = pending_none;

            if ( r.start > now )
                now = r.start;
            t0 = r.start;

            const rx_outcome o = responder ? responder( r ) : rx_outcome::none();
            const vtime tx_time = ( r.pdu.size() + 8u ) * 8u;    // preamble 1, access address 4, CRC 3

            advs[ idx ].outcome = static_cast< int >( o.kind );
            ++callbacks_made;

            if ( o.kind == rx_outcome::received )
            {
                // T_IFS after the advertisement, then the request itself
                now = r.start + tx_time + 150u + ( o.pdu.size() + 8u ) * 8u + callback_latency_us;
                advs[ idx ].callback_time = now;
                // the request ended here: anchor of the connection, if it becomes one.  For a following advertisement
                // T0 stays the start of the transmission ("in both cases ... the new T0 = T0 + when")
                conn_anchor = now - callback_latency_us;

                // exact-size copy: one byte read behind what the radio delivered is an ASan report
                verif::exact_buffer copy( o.pdu.data(), o.pdu.size() );
                static_cast< CallBack* >( this )->adv_received( bluetoe::link_layer::read_buffer{ copy.data(), o.pdu.size() } );
            }
            else
            {
                // nobody answered within T_IFS + the time a connect request needs (or the CRC was wrong)
                now = r.start + tx_time + 152u + 42u * 8u + 20u + callback_latency_us;
                advs[ idx ].callback_time = now;
                static_cast< CallBack* >( this )->adv_timeout();
            }
        }
        else if ( pending == pending_connection_event )
        {
            pending = pending_none;
            if ( pending_conn_end > now )
                now = pending_conn_end;
            now += callback_latency_us;
            ++callbacks_made;
            // the central never shows up: T0 stays where it was
            static_cast< CallBack* >( this )->timeout();
        }

        if ( cancelation_requested_ )
        {
            cancelation_requested_ = false;
            static_cast< CallBack* >( this )->try_event_cancelation();
        }

        if ( wake_ups_ )
            --wake_ups_;
    }
};

} // namespace lladv

#endif
