// llctrl family, configurations with encryption (C28, and C27/C29 with the encryption procedure in the mix).
// One link_layer<> instantiation per translation unit, selected with -DLLCTRL_CFG=<n>.
//   4  key supplier is a minimal security manager whose find_key() reads the harness' key table,
//      2 MBit radio with the encryption entry points, buffers 200/200
//   5  the real bluetoe::legacy_security_manager with bluetoe::bonding_data_base<> on top of the harness' key
//      table (find_key( ediv, rand, remote_address )), 1 MBit radio, buffers 200/200
#include <bluetoe/link_layer.hpp>
#include <bluetoe/server.hpp>
#include <bluetoe/security_manager.hpp>
#include <bluetoe/pairing_status.hpp>

#include "llctrl/ctrl_drivers.hpp"

#ifndef LLCTRL_CFG
#define LLCTRL_CFG 4
#endif

namespace {

std::uint16_t secret_value = 0x5ec7;
std::uint8_t  plain_value  = 0x42;

// handles: 1 service, 2 declaration, 3 protected value, 4 declaration, 5 plain value
typedef bluetoe::server<
    bluetoe::service<
        bluetoe::service_uuid< 0x8C8B4094, 0x0DE2, 0x499F, 0xA28A, 0x4EED5BC73CA9 >,
        bluetoe::characteristic<
            bluetoe::characteristic_uuid< 0x8C8B4094, 0x0DE2, 0x499F, 0xA28A, 0x4EED5BC73CAA >,
            bluetoe::bind_characteristic_value< std::uint16_t, &secret_value >,
            bluetoe::no_write_access,
            bluetoe::requires_encryption
        >,
        bluetoe::characteristic<
            bluetoe::characteristic_uuid< 0x8C8B4094, 0x0DE2, 0x499F, 0xA28A, 0x4EED5BC73CAB >,
            bluetoe::bind_characteristic_value< std::uint8_t, &plain_value >,
            bluetoe::no_encryption_required
        >
    >,
    bluetoe::no_gap_service_for_gatt_servers
> secret_server;

llctrl::recorder        g_rec;
llctrl::async_cpr_app   g_app;
llctrl::key_table_t     g_keys;

typedef bluetoe::link_layer::connection_callbacks< llctrl::recorder, g_rec > callbacks_t;

#if LLCTRL_CFG == 4
// The smallest thing the link layer accepts as a security manager: no pairing, keys come from the table.
struct table_security_manager
{
    template < typename ... >
    class impl
    {
    public:
        template < class OtherConnectionData >
        class channel_data_t : public OtherConnectionData
        {
        public:
            std::pair< bool, bluetoe::details::uint128_t > find_key( std::uint16_t ediv, std::uint64_t rand ) const
            {
                return g_keys.find( ediv, rand );
            }

            void remote_connection_created( const bluetoe::link_layer::device_address& ) {}

            bluetoe::device_pairing_status local_device_pairing_status() const
            {
                return bluetoe::device_pairing_status::unauthenticated_key;
            }

            template < typename Connection >
            void restore_bonded_cccds( Connection& ) {}
        };

        template < class Connection >
        void l2cap_input( const std::uint8_t*, std::size_t, std::uint8_t*, std::size_t& out_size, Connection& ) { out_size = 0; }

        template < class Connection >
        bool security_manager_output_available( Connection& ) const { return false; }

        template < class Connection >
        void l2cap_output( std::uint8_t*, std::size_t& out_size, Connection& ) { out_size = 0; }

        static constexpr std::uint16_t channel_id               = bluetoe::l2cap_channel_ids::sm;
        static constexpr std::size_t   minimum_channel_mtu_size = bluetoe::details::default_att_mtu_size;
        static constexpr std::size_t   maximum_channel_mtu_size = bluetoe::details::default_att_mtu_size;
    };

    struct meta_type :
        bluetoe::details::security_manager_meta_type,
        bluetoe::link_layer::details::valid_link_layer_option_meta_type {};
};
#else
// bond data base on top of the key table
struct bond_db_t
{
    template < class Radio >
    bluetoe::details::longterm_key_t create_new_bond( Radio& radio, const bluetoe::link_layer::device_address& )
    {
        return radio.create_long_term_key();
    }

    template < class Connection >
    void store_bond( const bluetoe::details::longterm_key_t&, const Connection& ) {}

    std::pair< bool, bluetoe::details::uint128_t > find_key( std::uint16_t ediv, std::uint64_t rand, const bluetoe::link_layer::device_address& ) const
    {
        return g_keys.find( ediv, rand );
    }

    template < class Connection >
    void restore_cccds( Connection& ) {}
} g_bond_db;
#endif

struct cfg
{
#if LLCTRL_CFG == 4
    typedef bluetoe::link_layer::link_layer< secret_server, llctrl::radio_enc_2m, callbacks_t, bluetoe::link_layer::buffer_sizes< 200, 200 >,
        table_security_manager > ll_t;
    static const char* name() { return "sec_table_2m_200"; }
    static constexpr bool phy2m = true;
#else
    typedef bluetoe::link_layer::link_layer< secret_server, llctrl::radio_enc_1m, callbacks_t, bluetoe::link_layer::buffer_sizes< 200, 200 >,
        bluetoe::legacy_security_manager, bluetoe::bonding_data_base< bond_db_t, g_bond_db > > ll_t;
    static const char* name() { return "sec_legacy_bond_1m_200"; }
    static constexpr bool phy2m = false;
#endif
    static constexpr llctrl::cpr_kind_t cpr = llctrl::cpr_default;
    static constexpr unsigned protected_handle = 3;

    static llctrl::recorder&        rec()  { return g_rec; }
    static llctrl::async_cpr_app*   app()  { return nullptr; }
    static void reply( ll_t&, bool, unsigned, unsigned, unsigned, unsigned ) {}
    static llctrl::key_table_t*     keys() { return &g_keys; }

    static llctrl::config_info info()
    {
        std::unique_ptr< ll_t > tmp( new ll_t );
        llctrl::config_info i;
        i.name = name(); i.phy2m = phy2m; i.security = true; i.cpr = cpr;
        i.d_imin = i.d_imax = i.d_lmin = i.d_lmax = i.d_tmin = i.d_tmax = 0;
        i.supported_features = tmp->supported_link_layer_features();
        i.version = tmp->supported_link_layer_version();
        i.company = tmp->link_layer_company_identifier();
        i.rx_buffer = 200;
        return i;
    }
};

}

int main( int argc, char** argv )
{
    // a few bonds for the modes that do not install their own
    for ( unsigned i = 0; i < 2; ++i )
    {
        llctrl::key_table_t::entry e;
        e.ediv = static_cast< std::uint16_t >( 0x1234 + i );
        e.rand = 0x0102030405060708ull * ( i + 1 );
        e.key.fill( static_cast< std::uint8_t >( 0x30 + i ) );
        g_keys.keys.push_back( e );
    }

    return llctrl::main_impl< llctrl::bed< cfg > >( argc, argv );
}
