// llctrl family: test bed (real link_layer<> + sim_radio + central model + callback recorder) and the
// workload drivers for C27 (control PDU responses, response timeout), C28 (encryption start), C29 (lifecycle).
// The translation unit that includes this file defines the configuration (see ctrl_harness.cpp).
#ifndef VERIF_LLCTRL_CTRL_COMMON_HPP
#define VERIF_LLCTRL_CTRL_COMMON_HPP

#include "llctrl/sim_radio.hpp"
#include "llctrl/central.hpp"
#include "llctrl/oracles.hpp"

#include <memory>
#include <map>

namespace llctrl {

// ------------------------------------------------------------------------------------------------
// recorder for bluetoe::link_layer::connection_callbacks<>
struct recorder
{
    life_checker*               life;
    std::function< bool () >    enc_probe;          // reads security_attributes().is_encrypted of the connection object
    std::function< void ( const char*, unsigned, bool ) > sink;
    unsigned long               calls;

    recorder() : life( nullptr ), calls( 0 ) {}

    template < class C >
    void note( life_checker::kind_t k, unsigned arg, C& c )
    {
        ++calls;
        const C* cp = &c;
        enc_probe = [cp]() { return cp->security_attributes().is_encrypted; };
        const bool enc = c.security_attributes().is_encrypted;
        if ( sink ) sink( life_checker::kind_name( k ), arg, enc );
        if ( life ) life->callback( k, arg );
    }

    template < typename ConnectionData >
    void ll_connection_requested( const bluetoe::link_layer::connection_details&, const bluetoe::link_layer::connection_addresses&, ConnectionData& c )
    { note( life_checker::requested, 0, c ); }

    template < typename ConnectionData >
    void ll_connection_attempt_timeout( ConnectionData& c ) { note( life_checker::attempt_timeout, 0, c ); }

    template < typename ConnectionData >
    void ll_connection_established( const bluetoe::link_layer::connection_details&, const bluetoe::link_layer::connection_addresses&, ConnectionData& c )
    { note( life_checker::established, 0, c ); }

    template < typename ConnectionData >
    void ll_connection_changed( const bluetoe::link_layer::connection_details&, ConnectionData& c ) { note( life_checker::changed, 0, c ); }

    template < typename ConnectionData >
    void ll_connection_closed( std::uint8_t reason, ConnectionData& c ) { note( life_checker::closed, reason, c ); }

    template < typename ConnectionData >
    void ll_version( std::uint8_t version, std::uint16_t, std::uint16_t, const ConnectionData& c ) { note( life_checker::version, version, c ); }

    template < typename ConnectionData >
    void ll_rejected( std::uint8_t error_code, const ConnectionData& c ) { note( life_checker::rejected, error_code, c ); }

    template < typename ConnectionData >
    void ll_unknown( std::uint8_t unknown_type, const ConnectionData& c ) { note( life_checker::unknown, unknown_type, c ); }

    template < typename ConnectionData >
    void ll_remote_features( std::uint8_t remote_features[ 8 ], const ConnectionData& c ) { note( life_checker::features, remote_features[ 0 ], c ); }

    template < typename ConnectionData >
    void ll_phy_updated( bluetoe::link_layer::phy_ll_encoding::phy_ll_encoding_t tx, bluetoe::link_layer::phy_ll_encoding::phy_ll_encoding_t rx, const ConnectionData& c )
    { note( life_checker::phy, static_cast< unsigned >( tx ) * 16 + static_cast< unsigned >( rx ), c ); }
};

// application side of asynchronous_connection_parameter_request<>
struct async_cpr_app
{
    std::function< void ( unsigned, unsigned, unsigned, unsigned ) > handler;

    void ll_remote_connection_parameter_request( std::uint16_t imin, std::uint16_t imax, std::uint16_t lat, std::uint16_t to )
    {
        if ( handler ) handler( imin, imax, lat, to );
    }
};

// key table under control of the harness (mock security manager and bond data base read it)
struct key_table_t
{
    struct entry { std::uint16_t ediv; std::uint64_t rand; std::array< std::uint8_t, 16 > key; };
    std::vector< entry > keys;
    unsigned long lookups, hits;

    key_table_t() : lookups( 0 ), hits( 0 ) {}

    std::pair< bool, bluetoe::details::uint128_t > find( std::uint16_t ediv, std::uint64_t rand )
    {
        ++lookups;
        for ( const auto& e : keys )
            if ( e.ediv == ediv && e.rand == rand )
            {
                ++hits;
                bluetoe::details::uint128_t k; std::copy( e.key.begin(), e.key.end(), k.begin() );
                return std::pair< bool, bluetoe::details::uint128_t >( true, k );
            }
        return std::pair< bool, bluetoe::details::uint128_t >( false, bluetoe::details::uint128_t() );
    }

    bool known( std::uint16_t ediv, std::uint64_t rand ) const
    {
        for ( const auto& e : keys ) if ( e.ediv == ediv && e.rand == rand ) return true;
        return false;
    }
};

// ------------------------------------------------------------------------------------------------
// Cfg provides: ll_t, info(), static recorder& rec(), static async_cpr_app* app(), static key_table_t* keys(),
//               reply(ll, positive, imin, imax, lat, to) for the async option, protected_handle (0 = none)
template < class Cfg >
struct bed : central_listener
{
    typedef typename Cfg::ll_t ll_t;

    static key_table_t* keys() { return Cfg::keys(); }
    static recorder&    rec()  { return Cfg::rec(); }
    static const char*  config_name() { return Cfg::name(); }
    static constexpr unsigned protected_handle = Cfg::protected_handle;

    std::unique_ptr< ll_t >     ll;
    central                     cen;
    verif::prng                 rng;
    unsigned long long          step;
    std::deque< std::string >   hist;
    config_info                 info;
    resp_oracle                 resp;
    life_checker                life;
    enc_model                   enc;
    std::string                 run_tag;

    // ground truth about the current connection
    conn_params                 params;
    std::uint64_t               t_connect;
    unsigned long               end_events_at_connect;
    unsigned                    event_pdus_this_event;      // event producing control PDUs accepted in the running connection event
    unsigned                    last_event_no;
    bool                        ended_this_run;
    bool                        version_event_counted = false;
    unsigned                    stall_events = 0;
    unsigned long               rx_no_buffer_seen = 0;
    bool                        stalled = false;
    bool                        enc_check_callbacks = false;
    bool                        remote_reason_22 = false;
    unsigned                    enc_req_event = 0;
    bool                        first_instant_heard = false;
    bool                        invalid_connect_ind = false;
    bool                        update_owed = false;
    std::uint16_t               update_instant = 0;
    bool                        instant_pending = false;    // set by the driver: a PDU with an instant is on its way or waiting

    // procedure response timeout bookkeeping (C27)
    struct proc_t { bool running; std::uint8_t opcode; std::uint64_t t_tx; std::string name; bool answered; std::string answer; } proc;

    // collected ATT responses (L2CAP CID 4)
    std::vector< bytes >        att_rx;

    std::function< void ( const tx_item& ) > accepted_hook;

    explicit bed( std::uint64_t seed )
        : rng( seed ), step( 0 ), info( Cfg::info() ), resp( info ), t_connect( 0 ), end_events_at_connect( 0 ), event_pdus_this_event( 0 ), last_event_no( 0 )
        , ended_this_run( false )
    {
        proc.running = false; proc.answered = false;
        cen.listener = this;
        auto ctx = [this]() { return witness(); };
        resp.context = ctx; life.context = ctx; enc.context = ctx;
        Cfg::rec().life = &life;
        Cfg::rec().sink = [this]( const char* n, unsigned a, bool e ) {
            char b[ 64 ]; std::snprintf( b, sizeof b, "CB:%s(%02x)%s", n, a, e ? "[enc]" : "" ); note( b );
            if ( n[ 0 ] == 'c' && n[ 1 ] == 'l' ) { last_closed_reason = a; last_closed_reason_valid = true; }
            // only where PDUs are processed one by one (enc mode); with bursts and pending instants the callback can be
            // older than the model
            if ( info.security && enc_check_callbacks ) enc.observed_encrypted( e, "connection callback" );
        };
        // application side of asynchronous_connection_parameter_request<>: answers at once or a few events later,
        // positive (within the requested ranges) or negative
        if ( Cfg::app() )
            Cfg::app()->handler = [this]( unsigned imin, unsigned imax, unsigned lat, unsigned to ) {
                note( "APP:remote_connection_parameter_request" );
                resp.application_called();
                app_pending = true; app_imin = imin; app_imax = imax; app_lat = lat; app_to = to;
                app_delay = rng.below( 3 );
                verif::mon( "C27" ).cls( "async_app_called" );
            };

        fresh();
    }

    bool     app_pending = false;
    unsigned app_imin = 0, app_imax = 0, app_lat = 0, app_to = 0, app_delay = 0;

    void application_turn()
    {
        if ( !app_pending || !connected() )
            return;

        if ( app_delay ) { --app_delay; return; }

        app_pending = false;
        const bool positive = rng.below( 3 ) != 0;
        Cfg::reply( *ll, positive, app_imin, app_imax, app_lat, app_to );
        resp.application_answered( positive );
        note( positive ? "APP:reply" : "APP:negative_reply" );
    }

    ~bed() { Cfg::rec().life = nullptr; Cfg::rec().sink = nullptr; Cfg::rec().enc_probe = nullptr; }

    void note( const std::string& s )
    {
        static const bool trace = std::getenv( "LLCTRL_TRACE" ) != nullptr;
        if ( trace ) std::fprintf( stderr, "%llu %s\n", step, s.c_str() );
        hist.push_back( s );
        if ( hist.size() > 40 ) hist.pop_front();
    }

    std::string witness() const
    {
        std::string r = "config=" + info.name + " run=" + run_tag;
        char b[ 200 ];
        std::snprintf( b, sizeof b, " conn#%u interval=%u latency=%u timeout=%u t=%lluus event=%u history: ", cen.conn_no, params.interval, params.latency,
            params.timeout, static_cast< unsigned long long >( ll ? ll->now_us : 0 ), cen.event_no );
        r += b;
        for ( const auto& h : hist ) { r += h; r += " "; }
        if ( ll ) r += "| radio: " + ll->dump_log( 14 );
        return r;
    }

    // a new link layer object (power cycle)
    void fresh()
    {
        if ( life.conn_truth )
        {
            // object destroyed in the middle of a connection: nothing can be demanded for it
            life.conn_truth = false; life.st = life_checker::st_none; life.want_requested = false; life.want_established = false;
        }
        Cfg::rec().enc_probe = nullptr;
        app_pending = false;
        ll.reset( new ll_t );
        ll->peer = &cen;
        cen.in_connection = false;
        cen.answer_advertising = false;
        cen.drop_queue();
        resp.reset_connection();
        enc.reset( "never_started" );
        proc.running = false;
        stalled = false; stall_events = 0; rx_no_buffer_seen = 0;
        verif::mon( "C27" ).count( "link_layer_objects" );
    }

    // one call into the code under test
    void run_once()
    {
        ++step;
        resp.step = life.step = enc.step = step;
        verif::ctx_step( step );
        ended_this_run = false;

        application_turn();

        const unsigned long ee = ll->end_events;
        ll->run();

        {
            static const bool trace = std::getenv( "LLCTRL_TRACE" ) != nullptr;
            if ( trace )
                std::fprintf( stderr, "    after run: next_received.size=%u pending_out=%d counter=%u\n", static_cast< unsigned >( ll->next_received().size ),
                    static_cast< int >( ll->pending_outgoing_data_available() ), static_cast< unsigned >( ll->connection_event_counter() ) );
        }

        if ( ll->end_events != ee )
            life.truth_first_event();

        // the connection update was applied when the event counter of the next event reached the instant
        if ( update_owed && cen.in_connection && static_cast< std::int16_t >( static_cast< std::uint16_t >( ll->connection_event_counter() - update_instant ) ) >= 0 )
        {
            update_owed = false;
            life.changes_now_due( "connection_update", cen.event_no == last_event_no ? event_pdus_this_event : 0 );
        }

        // receive ring can not take a PDU although the link layer had its turn, and nothing is transmitted
        if ( cen.in_connection && ll->rx_no_buffer != rx_no_buffer_seen && ll->next_received().size != 0 )
            ++stall_events;
        else
            stall_events = 0;
        rx_no_buffer_seen = ll->rx_no_buffer;

        if ( stall_events == 12 && !stalled )
        {
            stalled = true;
            verif::violation( "C27", "C27:stall:receive_ring_never_drained",
                "for 12 connection events the radio could not get a receive buffer while the link layer leaves received control PDUs unprocessed "
                "(no transmit buffer for the answer, and acknowledgements are not processed without receive buffer): accepted control PDUs are never answered | " + witness(), step );
        }

        const bool back = cen.in_connection && ll->is_advertising_scheduled();

        if ( back && proc.running && !proc.answered )
            life.allow_reason( 0x22, "response_timeout" );

        if ( back )
        {
            note( "LL:back_to_advertising" );
            ended_this_run = true;
            life.burst_before_end = event_pdus_this_event;
        }

        life.after_run( back );

        if ( back )
        {
            cen.in_connection = false;
            check_timeout_at_close();
            resp.reset_connection();
            enc.reconnect();
            proc.running = false;
            app_pending = false;
        }
    }

    bool connected() const { return cen.in_connection; }

    // LLData of a CONNECT_IND inside the ranges of Core Vol 6 Part B 2.3.3.1 / 4.5.2
    static bool valid_by_spec( const conn_params& p )
    {
        return p.interval >= 6 && p.interval <= 3200
            && p.win_size >= 1 && p.win_size <= std::min< unsigned >( 8, p.interval - 1 )
            && p.win_offset <= p.interval
            && p.latency <= 499
            && p.timeout >= 10 && p.timeout <= 3200
            && p.timeout * 8u > ( 1u + p.latency ) * p.interval * 2u;   // timeout * 10 ms > ( 1 + latency ) * interval * 1.25 ms * 2
    }

    // ---- central_listener
    void on_connect_ind( unsigned, std::uint64_t t ) override
    {
        t_connect = t;

        if ( !valid_by_spec( cen.next_connection ) )
        {
            // must not connect: no callback is expected; one that comes anyway is reported by the lifecycle checker
            note( "C>CONNECT_IND(invalid)" );
            invalid_connect_ind = true;
            life.mon.cls( "invalid_connect_ind" );
            return;
        }

        invalid_connect_ind = false;
        note( "C>CONNECT_IND" );
        life.truth_connect_ind();
        resp.reset_connection();
        event_pdus_this_event = 0;
        version_event_counted = false;
        update_owed = false;
        first_instant_heard = false;
        instant_pending = false;
        remote_reason_22 = false;
        last_closed_reason_valid = false;
        att_rx.clear();
    }

    // ground truth for the lifecycle checker: what reached the link layer, whether or not the central learns it
    void on_heard( const tx_item& it, unsigned event ) override
    {
        if ( event != last_event_no ) { last_event_no = event; event_pdus_this_event = 0; }

        if ( it.llid != 3 || it.payload.empty() )
            return;

        const bytes& p = it.payload;
        const unsigned kl = known_length( p[ 0 ] );

        // anything that reaches the link layer while a PDU with an instant waits can overwrite that PDU (the link layer
        // keeps a pointer into the freed receive buffer: C21); what happens to such a connection is marked in the keys
        if ( instant_pending )
        {
            const bool has_instant = kl == p.size() && ( p[ 0 ] == LL_CONNECTION_UPDATE_IND || p[ 0 ] == LL_CHANNEL_MAP_IND || ( p[ 0 ] == LL_PHY_UPDATE_IND && info.phy2m ) );

            if ( first_instant_heard )
                life.pending_instant_traffic = true;
            else if ( has_instant )
                first_instant_heard = true;
        }

        // the encryption automaton follows what reached the link layer
        if ( info.security && keys() )
        {
            if ( instant_pending && kl == p.size() && ( p[ 0 ] == LL_ENC_REQ || p[ 0 ] == LL_START_ENC_RSP || p[ 0 ] == LL_PAUSE_ENC_REQ || p[ 0 ] == LL_PAUSE_ENC_RSP ) )
                enc.tainted = true;

            const bool legit_before = enc.legit;

            if ( p[ 0 ] == LL_ENC_REQ && p.size() == 23 )
            {
                std::uint64_t rand = 0; for ( unsigned i = 0; i < 8; ++i ) rand |= static_cast< std::uint64_t >( p[ 1 + i ] ) << ( 8 * i );
                enc.enc_req( keys()->known( static_cast< std::uint16_t >( rd16( p, 9 ) ), rand ) );
                enc_req_event = event;
            }
            else if ( p[ 0 ] == LL_START_ENC_RSP && p.size() == 1 ) enc.start_enc_rsp( event == enc_req_event );
            else if ( p[ 0 ] == LL_PAUSE_ENC_REQ && p.size() == 1 ) enc.pause_enc_req();
            else if ( p[ 0 ] == LL_PAUSE_ENC_RSP && p.size() == 1 ) enc.pause_enc_rsp();

            // ground truth for ll_connection_changed: the encryption state of the link really changes
            if ( enc.tainted )
                life.changes_unreliable = true;
            else if ( enc.legit != legit_before )
                life.truth_change( enc.legit ? "encryption_on" : "encryption_off", event_pdus_this_event, true );
        }

        // ... and the connection parameters change at the instant of a connection update
        if ( p[ 0 ] == LL_CONNECTION_UPDATE_IND && p.size() == 12 )
        {
            const std::uint16_t instant = static_cast< std::uint16_t >( rd16( p, 10 ) );
            if ( static_cast< std::int16_t >( static_cast< std::uint16_t >( instant - ll->connection_event_counter() ) ) > 0 && !update_owed )
            {
                update_owed = true; update_instant = instant;
                life.truth_change( "connection_update", 0, false );
            }
            else
                life.changes_unreliable = true;     // passed instant / second update before the first one's instant
        }

        if ( p[ 0 ] == LL_TERMINATE_IND && p.size() == 2 )
        {
            life.allow_reason( p[ 1 ], "remote_terminate" );
            if ( p[ 1 ] == 0x22 ) remote_reason_22 = true;
        }

        // PDUs that make the link layer push an entry into the connection event queue
        if ( kl == p.size() && ( p[ 0 ] == LL_FEATURE_REQ || p[ 0 ] == LL_REJECT_IND || p[ 0 ] == LL_REJECT_EXT_IND || p[ 0 ] == LL_UNKNOWN_RSP
            || ( p[ 0 ] == LL_VERSION_IND && !version_event_counted ) || ( p[ 0 ] == LL_PHY_UPDATE_IND && info.phy2m && p[ 1 ] == 0 && p[ 2 ] == 0 ) ) )
        {
            ++event_pdus_this_event;
            if ( p[ 0 ] == LL_VERSION_IND ) version_event_counted = true;
        }
    }

    // a PDU with an instant waits in the link layer and something (even the retransmission of that very PDU) is written
    // into the receive buffer: the waiting PDU can be overwritten (C21), mark what happens to this connection
    void on_stored( const tx_item& it ) override
    {
        if ( instant_pending && first_instant_heard && !it.payload.empty() )
            life.pending_instant_traffic = true;
    }

    void on_accepted( const tx_item& it, unsigned, std::uint64_t t ) override
    {

        if ( it.llid == 3 )
        {
            note( "C>" + verif::hex( it.payload ) );
            resp.input( it.payload );
            track_procedure_answer( it.payload, t );

        }
        else
        {
            note( "C>data:" + verif::hex( it.payload ) );
        }

        if ( accepted_hook ) accepted_hook( it );
    }

    void on_peripheral_pdu( const pdu_record& r ) override
    {
        if ( r.llid == 3 )
        {
            note( "P>" + verif::hex( r.payload ) + ( r.tx_encrypted ? "[e]" : "" ) );
            resp.output( r.payload );
            if ( info.security ) enc.peripheral_pdu( r.payload );

            if ( !r.payload.empty() )
            {
                const std::uint8_t op = r.payload[ 0 ];
                if ( op == LL_CONNECTION_PARAM_REQ || op == LL_PHY_REQ || ( op == LL_VERSION_IND && !resp.central_version_seen ) )
                {
                    proc.running = true; proc.opcode = op; proc.t_tx = r.t; proc.answered = false; proc.answer = "";
                    proc.name = op == LL_CONNECTION_PARAM_REQ ? "conn_param_req" : op == LL_PHY_REQ ? "phy_req" : "version_ind";
                }
            }
        }
        else
        {
            note( "P>data:" + verif::hex( r.payload ) );
            if ( r.llid == 2 && r.payload.size() >= 4 && r.payload[ 2 ] == 0x04 && r.payload[ 3 ] == 0x00 )
                att_rx.push_back( bytes( r.payload.begin() + 4, r.payload.end() ) );
        }
    }

    // ---- procedure response timeout (Vol 6 Part B 5.2)
    void track_procedure_answer( const bytes& p, std::uint64_t )
    {
        if ( !proc.running || proc.answered || p.empty() )
            return;

        const std::uint8_t op = p[ 0 ];
        bool ends = false;

        if ( proc.opcode == LL_CONNECTION_PARAM_REQ )
            ends = ( op == LL_CONNECTION_UPDATE_IND && p.size() == 12 )
                || ( op == LL_REJECT_EXT_IND && p.size() == 3 && p[ 1 ] == LL_CONNECTION_PARAM_REQ )
                || ( op == LL_REJECT_IND && p.size() == 2 )
                || ( op == LL_UNKNOWN_RSP && p.size() == 2 && p[ 1 ] == LL_CONNECTION_PARAM_REQ );
        else if ( proc.opcode == LL_VERSION_IND )
            ends = op == LL_VERSION_IND && p.size() == 6;
        else if ( proc.opcode == LL_PHY_REQ )
            ends = ( op == LL_PHY_UPDATE_IND && p.size() == 5 )
                || ( op == LL_REJECT_EXT_IND && p.size() == 3 && p[ 1 ] == LL_PHY_REQ )
                || ( op == LL_REJECT_IND && p.size() == 2 )
                || ( op == LL_UNKNOWN_RSP && p.size() == 2 && p[ 1 ] == LL_PHY_REQ );

        if ( ends )
        {
            proc.answered = true;
            char b[ 8 ]; std::snprintf( b, sizeof b, "%02x", op );
            proc.answer = b;
        }
    }

    // strictness of the timeout oracle is decided by the scenario (timeout mode sets these)
    bool            timeout_scenario = false;

    void local_disconnect( bool custom, std::uint8_t reason )
    {
        if ( custom ) ll->disconnect( reason ); else ll->disconnect();
        const unsigned r = custom ? reason : 0x16;
        resp.local_disconnect = true;
        resp.expect_initiated( LL_TERMINATE_IND, "local_terminate" );
        life.allow_reason( r, "local_disconnect" );
        // T_terminate: the LL_TERMINATE_IND is never acknowledged -> LL Response Timeout (LL/CON/PER/BI-02-C)
        life.allow_reason( 0x22, "local_disconnect" );
        char b[ 40 ]; std::snprintf( b, sizeof b, "API:disconnect(%02x)", r ); note( b );
    }

    void check_timeout_at_close()
    {
        // after disconnect() the link layer is free to give up at any time
        if ( resp.local_disconnect || remote_reason_22 ) { last_closed_reason_valid = false; remote_reason_22 = false; return; }

        verif::monitor& m = verif::mon( "C27" );

        const bool closed_22 = last_closed_reason_valid && last_closed_reason == 0x22;
        const std::uint64_t now = ll->now_us;
        const std::uint64_t interval_us = static_cast< std::uint64_t >( current_interval ) * 1250u;

        if ( closed_22 )
        {
            m.eval();
            if ( !proc.running )
                verif::violation( "C27", "C27:timeout:close_without_procedure", "connection closed with LL Response Timeout (0x22) but the peripheral had no procedure of its own running | " + witness(), step );
            else if ( proc.answered )
                verif::violation( "C27", "C27:timeout:closed_although_answered:" + proc.name + ( life.pending_instant_traffic ? ":pending_instant_traffic" : "" ), "connection closed with 0x22 although the " + proc.name + " procedure was answered by opcode " + proc.answer + " | " + witness(), step );
            else
            {
                const std::uint64_t dt = now - proc.t_tx;
                char b[ 160 ];
                std::snprintf( b, sizeof b, "closed %llu us after the %s PDU was transmitted (interval %llu us)", static_cast< unsigned long long >( dt ), proc.name.c_str(), static_cast< unsigned long long >( interval_us ) );
                // the event that closes the link ends a little after its anchor: 2 ms of slack for the PDUs exchanged in it
                if ( dt + interval_us + 2000 < 40000000ull )
                    verif::violation( "C27", "C27:timeout:early_close:" + proc.name, std::string( b ) + " | " + witness(), step );
                else if ( dt > 40000000ull + interval_us + 2000 + silent_slack_us )
                    verif::violation( "C27", "C27:timeout:late_close:" + proc.name, std::string( b ) + " | " + witness(), step );
                else
                {
                    m.cls( "timeout_close:" + proc.name );
                    m.nontrivial( verif::mix( verif::mix( verif::hstr( "timeout_close" + proc.name ), current_interval ), dt / 100000 ) );
                }
            }
        }

        last_closed_reason_valid = false;
    }

    bool            last_closed_reason_valid = false;
    unsigned        last_closed_reason = 0;
    unsigned        current_interval = 24;          // 1.25 ms units, follows connection updates done by the harness
    std::uint64_t   silent_slack_us = 0;

    // ---- helpers for the drivers
    bool connect( const conn_params& p )
    {
        params = p;
        current_interval = p.interval;
        cen.next_connection = p;
        cen.answer_advertising = true;

        for ( unsigned i = 0; i < 12 && !cen.in_connection; ++i )
            run_once();

        // an invalid connect request is refused: the link layer goes on advertising
        if ( invalid_connect_ind && cen.in_connection && ll->is_advertising_scheduled() )
        {
            invalid_connect_ind = false;
            cen.in_connection = false;
            return false;
        }

        return cen.in_connection && ll->is_connection_event_scheduled();
    }

    // run connection events until nothing is pending anywhere; returns false if the connection ended
    bool settle( unsigned max_events = 60 )
    {
        unsigned quiet = 0;

        for ( unsigned i = 0; i < max_events && connected() && !stalled; ++i )
        {
            cen.plan.burst = 8;
            run_once();

            if ( !connected() )
                break;

            if ( !app_pending && cen.idle() && cen.last_event_clean && cen.peripheral_last_empty && ll->next_received().size == 0 && !ll->pending_outgoing_data_available() )
                ++quiet;
            else
                quiet = 0;

            if ( quiet >= 2 )
            {
                resp.quiescent();
                if ( info.security ) enc.quiescent();

                // what the link layer reports as encryption state has to be what the model expects, otherwise (C28) no
                // statement about changes is possible
                if ( info.security && Cfg::rec().enc_probe && Cfg::rec().enc_probe() != enc.legit )
                    life.changes_unreliable = true;
                life.changes_settled();
                return true;
            }
        }

        if ( stalled )
        {
            // nothing more can be learned from this connection
            fresh();
            return false;
        }

        if ( connected() )
            verif::mon( "C27" ).count( "settle_gave_up" );

        return connected();
    }

    void run_events( unsigned n )
    {
        for ( unsigned i = 0; i < n && connected(); ++i )
            run_once();
    }

    conn_params random_params( unsigned max_interval = 80 )
    {
        static const std::uint16_t intervals[] = { 6, 8, 12, 24, 40, 80, 160, 400, 800 };
        conn_params p;
        do { p.interval = intervals[ rng.below( 9 ) ]; } while ( p.interval > max_interval );
        p.latency    = 0;
        // transmitWindowSize: 1.25 ms .. min( 10 ms, connInterval - 1.25 ms )   (Vol 6 Part B 2.3.3.1)
        p.win_size   = static_cast< std::uint8_t >( 1 + rng.below( std::min< unsigned >( 8, p.interval - 1 ) ) );
        p.win_offset = static_cast< std::uint16_t >( rng.below( p.interval + 1 ) );
        // timeout (10 ms) > 2 * interval (1.25 ms), 100 ms .. 32 s
        const unsigned min_to = std::max< unsigned >( 10, p.interval / 4 + 2 );
        p.timeout    = static_cast< std::uint16_t >( std::min< unsigned >( 3200, min_to + rng.below( 300 ) ) );
        p.access_address = 0x8e89be00u ^ static_cast< std::uint32_t >( rng.next() );
        p.crc_init   = static_cast< std::uint32_t >( rng.next() ) & 0xffffff;
        p.hop_sca    = static_cast< std::uint8_t >( ( 5 + rng.below( 12 ) ) | ( rng.below( 8 ) << 5 ) );
        return p;
    }
};

}

#endif
