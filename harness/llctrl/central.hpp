// llctrl family: model of the central on the other side of sim_radio.
//
// * answers advertising with a CONNECT_IND built from the AdvA found in the advertising PDU,
// * keeps its own SN/NESN state (Core Vol 6 Part B 4.5.9): a PDU is resent with the same SN until the
//   peripheral's NESN acknowledges it, new data of the peripheral is recognised by SN == own NESN,
// * can send several PDUs in one connection event (MD), lose single PDUs in either direction, stay silent,
// * records every new non-empty PDU of the peripheral and tells a listener when one of its own PDUs was
//   acknowledged (= accepted by the peripheral's link layer).
#ifndef VERIF_LLCTRL_CENTRAL_HPP
#define VERIF_LLCTRL_CENTRAL_HPP

#include "llctrl/sim_radio.hpp"

#include <deque>
#include <set>

namespace llctrl {

struct tx_item
{
    std::uint8_t    llid;       // 1 = empty / continuation, 2 = start of L2CAP, 3 = control
    bytes           payload;
    unsigned        id;         // 0: filler (empty PDU)
    int             tag;        // free for the harness (symbol, class)
};

struct pdu_record
{
    unsigned        conn;
    unsigned        event;
    std::uint64_t   t;
    std::uint8_t    llid;
    bytes           payload;
    bool            tx_encrypted;
};

struct central_listener
{
    virtual ~central_listener() {}
    virtual void on_accepted( const tx_item&, unsigned /* event */, std::uint64_t /* t */ ) {}
    // ground truth the central itself can not know: the PDU reached the peripheral's link layer buffer
    virtual void on_heard( const tx_item&, unsigned /* event */ ) {}
    // every PDU (also a retransmission) that was written into the link layer's receive buffer
    virtual void on_stored( const tx_item& ) {}
    virtual void on_peripheral_pdu( const pdu_record& ) {}
    virtual void on_connect_ind( unsigned /* conn */, std::uint64_t /* t */ ) {}
    virtual void on_back_to_advertising( unsigned /* conn */, std::uint64_t /* t */ ) {}
};

struct conn_params
{
    std::uint32_t   access_address;
    std::uint32_t   crc_init;
    std::uint8_t    win_size;       // 1.25 ms
    std::uint16_t   win_offset;     // 1.25 ms
    std::uint16_t   interval;       // 1.25 ms
    std::uint16_t   latency;
    std::uint16_t   timeout;        // 10 ms
    std::uint8_t    channel_map[ 5 ];
    std::uint8_t    hop_sca;

    conn_params()
        : access_address( 0xaf9ab35a ), crc_init( 0xf68108 ), win_size( 2 ), win_offset( 0 ), interval( 24 ), latency( 0 )
        , timeout( 100 ), hop_sca( 0xaa )
    {
        channel_map[ 0 ] = channel_map[ 1 ] = channel_map[ 2 ] = channel_map[ 3 ] = 0xff; channel_map[ 4 ] = 0x1f;
    }
};

struct event_plan
{
    bool                silent;         // central does not transmit in this event
    unsigned            burst;          // how many queued PDUs may be started in this event
    unsigned            max_exchanges;
    std::set< unsigned > lose_c2p;      // exchange numbers whose central PDU is lost
    std::set< unsigned > lose_p2c;      // exchange numbers whose peripheral PDU is lost

    event_plan() : silent( false ), burst( 1 ), max_exchanges( 12 ) {}
};

class central : public peer_iface
{
public:
    central()
        : listener( nullptr ), answer_advertising( false ), in_connection( false ), conn_no( 0 ), event_no( 0 ), adv_seen( 0 )
        , sn_( false ), nesn_( false ), have_inflight_( false ), next_id_( 1 )
        , exchange_( 0 ), started_( 0 ), peripheral_md_( false ), response_heard_( true )
        , last_event_clean( false ), peripheral_last_empty( false )
    {
        static const std::uint8_t a[ 6 ] = { 0x3c, 0x1c, 0x62, 0x92, 0xf0, 0x48 };
        std::copy( a, a + 6, address );
    }

    central_listener*   listener;
    conn_params         next_connection;
    bool                answer_advertising;
    event_plan          plan;               // consumed by the next connection event
    std::uint8_t        address[ 6 ];       // InitA (random)

    bool                in_connection;      // CONNECT_IND sent and the peripheral did not return to advertising
    unsigned            conn_no;
    unsigned            event_no;           // connection events (incl. silent ones) since the CONNECT_IND
    unsigned long       adv_seen;
    bytes               last_adv_pdu;

    // true if in the last connection event nothing was lost and the central was present
    bool                last_event_clean;
    // the last PDU heard from the peripheral was empty and had MD = 0
    bool                peripheral_last_empty;

    std::vector< pdu_record > received;     // new non-empty PDUs of the peripheral (bounded by the harness)

    // ---- harness side
    unsigned queue( std::uint8_t llid, const bytes& payload, int tag = 0 )
    {
        const tx_item it = { llid, payload, next_id_++, tag };
        txq_.push_back( it );
        return it.id;
    }

    unsigned queue_control( const bytes& payload, int tag = 0 ) { return queue( 3, payload, tag ); }

    // ATT PDU in one L2CAP frame on CID 4
    unsigned queue_att( const bytes& att, int tag = 0 )
    {
        bytes p;
        p.push_back( static_cast< std::uint8_t >( att.size() ) ); p.push_back( 0 );
        p.push_back( 0x04 ); p.push_back( 0x00 );
        p.insert( p.end(), att.begin(), att.end() );
        return queue( 2, p, tag );
    }

    bool peer_terminated() const { return peer_terminated_; }

    bool idle() const { return txq_.empty() && !( have_inflight_ && inflight_.id != 0 ); }
    std::size_t pending() const { return txq_.size() + ( have_inflight_ && inflight_.id != 0 ? 1 : 0 ); }

    void drop_queue() { txq_.clear(); }

    // ---- peer_iface
    bool on_advertising( unsigned /* channel */, const bytes& adv_pdu, std::uint64_t now_us, bytes& connect_ind ) override
    {
        ++adv_seen;
        last_adv_pdu = adv_pdu;

        if ( in_connection )
        {
            in_connection = false;
            if ( listener ) listener->on_back_to_advertising( conn_no, now_us );
        }

        if ( !answer_advertising || adv_pdu.size() < 8 || ( adv_pdu[ 0 ] & 0x0f ) != 0 )
            return false;

        answer_advertising = false;

        const conn_params& p = next_connection;
        connect_ind.clear();
        // CONNECT_IND, TxAdd = 1 (InitA random), RxAdd = TxAdd of the advertiser
        connect_ind.push_back( static_cast< std::uint8_t >( 0x05 | 0x40 | ( ( adv_pdu[ 0 ] & 0x40 ) ? 0x80 : 0 ) ) );
        connect_ind.push_back( 34 );
        connect_ind.insert( connect_ind.end(), address, address + 6 );
        connect_ind.insert( connect_ind.end(), adv_pdu.begin() + 2, adv_pdu.begin() + 8 );
        push32( connect_ind, p.access_address );
        connect_ind.push_back( static_cast< std::uint8_t >( p.crc_init ) );
        connect_ind.push_back( static_cast< std::uint8_t >( p.crc_init >> 8 ) );
        connect_ind.push_back( static_cast< std::uint8_t >( p.crc_init >> 16 ) );
        connect_ind.push_back( p.win_size );
        push16( connect_ind, p.win_offset );
        push16( connect_ind, p.interval );
        push16( connect_ind, p.latency );
        push16( connect_ind, p.timeout );
        connect_ind.insert( connect_ind.end(), p.channel_map, p.channel_map + 5 );
        connect_ind.push_back( p.hop_sca );

        in_connection   = true;
        ++conn_no;
        event_no        = 0;
        sn_ = nesn_     = false;
        have_inflight_  = false;
        txq_.clear();
        last_event_clean = false;
        peripheral_last_empty = false;
        peer_terminated_ = terminate_acked_ = false;

        if ( listener ) listener->on_connect_ind( conn_no, now_us );

        return true;
    }

    bool on_event_begin( unsigned /* channel */, std::uint64_t /* nominal_us */ ) override
    {
        ++event_no;
        exchange_        = 0;
        started_         = 0;
        peripheral_md_   = false;
        response_heard_  = true;
        lost_something_  = false;

        if ( peer_terminated_ && terminate_acked_ )
            return false;

        return !plan.silent;
    }

    bool central_transmit( bytes& pdu, bool& lost ) override
    {
        if ( exchange_ >= plan.max_exchanges )
            return false;

        // the peripheral sent LL_TERMINATE_IND: acknowledge it once, then leave the connection
        bool ack_terminate = false;
        if ( peer_terminated_ )
        {
            if ( terminate_acked_ )
                return false;
            terminate_acked_ = true;
            ack_terminate    = true;
            txq_.clear();
        }

        if ( exchange_ > 0 && !ack_terminate )
        {
            if ( !response_heard_ )
                return false;

            const bool more_own = have_inflight_ || ( !txq_.empty() && started_ < plan.burst );

            if ( !more_own && !peripheral_md_ )
                return false;
        }

        if ( !have_inflight_ )
        {
            if ( !txq_.empty() && started_ < plan.burst )
            {
                inflight_ = txq_.front();
                txq_.pop_front();
                ++started_;
            }
            else
            {
                inflight_ = tx_item{ 1, bytes(), 0, 0 };
            }

            have_inflight_ = true;
        }

        const bool md = !txq_.empty() && started_ < plan.burst;

        pdu.clear();
        pdu.push_back( static_cast< std::uint8_t >( inflight_.llid | ( nesn_ ? 0x04 : 0 ) | ( sn_ ? 0x08 : 0 ) | ( md ? 0x10 : 0 ) ) );
        pdu.push_back( static_cast< std::uint8_t >( inflight_.payload.size() ) );
        pdu.insert( pdu.end(), inflight_.payload.begin(), inflight_.payload.end() );

        lost = plan.lose_c2p.count( exchange_ ) != 0;

        if ( lost )
        {
            response_heard_ = false;
            lost_something_ = true;
        }

        return true;
    }

    void central_receive( const bytes& p, bool tx_encrypted, std::uint64_t now_us ) override
    {
        const unsigned ex = exchange_++;

        if ( plan.lose_p2c.count( ex ) || p.size() < 2 )
        {
            response_heard_ = false;
            lost_something_ = true;
            return;
        }

        response_heard_ = true;

        const bool p_nesn = ( p[ 0 ] & 0x04 ) != 0;
        const bool p_sn   = ( p[ 0 ] & 0x08 ) != 0;
        peripheral_md_    = ( p[ 0 ] & 0x10 ) != 0;

        if ( have_inflight_ && p_nesn != sn_ )
        {
            sn_ = !sn_;
            have_inflight_ = false;

            if ( inflight_.id != 0 && listener )
                listener->on_accepted( inflight_, event_no, now_us );
        }

        if ( p_sn == nesn_ )
        {
            nesn_ = !nesn_;

            if ( p[ 1 ] != 0 )
            {
                pdu_record r = { conn_no, event_no, now_us, static_cast< std::uint8_t >( p[ 0 ] & 3 ), bytes( p.begin() + 2, p.end() ), tx_encrypted };

                if ( received.size() < 4096 )
                    received.push_back( r );

                if ( r.llid == 3 && r.payload[ 0 ] == 0x02 )
                    peer_terminated_ = true;

                if ( listener ) listener->on_peripheral_pdu( r );
            }

            peripheral_last_empty = p[ 1 ] == 0 && !peripheral_md_;
        }
    }

    void peripheral_heard( bool stored ) override
    {
        if ( stored && have_inflight_ && listener )
            listener->on_stored( inflight_ );

        if ( stored && have_inflight_ && inflight_.id != 0 && inflight_.id != last_heard_id_ )
        {
            last_heard_id_ = inflight_.id;
            if ( listener ) listener->on_heard( inflight_, event_no );
        }
    }

    void on_event_end( bool timeout ) override
    {
        last_event_clean = !timeout && !lost_something_ && !plan.silent;
        plan = event_plan();
    }

private:
    static void push16( bytes& b, std::uint16_t v ) { b.push_back( static_cast< std::uint8_t >( v ) ); b.push_back( static_cast< std::uint8_t >( v >> 8 ) ); }
    static void push32( bytes& b, std::uint32_t v ) { push16( b, static_cast< std::uint16_t >( v ) ); push16( b, static_cast< std::uint16_t >( v >> 16 ) ); }

    bool                    sn_, nesn_;
    bool                    have_inflight_;
    tx_item                 inflight_;
    std::deque< tx_item >   txq_;
    unsigned                next_id_;
    unsigned                last_heard_id_ = 0;
    bool                    peer_terminated_ = false, terminate_acked_ = false;

    unsigned                exchange_, started_;
    bool                    peripheral_md_, response_heard_, lost_something_;
};

}

#endif
