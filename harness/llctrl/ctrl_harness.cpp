// llctrl family, configurations without security manager (C27, C29).  One link_layer<> instantiation per
// translation unit: the configuration is selected with -DLLCTRL_CFG=<n>.
//   0  default options, 1 MBit radio, default buffers (61/61)
//   1  2 MBit radio, large buffers (255/255)
//   2  desired_connection_parameters<>, 1 MBit radio, buffers 120/120
//   3  asynchronous_connection_parameter_request<>, 2 MBit radio, l2cap signaling channel, buffers 200/200
#include <bluetoe/link_layer.hpp>
#include <bluetoe/server.hpp>
#include <bluetoe/l2cap_signaling_channel.hpp>

#include "llctrl/ctrl_drivers.hpp"

#ifndef LLCTRL_CFG
#define LLCTRL_CFG 0
#endif

namespace {

std::uint8_t plain_value = 0x42;

typedef bluetoe::server<
    bluetoe::service<
        bluetoe::service_uuid< 0x8C8B4094, 0x0DE2, 0x499F, 0xA28A, 0x4EED5BC73CA9 >,
        bluetoe::characteristic<
            bluetoe::characteristic_uuid< 0x8C8B4094, 0x0DE2, 0x499F, 0xA28A, 0x4EED5BC73CAA >,
            bluetoe::bind_characteristic_value< std::uint8_t, &plain_value >
        >
    >,
    bluetoe::no_gap_service_for_gatt_servers
> plain_server;

llctrl::recorder        g_rec;
llctrl::async_cpr_app   g_app;

typedef bluetoe::link_layer::connection_callbacks< llctrl::recorder, g_rec > callbacks_t;

struct cfg
{
#if LLCTRL_CFG == 0
    typedef bluetoe::link_layer::link_layer< plain_server, llctrl::radio_1m, callbacks_t > ll_t;
    static const char* name() { return "default_1m_61"; }
    static constexpr unsigned rx_buffer = 61;
    static constexpr bool phy2m = false;
    static constexpr llctrl::cpr_kind_t cpr = llctrl::cpr_default;
#elif LLCTRL_CFG == 1
    typedef bluetoe::link_layer::link_layer< plain_server, llctrl::radio_2m, callbacks_t, bluetoe::link_layer::buffer_sizes< 255, 255 > > ll_t;
    static const char* name() { return "2m_255"; }
    static constexpr unsigned rx_buffer = 255;
    static constexpr bool phy2m = true;
    static constexpr llctrl::cpr_kind_t cpr = llctrl::cpr_default;
#elif LLCTRL_CFG == 2
    typedef bluetoe::link_layer::link_layer< plain_server, llctrl::radio_1m, callbacks_t, bluetoe::link_layer::buffer_sizes< 120, 120 >,
        bluetoe::link_layer::desired_connection_parameters< 20, 40, 0, 2, 100, 300 > > ll_t;
    static const char* name() { return "desired_1m_120"; }
    static constexpr unsigned rx_buffer = 120;
    static constexpr bool phy2m = false;
    static constexpr llctrl::cpr_kind_t cpr = llctrl::cpr_desired;
#else
    typedef bluetoe::link_layer::link_layer< plain_server, llctrl::radio_2m, callbacks_t, bluetoe::link_layer::buffer_sizes< 200, 200 >,
        bluetoe::l2cap::signaling_channel<>,
        bluetoe::link_layer::asynchronous_connection_parameter_request< llctrl::async_cpr_app, g_app > > ll_t;
    static const char* name() { return "async_2m_200"; }
    static constexpr unsigned rx_buffer = 200;
    static constexpr bool phy2m = true;
    static constexpr llctrl::cpr_kind_t cpr = llctrl::cpr_async;
#endif

    static constexpr unsigned protected_handle = 0;

    static void reply( ll_t& ll, bool positive, unsigned imin, unsigned imax, unsigned lat, unsigned to )
    {
#if LLCTRL_CFG == 3
        if ( positive )
            ll.connection_parameters_request_reply( static_cast< std::uint16_t >( imin ), static_cast< std::uint16_t >( imax ), static_cast< std::uint16_t >( lat ), static_cast< std::uint16_t >( to ) );
        else
            ll.connection_parameters_request_negative_reply( 0x3b );
#else
        (void)ll; (void)positive; (void)imin; (void)imax; (void)lat; (void)to;
#endif
    }

    static llctrl::recorder&        rec()  { return g_rec; }
    static llctrl::async_cpr_app*   app()  { return LLCTRL_CFG == 3 ? &g_app : nullptr; }
    static llctrl::key_table_t*     keys() { return nullptr; }

    static llctrl::config_info info()
    {
        std::unique_ptr< ll_t > tmp( new ll_t );
        llctrl::config_info i;
        i.name = name(); i.phy2m = phy2m; i.security = false; i.cpr = cpr;
        i.d_imin = 20; i.d_imax = 40; i.d_lmin = 0; i.d_lmax = 2; i.d_tmin = 100; i.d_tmax = 300;
        i.supported_features = tmp->supported_link_layer_features();
        i.version = tmp->supported_link_layer_version();
        i.company = tmp->link_layer_company_identifier();
        i.rx_buffer = rx_buffer;
        return i;
    }
};

}

int main( int argc, char** argv )
{
    typedef llctrl::bed< cfg > bed_t;

    return llctrl::main_impl< bed_t >( argc, argv );
}
