// llctrl family: the three oracles (no Bluetoe header is needed here; nothing is derived from the code under test).
//
//  resp_oracle  (C27)  response table written from Core Vol 6 Part B 2.4.2 / 5.1 / 5.2
//  life_checker (C29)  requested (established changed* closed(reason) | attempt_timeout), fed with ground truth
//  enc_model    (C28)  legitimate-encryption automaton of the central, Core Vol 6 Part B 5.1.3
#ifndef VERIF_LLCTRL_ORACLES_HPP
#define VERIF_LLCTRL_ORACLES_HPP

#include "common/verif.hpp"

#include <deque>
#include <functional>
#include <set>
#include <string>
#include <vector>

namespace llctrl {

typedef std::vector< std::uint8_t > bytes;

enum cpr_kind_t { cpr_default, cpr_desired, cpr_async };

struct config_info
{
    std::string     name;
    bool            phy2m;
    bool            security;
    cpr_kind_t      cpr;
    // desired_connection_parameters< imin, imax, lmin, lmax, tmin, tmax >
    unsigned        d_imin, d_imax, d_lmin, d_lmax, d_tmin, d_tmax;
    // declared by the link layer's public accessors
    std::uint64_t   supported_features;
    unsigned        version;
    unsigned        company;
    unsigned        rx_buffer;      // configured receive buffer size
};

// opcodes, Core Vol 6 Part B 2.4.2
enum : std::uint8_t {
    LL_CONNECTION_UPDATE_IND = 0x00, LL_CHANNEL_MAP_IND = 0x01, LL_TERMINATE_IND = 0x02, LL_ENC_REQ = 0x03, LL_ENC_RSP = 0x04,
    LL_START_ENC_REQ = 0x05, LL_START_ENC_RSP = 0x06, LL_UNKNOWN_RSP = 0x07, LL_FEATURE_REQ = 0x08, LL_FEATURE_RSP = 0x09,
    LL_PAUSE_ENC_REQ = 0x0A, LL_PAUSE_ENC_RSP = 0x0B, LL_VERSION_IND = 0x0C, LL_REJECT_IND = 0x0D, LL_PERIPHERAL_FEATURE_REQ = 0x0E,
    LL_CONNECTION_PARAM_REQ = 0x0F, LL_CONNECTION_PARAM_RSP = 0x10, LL_REJECT_EXT_IND = 0x11, LL_PING_REQ = 0x12, LL_PING_RSP = 0x13,
    LL_LENGTH_REQ = 0x14, LL_LENGTH_RSP = 0x15, LL_PHY_REQ = 0x16, LL_PHY_RSP = 0x17, LL_PHY_UPDATE_IND = 0x18
};

// CtrData length + 1 (opcode) of the control PDUs this implementation claims to know; 0 = not known here
inline unsigned known_length( std::uint8_t opcode )
{
    switch ( opcode )
    {
    case LL_CONNECTION_UPDATE_IND:  return 12;
    case LL_CHANNEL_MAP_IND:        return 8;
    case LL_TERMINATE_IND:          return 2;
    case LL_ENC_REQ:                return 23;
    case LL_ENC_RSP:                return 13;
    case LL_START_ENC_REQ:          return 1;
    case LL_START_ENC_RSP:          return 1;
    case LL_UNKNOWN_RSP:            return 2;
    case LL_FEATURE_REQ:            return 9;
    case LL_FEATURE_RSP:            return 9;
    case LL_PAUSE_ENC_REQ:          return 1;
    case LL_PAUSE_ENC_RSP:          return 1;
    case LL_VERSION_IND:            return 6;
    case LL_REJECT_IND:             return 2;
    case LL_CONNECTION_PARAM_REQ:   return 24;
    case LL_CONNECTION_PARAM_RSP:   return 24;
    case LL_REJECT_EXT_IND:         return 3;
    case LL_PING_REQ:               return 1;
    case LL_PING_RSP:               return 1;
    case LL_PHY_REQ:                return 3;
    case LL_PHY_RSP:                return 3;
    case LL_PHY_UPDATE_IND:         return 5;
    default:                        return 0;
    }
}

// only the first two violations per key are printed: do not build witnesses for the others
inline bool want_detail( const char* prop, const std::string& key )
{
    const auto& m = verif::mon( prop ).viol_count;
    const auto i = m.find( key );
    return i == m.end() || i->second < 2;
}

inline std::string opcode_name( const bytes& pdu )
{
    static const char* const n[] = { "connection_update_ind", "channel_map_ind", "terminate_ind", "enc_req", "enc_rsp", "start_enc_req", "start_enc_rsp",
        "unknown_rsp", "feature_req", "feature_rsp", "pause_enc_req", "pause_enc_rsp", "version_ind", "reject_ind", "peripheral_feature_req",
        "connection_param_req", "connection_param_rsp", "reject_ext_ind", "ping_req", "ping_rsp", "length_req", "length_rsp", "phy_req", "phy_rsp",
        "phy_update_ind" };
    if ( pdu.empty() ) return "empty";
    return pdu[ 0 ] < sizeof n / sizeof n[ 0 ] ? n[ pdu[ 0 ] ] : "other";
}

inline unsigned rd16( const bytes& b, std::size_t i ) { return b[ i ] | ( b[ i + 1 ] << 8 ); }

// =================================================================================================
// C27
class resp_oracle
{
public:
    typedef std::function< bool ( const bytes& ) > matcher_t;

    enum need_t { none, optional, must };

    struct expectation
    {
        need_t          need;
        matcher_t       match;          // for none: never called
        std::string     cls;            // input class
        std::string     what;           // human readable expectation
        bytes           input;
        unsigned long long step;
        bool            app_pending;    // async connection parameter request: application has not answered yet
        bool            async_tag;
        bool            generic;
    };

    explicit resp_oracle( const config_info& c )
        : cfg( c ), mon( verif::mon( "C27" ) ), step( 0 )
    {
        reset_connection();
    }

    const config_info&  cfg;
    verif::monitor&     mon;
    unsigned long long  step;
    std::function< std::string () > context;        // witness text supplied by the harness

    // state of the current connection (as far as the table needs it)
    bool        feature_req_seen;       // any PDU that may legitimately shrink the "used" feature set was seen
    bool        central_version_seen;
    unsigned    peripheral_version_inds;
    bool        local_disconnect;       // disconnect() was called: no further answers can be demanded
    bool        enc_handshake;          // between LL_ENC_REQ and the end of the start procedure
    std::string state_class;            // workload state, goes into the distinct-case hash

    std::deque< expectation >   fifo;
    std::vector< expectation >  floating;
    std::string                 last_input_cls;

    void reset_connection()
    {
        feature_req_seen = false;
        central_version_seen = false;
        peripheral_version_inds = 0;
        local_disconnect = false;
        enc_handshake = false;
        fifo.clear();
        floating.clear();
        last_input_cls = "none";
        state_class = "idle";
    }

    // the harness initiated something on the peripheral that makes it send a PDU on its own
    void expect_initiated( std::uint8_t opcode, const std::string& cls )
    {
        expectation e;
        e.need  = optional;
        e.match = [opcode]( const bytes& p ) { return !p.empty() && p[ 0 ] == opcode; };
        e.cls   = cls;
        e.what  = "initiated " + cls;
        e.step  = step;
        e.app_pending = false;
        e.async_tag = false;
        e.generic = false;
        floating.push_back( e );
    }

    // asynchronous connection parameter request: the application answered now
    void application_answered( bool positive )
    {
        for ( auto& e : floating )
        {
            if ( e.app_pending )
            {
                e.app_pending = false;
                e.need = must;
                e.what = positive ? "LL_CONNECTION_PARAM_RSP after application reply" : "LL_REJECT_EXT_IND after negative application reply";
                e.match = positive
                    ? matcher_t( []( const bytes& p ) { return p.size() == 24 && p[ 0 ] == LL_CONNECTION_PARAM_RSP; } )
                    : matcher_t( []( const bytes& p ) { return p.size() == 3 && p[ 0 ] == LL_REJECT_EXT_IND && p[ 1 ] == LL_CONNECTION_PARAM_REQ; } );
                return;
            }
        }
    }

    bool local_version_pending() const
    {
        for ( const auto& e : floating ) if ( e.cls == "local_version_ind" ) return true;
        return false;
    }

    bool application_reply_pending() const
    {
        for ( const auto& e : floating ) if ( e.app_pending ) return true;
        return false;
    }

    // ---- a control PDU of the central was accepted by the peripheral (acknowledged)
    void input( const bytes& p )
    {
        mon.eval();

        expectation e;
        e.input = p;
        e.step  = step;
        e.app_pending = false;
        e.async_tag = false;
        e.generic = false;
        e.need  = none;

        expectation follow;             // second PDU caused by the same input (encryption start)
        bool        has_follow = false;

        const unsigned len = static_cast< unsigned >( p.size() );

        if ( len == 0 )
        {
            e.cls = "len0"; e.need = optional; e.generic = true; e.what = "nothing or LL_UNKNOWN_RSP";
            e.match = []( const bytes& r ) { return r.size() == 2 && r[ 0 ] == LL_UNKNOWN_RSP; };
        }
        else
        {
            const std::uint8_t op = p[ 0 ];
            const unsigned     kl = known_length( op );

            auto unknown_rsp = [op]( const bytes& r ) { return r.size() == 2 && r[ 0 ] == LL_UNKNOWN_RSP && r[ 1 ] == op; };
            auto unknown_or_reject = [op]( const bytes& r ) {
                return ( r.size() == 2 && r[ 0 ] == LL_UNKNOWN_RSP && r[ 1 ] == op )
                    || ( r.size() == 2 && r[ 0 ] == LL_REJECT_IND )
                    || ( r.size() == 3 && r[ 0 ] == LL_REJECT_EXT_IND && r[ 1 ] == op ); };

            if ( kl == 0 )
            {
                e.cls = "unknown_opcode"; e.need = must; e.what = "LL_UNKNOWN_RSP(opcode)"; e.match = unknown_rsp;
            }
            else if ( len != kl )
            {
                if ( op == LL_UNKNOWN_RSP || op == LL_REJECT_IND || op == LL_REJECT_EXT_IND )
                {
                    // a malformed response/reject: answering it or not are both defensible
                    e.cls = "wrong_length_response"; e.need = optional; e.what = "nothing or LL_UNKNOWN_RSP(opcode)"; e.match = unknown_rsp;
                }
                else
                {
                    e.cls = "wrong_length"; e.need = must; e.what = "LL_UNKNOWN_RSP(opcode)"; e.match = unknown_rsp;
                }
            }
            else switch ( op )
            {
            case LL_CONNECTION_UPDATE_IND: e.cls = "conn_update"; break;
            case LL_CHANNEL_MAP_IND:       e.cls = "channel_map"; break;
            case LL_TERMINATE_IND:         e.cls = "terminate"; break;
            case LL_UNKNOWN_RSP:           e.cls = "unknown_rsp"; feature_req_seen = feature_req_seen || p[ 1 ] == LL_CONNECTION_PARAM_REQ; break;
            case LL_REJECT_IND:            e.cls = "reject_ind"; break;
            case LL_REJECT_EXT_IND:        e.cls = "reject_ext_ind"; break;

            case LL_FEATURE_REQ:
            {
                const bool first = !feature_req_seen;
                feature_req_seen = true;
                const std::uint64_t supported = cfg.supported_features;
                const std::uint8_t  remote0   = p[ 1 ];
                e.cls  = first ? "feature_req" : "feature_req_repeated";
                e.need = must;
                e.what = "LL_FEATURE_RSP, FeatureSet[0] = supported & remote, FeatureSet[1..7] = supported";
                e.match = [supported, remote0, first]( const bytes& r ) {
                    if ( r.size() != 9 || r[ 0 ] != LL_FEATURE_RSP ) return false;
                    const std::uint8_t both = static_cast< std::uint8_t >( supported ) & remote0;
                    // repeated requests / requests after the peer declared itself older: only a subset can be demanded
                    if ( first ? r[ 1 ] != both : ( r[ 1 ] & ~both ) != 0 ) return false;
                    for ( unsigned i = 1; i < 8; ++i )
                        if ( r[ 1 + i ] != static_cast< std::uint8_t >( supported >> ( 8 * i ) ) ) return false;
                    return true; };
                break;
            }

            case LL_VERSION_IND:
            {
                const bool first = !central_version_seen;
                central_version_seen = true;
                if ( p[ 1 ] <= 6 ) feature_req_seen = true;      // a 4.0 peer: the used feature set may shrink

                if ( first && peripheral_version_inds == 0 )
                {
                    const unsigned vers = cfg.version, comp = cfg.company;
                    e.cls = "version_first"; e.need = must; e.what = "LL_VERSION_IND";
                    e.match = [vers, comp]( const bytes& r ) {
                        return r.size() == 6 && r[ 0 ] == LL_VERSION_IND && r[ 1 ] == vers && rd16( r, 2 ) == comp; };
                }
                else
                {
                    e.cls = first ? "version_reply_to_local" : "version_later"; e.need = optional; e.what = "nothing or LL_UNKNOWN_RSP, never LL_VERSION_IND";
                    e.match = unknown_rsp;
                }
                break;
            }

            case LL_PING_REQ:
                e.cls = "ping_req"; e.need = must; e.what = "LL_PING_RSP";
                e.match = []( const bytes& r ) { return r.size() == 1 && r[ 0 ] == LL_PING_RSP; };
                break;

            case LL_PHY_REQ:
                if ( cfg.phy2m )
                {
                    e.cls = "phy_req_2m"; e.need = must; e.what = "LL_PHY_RSP";
                    e.match = []( const bytes& r ) {
                        return r.size() == 3 && r[ 0 ] == LL_PHY_RSP && r[ 1 ] != 0 && r[ 2 ] != 0 && ( r[ 1 ] & ~3 ) == 0 && ( r[ 2 ] & ~3 ) == 0; };
                }
                else
                {
                    e.cls = "phy_req_1m"; e.need = must; e.what = "LL_UNKNOWN_RSP(LL_PHY_REQ)"; e.match = unknown_rsp;
                }
                break;

            case LL_PHY_UPDATE_IND:
                if ( cfg.phy2m )
                {
                    const bool valid = p[ 1 ] <= 2 && p[ 2 ] <= 2;
                    e.cls = valid ? "phy_update_ind" : "phy_update_ind_invalid";
                    if ( !valid ) { e.need = optional; e.what = "nothing or LL_UNKNOWN_RSP / reject"; e.match = unknown_or_reject; }
                }
                else
                {
                    e.cls = "phy_update_ind_1m"; e.need = must; e.what = "LL_UNKNOWN_RSP(LL_PHY_UPDATE_IND)"; e.match = unknown_rsp;
                }
                break;

            case LL_CONNECTION_PARAM_REQ:
                connection_param_req( p, e );
                break;

            case LL_ENC_REQ:
                if ( cfg.security )
                {
                    e.cls = "enc_req"; e.need = must; e.what = "LL_ENC_RSP";
                    e.match = []( const bytes& r ) { return r.size() == 13 && r[ 0 ] == LL_ENC_RSP; };
                    for ( auto& f : floating )
                        if ( f.cls == "enc_req_followup" ) f.need = optional;
                    follow = e;
                    follow.cls = "enc_req_followup"; follow.what = "LL_START_ENC_REQ or reject(LL_ENC_REQ, key missing)";
                    follow.match = []( const bytes& r ) {
                        return ( r.size() == 1 && r[ 0 ] == LL_START_ENC_REQ )
                            || ( r.size() == 2 && r[ 0 ] == LL_REJECT_IND && r[ 1 ] == 0x06 )
                            || ( r.size() == 3 && r[ 0 ] == LL_REJECT_EXT_IND && r[ 1 ] == LL_ENC_REQ && r[ 2 ] == 0x06 ); };
                    has_follow = true;
                }
                else
                {
                    // 5.1.3.1: a peripheral without encryption support rejects (unsupported remote feature); an
                    // implementation that does not know the PDU at all answers LL_UNKNOWN_RSP
                    e.cls = "enc_req_unsupported"; e.need = must; e.what = "LL_UNKNOWN_RSP(LL_ENC_REQ) or reject"; e.match = unknown_or_reject;
                }
                break;

            case LL_START_ENC_RSP:
            case LL_PAUSE_ENC_REQ:
            case LL_PAUSE_ENC_RSP:
                e.cls = op == LL_START_ENC_RSP ? "start_enc_rsp" : op == LL_PAUSE_ENC_REQ ? "pause_enc_req" : "pause_enc_rsp";
                e.need = optional; e.what = "encryption procedure PDU out of / in context";
                e.match = [op]( const bytes& r ) {
                    return ( r.size() == 1 && ( r[ 0 ] == LL_START_ENC_RSP || r[ 0 ] == LL_PAUSE_ENC_RSP ) )
                        || ( r.size() == 2 && r[ 0 ] == LL_UNKNOWN_RSP && r[ 1 ] == op )
                        || ( r.size() == 2 && r[ 0 ] == LL_REJECT_IND )
                        || ( r.size() == 3 && r[ 0 ] == LL_REJECT_EXT_IND && r[ 1 ] == op ); };
                break;

            default:
                // PDUs only a peripheral sends (LL_ENC_RSP, LL_START_ENC_REQ, LL_FEATURE_RSP, LL_CONNECTION_PARAM_RSP,
                // LL_PHY_RSP) or a response to a request never sent (LL_PING_RSP): the specification is silent
                e.cls = "peripheral_only_pdu"; e.need = optional; e.what = "nothing or LL_UNKNOWN_RSP / reject"; e.match = unknown_or_reject;
                break;
            }
        }

        if ( ( local_disconnect || enc_handshake ) && e.need == must )
        {
            e.need = optional;
            e.cls += local_disconnect ? "@disconnecting" : "@enc_start";
        }

        if ( !p.empty() && p[ 0 ] == LL_ENC_REQ && p.size() == 23 && cfg.security )
            enc_handshake = true;
        if ( !p.empty() && p[ 0 ] == LL_START_ENC_RSP && p.size() == 1 )
            enc_handshake = false;

        mon.cls( e.cls );
        mon.nontrivial( verif::mix( verif::mix( verif::mix( verif::hstr( e.cls ), p.empty() ? 0x100 : p[ 0 ] ), p.size() ), verif::hstr( state_class ) ) );
        last_input_cls = e.cls;

        fifo.push_back( e );

        if ( has_follow )
        {
            if ( local_disconnect ) follow.need = optional;
            floating.push_back( follow );
        }
    }

    // ---- a new control PDU of the peripheral
    void output( const bytes& r )
    {
        mon.eval();

        if ( !r.empty() && r[ 0 ] == LL_VERSION_IND )
        {
            ++peripheral_version_inds;

            if ( peripheral_version_inds >= 2 )
            {
                if ( peripheral_version_inds == 2 )
                report( std::string( "C27:version:second_version_ind:" ) + ( !local_version_pending() ? "reply_after_local_request"
                        : central_version_seen ? "local_request_after_exchange" : "repeated_local_request" ), [&]() { return std::string( "the peripheral sent a second LL_VERSION_IND in one connection (Vol 6 Part B 5.1.5: at most one); pdu=" + verif::hex( r ) ); } );
                // if the central's LL_VERSION_IND still waits for its answer, this was it
                for ( std::size_t k = 0; k < fifo.size(); ++k )
                    if ( fifo[ k ].cls.compare( 0, 13, "version_first" ) == 0 ) { fifo.erase( fifo.begin() + static_cast< std::ptrdiff_t >( k ) ); break; }
                return;
            }
        }

        // The one LL_VERSION_IND of the connection while both the application's request and the central's LL_VERSION_IND
        // wait for it: it serves both (which of the two the link layer looked at first can not be seen from outside)
        if ( !r.empty() && r[ 0 ] == LL_VERSION_IND && peripheral_version_inds == 1 && local_version_pending() )
        {
            for ( std::size_t k = 0; k < fifo.size(); ++k )
            {
                if ( fifo[ k ].cls.compare( 0, 13, "version_first" ) == 0 )
                {
                    fifo.erase( fifo.begin() + static_cast< std::ptrdiff_t >( k ) );
                    for ( std::size_t f = 0; f < floating.size(); ++f )
                        if ( floating[ f ].cls == "local_version_ind" ) { floating.erase( floating.begin() + static_cast< std::ptrdiff_t >( f ) ); break; }
                    mon.cls( "answered:version_first" );
                    return;
                }
            }
        }

        // second half of an encryption start that nobody asked for in this connection
        if ( cfg.security && !r.empty() )
        {
            const bool start_req = r.size() == 1 && r[ 0 ] == LL_START_ENC_REQ;
            const bool enc_reject = ( r.size() == 3 && r[ 0 ] == LL_REJECT_EXT_IND && r[ 1 ] == LL_ENC_REQ && r[ 2 ] == 0x06 ) || ( r.size() == 2 && r[ 0 ] == LL_REJECT_IND && r[ 1 ] == 0x06 );
            bool expected = false;
            for ( const auto& f : floating ) if ( f.cls == "enc_req_followup" ) expected = true;

            if ( ( start_req || enc_reject ) && !expected )
            {
                report( start_req ? "C27:resp:unexpected_reply:start_enc_req_without_enc_req" : "C27:resp:unexpected_reply:enc_reject_without_enc_req", [&]() {
                    return std::string( "PDU " + verif::hex( r ) + " of the peripheral continues an encryption start although no LL_ENC_REQ was received in this connection" ); } );
                return;
            }
        }

        if ( !r.empty() && ( r[ 0 ] == LL_REJECT_IND || r[ 0 ] == LL_REJECT_EXT_IND || r[ 0 ] == LL_START_ENC_RSP ) )
            enc_handshake = false;

        // Whose answer is it?  In this order:
        //  1. the first demanded (must) entry in the queue, if it fits (demanded entries are answered in order)
        //  2. a demanded out-of-order entry (second PDU of the encryption start, answer after an application reply)
        //  3. the first optional entry in front of the first demanded one, zero length PDUs (generic matcher) last
        //  4. optional entries that were passed over earlier, optional out-of-order entries
        // Optional entries in front of a matched demanded entry stay answerable (an implementation may answer both a
        // well-formed "peripheral only" PDU and the malformed one that follows with the same LL_UNKNOWN_RSP).
        std::size_t i = 0;
        while ( i < fifo.size() && fifo[ i ].need != must )
            ++i;

        if ( i < fifo.size() && fifo[ i ].match( r ) )
        {
            mon.cls( "answered:" + fifo[ i ].cls );
            mon.nontrivial( verif::mix( verif::hstr( "answered:" + fifo[ i ].cls ), r[ 0 ] ) );
            if ( mon.samples.size() < 6 && fifo[ i ].cls != "unknown_opcode" )
                mon.sample( cfg.name + ": " + fifo[ i ].cls + " " + verif::hex( fifo[ i ].input ) + " -> " + verif::hex( r ) );

            for ( std::size_t k = 0; k < i; ++k )
                if ( fifo[ k ].need == optional )
                    floating.push_back( fifo[ k ] );

            fifo.erase( fifo.begin(), fifo.begin() + static_cast< std::ptrdiff_t >( i ) + 1 );
            return;
        }

        for ( int pass = 0; pass < 2; ++pass )
        {
            if ( pass == 1 )
            {
                std::size_t hit = fifo.size();
                for ( std::size_t k = 0; k < i && hit == fifo.size(); ++k )
                    if ( fifo[ k ].need == optional && !fifo[ k ].generic && fifo[ k ].match( r ) ) hit = k;
                for ( std::size_t k = 0; k < i && hit == fifo.size(); ++k )
                    if ( fifo[ k ].need == optional && fifo[ k ].generic && fifo[ k ].match( r ) ) hit = k;

                if ( hit != fifo.size() )
                {
                    mon.cls( "answered:" + fifo[ hit ].cls );
                    for ( std::size_t k = 0; k < hit; ++k )
                        if ( fifo[ k ].need == optional )
                            floating.push_back( fifo[ k ] );
                    fifo.erase( fifo.begin(), fifo.begin() + static_cast< std::ptrdiff_t >( hit ) + 1 );
                    return;
                }
            }

            for ( std::size_t f = 0; f < floating.size(); ++f )
            {
                const bool is_must = floating[ f ].need == must;
                if ( is_must == ( pass == 0 ) && !floating[ f ].app_pending && floating[ f ].match( r ) )
                {
                    mon.cls( "answered:" + floating[ f ].cls );
                    floating.erase( floating.begin() + static_cast< std::ptrdiff_t >( f ) );
                    return;
                }
            }
        }

        if ( local_disconnect && !r.empty() && r[ 0 ] == LL_TERMINATE_IND )
            return;

        if ( i < fifo.size() )
        {
            const expectation e = fifo[ i ];
            report( "C27:resp:wrong:" + e.cls + ":got_" + opcode_name( r ), [&]() { return std::string( "input " + verif::hex( e.input ) + " expects " + e.what + " but the next PDU of the peripheral is " + verif::hex( r ) ); } );
            // the wrong PDU is taken as the (only) answer to that input
            fifo.erase( fifo.begin(), fifo.begin() + static_cast< std::ptrdiff_t >( i ) + 1 );
        }
        else
        {
            report( r.size() == 1 && r[ 0 ] == LL_START_ENC_REQ ? std::string( "C27:resp:unexpected_reply:start_enc_req_without_enc_req" )
                    : ( r.size() == 3 && r[ 0 ] == LL_REJECT_EXT_IND && r[ 1 ] == LL_ENC_REQ ) || ( r.size() == 2 && r[ 0 ] == LL_REJECT_IND && r[ 1 ] == 0x06 )
                        ? std::string( "C27:resp:unexpected_reply:enc_reject_without_enc_req" )
                    : "C27:resp:unexpected_reply:" + opcode_name( r ), [&]() { return std::string( "PDU " + verif::hex( r ) + " of the peripheral is not the answer to any accepted PDU (second reply, or reply to a response/reject)" ); } );
        }
    }

    // ---- the link is quiet (two clean events with empty PDUs only): every demanded answer must have arrived
    void quiescent()
    {
        mon.eval();

        for ( const auto& e : fifo )
            if ( e.need == must )
                report( "C27:resp:missing:" + e.cls, [&]() { return std::string( "input " + verif::hex( e.input ) + " expects " + e.what + " but nothing was sent" ); } );

        fifo.clear();

        std::vector< expectation > keep;
        for ( const auto& e : floating )
        {
            if ( e.need == must && !e.app_pending )
                report( "C27:resp:missing:" + e.cls, [&]() { return std::string( "input " + verif::hex( e.input ) + " expects " + e.what + " but nothing was sent" ); } );
            else if ( e.app_pending )
                keep.push_back( e );
        }
        floating.swap( keep );
    }

private:
    template < class F >
    void report( const std::string& key, F text )
    {
        if ( want_detail( "C27", key ) )
            verif::violation( "C27", key, text() + ( context ? " | " + context() : std::string() ), step );
        else
            verif::violation( "C27", key, "", step );
    }

    void connection_param_req( const bytes& p, expectation& e )
    {
        const unsigned imin = rd16( p, 1 ), imax = rd16( p, 3 ), lat = rd16( p, 5 ), to = rd16( p, 7 );

        // Vol 6 Part B 2.4.2.16: Interval 6..3200, Latency 0..499, Timeout 10..3200
        const bool surely_invalid = imin > imax || imax > 3200 || lat > 499;
        const bool surely_valid   = imin >= 6 && imin <= imax && imax <= 3200 && lat <= 499 && to >= 10 && to <= 3200
                                 && to * 8 > ( 1 + lat ) * imax * 2;    // timeout (10 ms) > (1+latency) * interval (1.25 ms) * 2

        auto reject_invalid = []( const bytes& r ) { return r.size() == 3 && r[ 0 ] == LL_REJECT_EXT_IND && r[ 1 ] == LL_CONNECTION_PARAM_REQ && r[ 2 ] == 0x1e; };
        auto rsp_or_reject  = []( const bytes& r ) {
            return ( r.size() == 24 && r[ 0 ] == LL_CONNECTION_PARAM_RSP )
                || ( r.size() == 3 && r[ 0 ] == LL_REJECT_EXT_IND && r[ 1 ] == LL_CONNECTION_PARAM_REQ ); };

        if ( surely_invalid )
        {
            e.cls = "cpr_invalid"; e.need = must; e.what = "LL_REJECT_EXT_IND(LL_CONNECTION_PARAM_REQ, invalid LL parameters)"; e.match = reject_invalid;
            return;
        }

        if ( !surely_valid )
        {
            e.cls = "cpr_borderline"; e.need = must; e.what = "LL_CONNECTION_PARAM_RSP or LL_REJECT_EXT_IND(LL_CONNECTION_PARAM_REQ)"; e.match = rsp_or_reject;
            return;
        }

        switch ( cfg.cpr )
        {
        case cpr_default:
            // nothing configured: the request is acceptable as it is
            e.cls = "cpr_valid_default"; e.need = must; e.what = "LL_CONNECTION_PARAM_RSP accepting the requested values";
            e.match = [imin, imax, lat, to]( const bytes& r ) {
                return r.size() == 24 && r[ 0 ] == LL_CONNECTION_PARAM_RSP
                    && rd16( r, 1 ) >= imin && rd16( r, 3 ) <= imax && rd16( r, 1 ) <= rd16( r, 3 ) && rd16( r, 5 ) == lat && rd16( r, 7 ) == to; };
            break;

        case cpr_desired:
        {
            const config_info c = cfg;
            e.cls = "cpr_valid_desired"; e.need = must; e.what = "LL_CONNECTION_PARAM_RSP inside the configured desired ranges (or a reject)";
            e.match = [c, imin, imax, lat, to]( const bytes& r ) {
                if ( r.size() == 3 && r[ 0 ] == LL_REJECT_EXT_IND && r[ 1 ] == LL_CONNECTION_PARAM_REQ ) return true;
                if ( r.size() != 24 || r[ 0 ] != LL_CONNECTION_PARAM_RSP ) return false;
                const unsigned a = rd16( r, 1 ), b = rd16( r, 3 ), l = rd16( r, 5 ), t = rd16( r, 7 );
                // the answered values are the configured ones or the requested ones where those lie inside
                if ( a > b ) return false;
                if ( a < c.d_imin || b > c.d_imax ) return false;
                if ( l < c.d_lmin || l > c.d_lmax ) return false;
                if ( t < c.d_tmin || t > c.d_tmax ) return false;
                if ( lat >= c.d_lmin && lat <= c.d_lmax && l != lat ) return false;
                if ( to >= c.d_tmin && to <= c.d_tmax && t != to ) return false;
                (void)imin; (void)imax;
                return true; };
            break;
        }

        case cpr_async:
            // answered when (and only when) the application answers; requests identical to the current parameters
            // may be answered at once.  No in-order answer is demanded; a floating entry takes the answer.
            e.cls = "cpr_valid_async"; e.need = none;
            {
                expectation f = e;
                f.need = optional; f.async_tag = true; f.what = "LL_CONNECTION_PARAM_RSP or reject when the application answers"; f.match = rsp_or_reject;
                floating.push_back( f );
            }
            break;
        }
    }

public:
    // asynchronous configuration: the application's callback fired for the oldest request not yet handed to it
    void application_called()
    {
        for ( auto& e : floating )
            if ( e.async_tag && !e.app_pending && e.need == optional ) { e.app_pending = true; return; }
    }
};

// =================================================================================================
// C29
class life_checker
{
public:
    enum kind_t { requested, attempt_timeout, established, changed, closed, version, rejected, unknown, features, phy };

    static const char* kind_name( int k )
    {
        static const char* n[] = { "requested", "attempt_timeout", "established", "changed", "closed", "version", "rejected", "unknown", "remote_features", "phy_updated" };
        return n[ k ];
    }

    life_checker() : mon( verif::mon( "C29" ) ), step( 0 ), st( st_none ), conn_truth( false ), want_requested( false ), first_event( false )
        , want_established( false ), n_callbacks( 0 ), burst_before_end( 0 ) {}

    verif::monitor&     mon;
    unsigned long long  step;
    std::function< std::string () > context;

    enum state_t { st_none, st_requested, st_established, st_done_closed, st_done_attempt } st;

    // ground truth
    bool                    conn_truth;         // a valid CONNECT_IND was delivered and the link layer did not return to advertising yet
    bool                    want_requested;
    bool                    first_event;        // the central was heard in at least one connection event
    bool                    want_established;
    std::set< unsigned >    allowed_reasons;
    std::string             cause;              // workload class of the end of this connection
    unsigned                n_callbacks;
    unsigned                burst_before_end;   // event producing PDUs in the connection event that ended the connection
    unsigned                closed_reason;
    std::string             seq;                // callbacks of the current connection
    bool                    pending_instant_traffic = false;

    // actual changes of the connection that still have to be reported by ll_connection_changed (exactly once each)
    struct owed_change { std::string kind; std::string burst; bool due; };
    bool                        track_changes = false;      // the driver feeds every source of change (encryption on/off, connection update)
    bool                        changes_unreliable = false; // order of processing not known for this connection: no verdicts about changes
    std::deque< owed_change >   owed;
    std::string                 last_change_kind = "none";

    static std::string burst_class( unsigned n ) { return n == 0 ? "burst0" : n <= 3 ? "burst1-3" : n == 4 ? "burst4" : "burst5+"; }

    void truth_change( const std::string& kind, unsigned burst, bool due )
    {
        if ( !track_changes || !conn_truth ) return;
        owed.push_back( owed_change{ kind, burst_class( burst ), due } );
        mon.cls( "change:" + kind );
        mon.cls( "change_burst:" + burst_class( burst ) );
        mon.nontrivial( verif::mix( verif::hstr( "change:" + kind ), burst ) );
    }

    void changes_now_due( const std::string& kind, unsigned burst )
    {
        for ( auto& o : owed )
            if ( o.kind == kind && !o.due ) { o.due = true; o.burst = burst_class( burst ); mon.cls( "change_burst:" + o.burst ); mon.cls( "change_at_instant:" + o.burst ); }
    }

    // the link is quiet: everything that reached the link layer was processed
    void changes_settled()
    {
        if ( !track_changes ) return;
        mon.eval();

        std::deque< owed_change > keep;
        for ( const auto& o : owed )
        {
            if ( !o.due ) { keep.push_back( o ); continue; }
            if ( !changes_unreliable )
                bad( "C29:missing:changed:" + o.kind + ":" + o.burst, "the connection changed (" + o.kind + ") but ll_connection_changed was not called for it" );
        }
        owed.swap( keep );
    }
   // PDUs reached the link layer while a PDU with an instant waited (C21 territory)

    void truth_connect_ind()
    {
        // previous connection must be complete
        conn_truth       = true;
        want_requested   = true;
        first_event      = false;
        want_established = false;
        allowed_reasons.clear();
        cause = "";
        burst_before_end = 0;
        pending_instant_traffic = false;
        owed.clear();
        changes_unreliable = false;
        last_change_kind = "none";
    }

    void truth_first_event()
    {
        if ( conn_truth && !first_event )
        {
            first_event      = true;
            want_established = true;
        }
    }

    void allow_reason( unsigned r, const std::string& why )
    {
        allowed_reasons.insert( r );
        if ( cause.empty() ) cause = why;
    }

    void callback( kind_t k, unsigned arg )
    {
        mon.eval();
        ++n_callbacks;

        if ( seq.size() < 400 )
        {
            seq += kind_name( k );
            if ( k == closed ) { char b[ 16 ]; std::snprintf( b, sizeof b, "(%02x)", arg ); seq += b; }
            seq += " ";
        }

        switch ( k )
        {
        case requested:
            if ( !want_requested || ( st != st_none && st != st_done_closed && st != st_done_attempt ) )
                bad( std::string( "C29:order:requested:" ) + state_name(), "ll_connection_requested without a (new) connect request or before the previous connection was reported as ended" );
            want_requested = false;
            st = st_requested;
            seq = "requested ";
            break;

        case established:
            if ( st != st_requested )
                bad( std::string( "C29:order:established:" ) + state_name(), "ll_connection_established in the wrong place" );
            else
                st = st_established;
            want_established = false;
            break;

        case attempt_timeout:
            if ( st != st_requested )
                bad( std::string( "C29:order:attempt_timeout:" ) + state_name(), "ll_connection_attempt_timeout in the wrong place" );
            else
                st = st_done_attempt;
            break;

        case closed:
            if ( st != st_established )
                bad( std::string( "C29:order:closed:" ) + state_name(), "ll_connection_closed in the wrong place (duplicate, or for a connection not established)" );
            else
            {
                st = st_done_closed;
                closed_reason = arg;
            }
            break;

        default:
            if ( st != st_established )
                bad( std::string( "C29:order:" ) + kind_name( k ) + ":" + state_name(), std::string( kind_name( k ) ) + " callback outside of an established connection" );
            else if ( k == changed && track_changes && !changes_unreliable )
            {
                // belongs to the oldest change that is due, else to the oldest one at all (connection update at its instant)
                std::size_t hit = owed.size();
                for ( std::size_t i = 0; i < owed.size() && hit == owed.size(); ++i ) if ( owed[ i ].due ) hit = i;
                if ( hit == owed.size() && !owed.empty() ) hit = 0;

                if ( hit == owed.size() )
                    bad( "C29:duplicate:changed:" + last_change_kind, "ll_connection_changed was called although nothing changed since the last report (last change: " + last_change_kind + ")" );
                else
                {
                    last_change_kind = owed[ hit ].kind;
                    mon.cls( "changed_reported:" + owed[ hit ].kind );
                    owed.erase( owed.begin() + static_cast< std::ptrdiff_t >( hit ) );
                }
            }
            break;
        }
    }

    // to be called after every run() of the link layer
    void after_run( bool back_to_advertising )
    {
        if ( want_requested )
        {
            bad( "C29:missing:requested", "a valid CONNECT_IND was delivered but ll_connection_requested was not called" );
            want_requested = false;
        }

        if ( want_established && !back_to_advertising )
        {
            if ( st != st_established )
                bad( "C29:missing:established", "the first connection event took place but ll_connection_established was not called" );
            want_established = false;
        }

        if ( back_to_advertising && conn_truth )
        {
            mon.eval();
            conn_truth = false;

            const std::string burst_cls = burst_before_end == 0 ? "burst0" : burst_before_end <= 3 ? "burst1-3" : burst_before_end == 4 ? "burst4" : "burst5+";

            if ( first_event )
            {
                mon.cls( "end:" + cause );
                mon.cls( "end:" + burst_cls );
                mon.nontrivial( verif::mix( verif::mix( verif::hstr( "end:" + cause ), burst_before_end ), verif::hstr( seq ) ) );
                if ( mon.samples.size() < 6 && burst_before_end >= 2 )
                    mon.sample( "end by " + cause + ", " + std::to_string( burst_before_end ) + " event PDUs in the last connection event: " + seq );

                if ( st == st_established )
                    bad( "C29:missing:closed:" + cause + ":" + burst_cls, "the link layer went back to advertising after an established connection but ll_connection_closed was not called" );
                else if ( st == st_done_closed )
                {
                    if ( !allowed_reasons.count( closed_reason ) )
                    {
                        char b[ 160 ]; std::string al;
                        for ( unsigned r : allowed_reasons ) { std::snprintf( b, sizeof b, "%02x ", r ); al += b; }
                        std::snprintf( b, sizeof b, "ll_connection_closed(reason=0x%02x) but the cause (%s) allows { %s}", closed_reason, cause.c_str(), al.c_str() );
                        const char* got = closed_reason == 0x08 ? "got_08" : closed_reason == 0x16 ? "got_16" : closed_reason == 0x22 ? "got_22"
                                        : closed_reason == 0x28 ? "got_28" : closed_reason == 0x13 ? "got_13" : "got_other";
                        bad( "C29:reason:" + ( cause.empty() ? std::string( "no_cause" ) : cause ) + ":" + got + ( pending_instant_traffic ? ":pending_instant_traffic" : "" ), b );
                    }
                }
                else if ( st == st_done_attempt )
                    bad( "C29:order:attempt_timeout_after_first_event", "attempt timeout reported although a connection event took place" );
                else
                    bad( "C29:missing:closed:" + cause + ":" + burst_cls, "connection ended without any end being reported" );
            }
            else
            {
                mon.cls( "end:never_answered" );
                mon.nontrivial( verif::mix( verif::hstr( "end:never" ), verif::hstr( seq ) ) );

                if ( st != st_done_attempt )
                    bad( std::string( "C29:missing:attempt_timeout:" ) + state_name(), "the connection never saw a connection event; ll_connection_attempt_timeout expected" );
            }

            // whatever happened, the next connection starts clean (changes under way when the connection ended are not demanded)
            owed.clear();
            st = st_none;
            want_established = false;
        }
    }

    const char* state_name() const
    {
        static const char* n[] = { "none", "requested", "established", "closed", "attempt_timeout" };
        return n[ st ];
    }

private:
    void bad( const std::string& key, const std::string& text )
    {
        verif::violation( "C29", key, want_detail( "C29", key ) ? text + "; callbacks of this connection: " + seq + ( context ? " | " + context() : std::string() ) : std::string(), step );
    }
};

// =================================================================================================
// C28
class enc_model
{
public:
    enc_model() : mon( verif::mon( "C28" ) ), step( 0 ) { reset( "never_started" ); }

    verif::monitor&     mon;
    unsigned long long  step;
    std::function< std::string () > context;

    enum hs_t { hs_idle, hs_wait_start_req, hs_start_req_seen, hs_rejecting } hs;
    bool            legit;              // the link may be reported as encrypted
    std::string     why_not;            // why it may not
    bool            reject_seen;
    std::string     history;            // symbols of this connection
    bool            owed_start_req;     // a LL_START_ENC_REQ for an earlier known-key request may still be queued in the peripheral
    bool            tainted;            // the order in which the link layer looks at the PDUs is not known (instant pending): no verdicts
    bool            last_req_rejected;  // the last LL_ENC_REQ of this connection was for an unknown key
    std::string     trigger;            // what the last LL_START_ENC_RSP that could not start encryption looked like

    void reset( const char* why )
    {
        hs = hs_idle; legit = false; why_not = why; reject_seen = false; trigger = ""; last_req_rejected = false; tainted = false; owed_start_req = false;
    }

    void reconnect() { reset( "survived_reconnect" ); history += "| "; if ( history.size() > 300 ) history.erase( 0, 100 ); }

    void sym( const std::string& s ) { history += s + " "; }

    // accepted PDUs of the central
    void enc_req( bool key_known )
    {
        sym( key_known ? "ENC_REQ(known)" : "ENC_REQ(unknown)" );
        if ( hs == hs_wait_start_req )
            owed_start_req = true;
        hs = key_known ? hs_wait_start_req : hs_rejecting;
        reject_seen = false;
        last_req_rejected = !key_known;
    }

    // same_event_as_enc_req: the PDU travelled in the connection event of the LL_ENC_REQ, i.e. before the link layer had
    // its turn to queue LL_START_ENC_REQ.  In a later event the LL_START_ENC_REQ may be queued but not yet on air: ambiguous.
    void start_enc_rsp( bool same_event_as_enc_req = false )
    {
        sym( "START_ENC_RSP" );
        if ( hs == hs_wait_start_req && !same_event_as_enc_req )
            tainted = true;

        if ( hs == hs_start_req_seen ) { legit = true; why_not = ""; trigger = ""; hs = hs_idle; }
        else if ( !legit )
        {
            trigger = hs == hs_rejecting || ( hs == hs_idle && last_req_rejected ) ? "start_enc_rsp_after_rejected_enc_req"
                    : hs == hs_idle ? "start_enc_rsp_without_enc_req" : "start_enc_rsp_before_start_enc_req";

            // premature: the start procedure for the supplied key goes on, the peripheral still owes its LL_START_ENC_REQ
            if ( hs != hs_wait_start_req )
                hs = hs_idle;
        }
    }

    // a pause ends the encrypted state; a start procedure that is under way (key supplied, LL_START_ENC_REQ possibly sent) is
    // not touched by it: the statement only asks for the three steps of the start procedure
    void pause_enc_req() { sym( "PAUSE_ENC_REQ" ); if ( legit ) { legit = false; why_not = "survived_pause"; trigger = ""; } }
    void pause_enc_rsp() { sym( "PAUSE_ENC_RSP" ); if ( legit ) { legit = false; why_not = "survived_pause"; trigger = ""; } }

    // PDUs of the peripheral
    void peripheral_pdu( const bytes& r )
    {
        if ( r.empty() ) return;

        if ( r[ 0 ] == LL_START_ENC_REQ )
        {
            mon.eval();
            if ( hs == hs_wait_start_req && !owed_start_req )
                hs = hs_start_req_seen;
            else if ( owed_start_req )
                owed_start_req = false;
            else if ( !tainted )
                bad( std::string( "C28:pdu:start_enc_req_without_key:" ) + ( hs == hs_rejecting ? "unknown_key" : "no_request" ),
                     "the peripheral sent LL_START_ENC_REQ without a preceding LL_ENC_REQ for which a key existed" );
        }
        else if ( ( r[ 0 ] == LL_REJECT_IND && r.size() == 2 ) || ( r[ 0 ] == LL_REJECT_EXT_IND && r.size() == 3 && r[ 1 ] == LL_ENC_REQ ) )
        {
            reject_seen = true;
            if ( hs == hs_rejecting ) hs = hs_idle;
        }
    }

    void quiescent()
    {
        if ( hs == hs_rejecting )
        {
            mon.eval();
            if ( !reject_seen && !tainted )
                bad( "C28:pdu:unknown_key_not_rejected", "LL_ENC_REQ for an EDIV/Rand without key was not answered by LL_REJECT_IND / LL_REJECT_EXT_IND" );
            hs = hs_idle;
        }
    }

    // observations
    void observed_encrypted( bool is_encrypted, const char* via )
    {
        if ( tainted ) { mon.count( "tainted_observations" ); return; }
        mon.eval();
        mon.nontrivial( verif::mix( verif::mix( verif::hstr( history.size() > 120 ? history.substr( history.size() - 120 ) : history ), is_encrypted ), verif::hstr( via ) ) );

        if ( is_encrypted && legit )
            mon.cls( "legit_encrypted_observed" );

        if ( is_encrypted && !legit )
            bad( std::string( "C28:state:reported_encrypted:" ) + ( trigger.empty() ? why_not : trigger ), std::string( "the link is reported as encrypted (" ) + via + ") but no encryption start procedure with a supplied key completed" );
    }

    void observed_protected_read( bool value_returned, const bytes& att_response )
    {
        if ( tainted ) return;
        mon.eval();
        mon.cls( value_returned ? "protected_read_value" : "protected_read_refused" );
        if ( mon.samples.size() < 6 && history.size() > 20 )
            mon.sample( history + "-> ATT " + verif::hex( att_response ) + ( legit ? " (legitimately encrypted)" : " (not encrypted)" ) );
        mon.nontrivial( verif::mix( verif::mix( verif::hstr( history.size() > 120 ? history.substr( history.size() - 120 ) : history ), value_returned ), 77 ) );

        if ( value_returned && !legit )
            bad( std::string( "C28:att:protected_value_exposed:" ) + ( trigger.empty() ? why_not : trigger ), "a read of the encryption-protected attribute returned the value (" + verif::hex( att_response ) + ") on a link that is not legitimately encrypted" );
    }

private:
    void bad( const std::string& key, const std::string& text )
    {
        verif::violation( "C28", key, want_detail( "C28", key ) ? text + "; symbols: " + history + ( context ? " | " + context() : std::string() ) : std::string(), step );
    }
};

}

#endif
